#!/bin/sh
# Builds the verification framework from files on disk only (offline).
set -e
cd "$(dirname "$0")"
export GOFLAGS=-mod=mod GOPROXY=off GOSUMDB=off GOTOOLCHAIN=local
mkdir -p bin evidence replays
go build -o bin/vcheck ./cmd/vcheck
echo "setup ok"
