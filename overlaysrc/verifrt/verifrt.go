//go:build verif

// Package verifrt is the runtime behind the scheduling points that /verif's
// instrumenter injects into a build overlay of aukilabs/hagall. It is never
// committed to the repository: the overlay places it at
// github.com/aukilabs/hagall/verifrt for instrumented builds only.
//
// Modes (bit set):
//
//	0  off     one atomic load per point
//	1  jitter  stateless random Gosched/sleep decided from hash(site, time, seed);
//	           no shared writes and no locks, so no happens-before edge is
//	           added and the race detector is not blinded
//	2  sched   named gates (hold / release / wait-for-n-parked), hit counters
//	-  locks   (switched by op=locktrack, independent of the mode) lock-order monitor: every Lock/RLock statement of the instrumented
//	           packages reports the lock's class (type + field) before acquiring,
//	           every Unlock/RUnlock reports the release; an edge A -> B is recorded
//	           when a goroutine asks for class B while holding class A. Cycles are
//	           looked for by the harness (a cycle = two code paths that take the same
//	           two locks in opposite orders: a deadlock some schedule can reach).
package verifrt

import (
	"encoding/json"
	"net/http"
	"runtime"
	"strconv"
	"sync"
	"sync/atomic"
	"time"
)

var (
	mode       atomic.Int32
	jitterRate atomic.Uint32 // out of 65536: probability of perturbing a point
	seed       atomic.Uint64

	mu    sync.Mutex
	gates = map[string]*gate{}
	hits  = map[string]uint64{}
)

type lockEdge struct {
	From     string `json:"from"`
	To       string `json:"to"`
	FromSite string `json:"from_site"`
	ToSite   string `json:"to_site"`
	Count    int    `json:"count"`
}

type heldLock struct{ class, site string }

var (
	lmu       sync.Mutex
	heldBy    = map[uint64][]heldLock{}
	lockEdges = map[string]*lockEdge{}
	lockAcqs  uint64
	lockTrack atomic.Bool
)

func goid() uint64 {
	var buf [64]byte
	n := runtime.Stack(buf[:], false)
	// "goroutine 123 ["
	var id uint64
	for i := len("goroutine "); i < n && buf[i] >= '0' && buf[i] <= '9'; i++ {
		id = id*10 + uint64(buf[i]-'0')
	}
	return id
}

// Acq is called just before a Lock / RLock statement.
func Acq(class, site string) {
	if !lockTrack.Load() {
		return
	}
	g := goid()
	lmu.Lock()
	lockAcqs++
	for _, h := range heldBy[g] {
		if h.class == class {
			continue
		}
		k := h.class + " -> " + class
		e := lockEdges[k]
		if e == nil {
			e = &lockEdge{From: h.class, To: class, FromSite: h.site, ToSite: site}
			lockEdges[k] = e
		}
		e.Count++
	}
	heldBy[g] = append(heldBy[g], heldLock{class, site})
	lmu.Unlock()
}

// Rel is called at an Unlock / RUnlock statement (for a deferred unlock: right
// after it ran).
func Rel(class string) {
	if !lockTrack.Load() {
		return
	}
	g := goid()
	lmu.Lock()
	hs := heldBy[g]
	for i := len(hs) - 1; i >= 0; i-- {
		if hs[i].class == class {
			hs = append(hs[:i], hs[i+1:]...)
			break
		}
	}
	if len(hs) == 0 {
		delete(heldBy, g)
	} else {
		heldBy[g] = hs
	}
	lmu.Unlock()
}

type gate struct {
	hold    bool
	skip    int // let this many arrivals pass before holding
	max     int // hold at most this many arrivals (0 = unlimited)
	held    int // arrivals held so far (total)
	waiting int // currently parked
	ch      chan struct{}
}

func hash(site string, t uint64) uint64 {
	h := uint64(1469598103934665603) ^ seed.Load()
	for i := 0; i < len(site); i++ {
		h ^= uint64(site[i])
		h *= 1099511628211
	}
	h ^= t
	h *= 1099511628211
	h ^= h >> 29
	h *= 0x9E3779B97F4A7C15
	h ^= h >> 32
	return h
}

// P is a scheduling point.
func P(site string) {
	m := mode.Load()
	if m == 0 {
		return
	}
	if m&1 != 0 {
		h := hash(site, uint64(time.Now().UnixNano()))
		if uint32(h&0xffff) < jitterRate.Load() {
			switch (h >> 16) & 7 {
			case 0, 1, 2, 3:
				runtime.Gosched()
			case 4, 5:
				time.Sleep(time.Duration(5+(h>>20)%50) * time.Microsecond)
			case 6:
				time.Sleep(time.Duration(50+(h>>20)%450) * time.Microsecond)
			default:
				time.Sleep(time.Duration(500+(h>>20)%1500) * time.Microsecond)
			}
		}
	}
	if m&2 != 0 {
		mu.Lock()
		hits[site]++
		g := gates[site]
		if g == nil || !g.hold {
			mu.Unlock()
			return
		}
		if g.skip > 0 {
			g.skip--
			mu.Unlock()
			return
		}
		if g.max > 0 && g.held >= g.max {
			mu.Unlock()
			return
		}
		g.held++
		g.waiting++
		ch := g.ch
		mu.Unlock()
		<-ch
		mu.Lock()
		g.waiting--
		mu.Unlock()
	}
}

// Control is the HTTP control surface (mounted on the SUT's admin port).
//
//	op=mode&v=N[&rate=R&seed=S]
//	op=hold&site=X[&skip=K&max=M]   arm a gate
//	op=release&site=X               release everything parked at X and disarm
//	op=step&site=X                  release everything parked at X, stay armed
//	op=wait&site=X&n=N&ms=T         block until N goroutines are parked at X
//	op=hits                         JSON of hit counters and parked counts
//	op=reset                        release and forget all gates, zero counters
//	op=locks                        JSON of the lock-order edges seen so far (not cleared by reset)
func Control(w http.ResponseWriter, r *http.Request) {
	q := r.URL.Query()
	atoi := func(k string, d int) int {
		if v, err := strconv.Atoi(q.Get(k)); err == nil {
			return v
		}
		return d
	}
	switch q.Get("op") {
	case "mode":
		if q.Get("rate") != "" {
			jitterRate.Store(uint32(atoi("rate", 0)))
		}
		if q.Get("seed") != "" {
			seed.Store(uint64(atoi("seed", 0)))
		}
		mode.Store(int32(atoi("v", 0)))
		w.Write([]byte("ok"))
	case "hold":
		mu.Lock()
		site := q.Get("site")
		g := gates[site]
		if g == nil || !g.hold {
			g = &gate{ch: make(chan struct{})}
			gates[site] = g
		}
		g.hold = true
		g.skip = atoi("skip", 0)
		g.max = atoi("max", 0)
		mu.Unlock()
		w.Write([]byte("ok"))
	case "release":
		mu.Lock()
		if g := gates[q.Get("site")]; g != nil && g.hold {
			g.hold = false
			close(g.ch)
		}
		mu.Unlock()
		w.Write([]byte("ok"))
	case "step":
		// let the goroutines parked at the gate go on; the gate stays armed for
		// the next arrivals
		mu.Lock()
		if g := gates[q.Get("site")]; g != nil && g.hold {
			old := g.ch
			g.ch = make(chan struct{})
			close(old)
		}
		mu.Unlock()
		w.Write([]byte("ok"))
	case "wait":
		site, n := q.Get("site"), atoi("n", 1)
		deadline := time.Now().Add(time.Duration(atoi("ms", 5000)) * time.Millisecond)
		for {
			mu.Lock()
			g := gates[site]
			cur := 0
			if g != nil {
				cur = g.waiting
			}
			mu.Unlock()
			if cur >= n {
				w.Write([]byte("ok"))
				return
			}
			if time.Now().After(deadline) {
				w.WriteHeader(http.StatusRequestTimeout)
				w.Write([]byte("timeout parked=" + strconv.Itoa(cur)))
				return
			}
			time.Sleep(200 * time.Microsecond)
		}
	case "hits":
		mu.Lock()
		out := struct {
			Hits   map[string]uint64 `json:"hits"`
			Parked map[string]int    `json:"parked"`
		}{map[string]uint64{}, map[string]int{}}
		for k, v := range hits {
			out.Hits[k] = v
		}
		for k, g := range gates {
			out.Parked[k] = g.waiting
		}
		mu.Unlock()
		json.NewEncoder(w).Encode(out)
	case "locktrack":
		lockTrack.Store(atoi("v", 0) != 0)
		w.Write([]byte("ok"))
	case "locks":
		lmu.Lock()
		out := struct {
			Acquisitions uint64      `json:"acquisitions"`
			Edges        []*lockEdge `json:"edges"`
		}{Acquisitions: lockAcqs}
		for _, e := range lockEdges {
			c := *e
			out.Edges = append(out.Edges, &c)
		}
		lmu.Unlock()
		json.NewEncoder(w).Encode(out)
	case "reset":
		mu.Lock()
		for k, g := range gates {
			if g.hold {
				g.hold = false
				close(g.ch)
			}
			delete(gates, k)
		}
		for k := range hits {
			delete(hits, k)
		}
		mu.Unlock()
		w.Write([]byte("ok"))
	default:
		w.WriteHeader(http.StatusBadRequest)
	}
}

func init() {
	jitterRate.Store(6000)
}
