//go:build verif

package main

import (
	"net/http"
	"os"

	"github.com/aukilabs/hagall/verifrt"
)

// Starts the verifrt control listener of an instrumented build of the real
// binary. Added by /verif's build overlay only; never part of the repository.
func init() {
	if addr := os.Getenv("VERIF_RT_ADDR"); addr != "" {
		go http.ListenAndServe(addr, http.HandlerFunc(verifrt.Control))
	}
}
