//go:build verif

// e6ids drives the real models.SequentialIDGenerator in a child process:
// (a) exhaustively, every New / Reuse(held id) sequence up to a length bound,
// each repeated (New iterates a map), with the oracle "New never returns an id
// that is currently held"; (b) concurrent New/Reuse histories checked for
// linearizability with porcupine against a free-set model.
package main

import (
	"encoding/json"
	"flag"
	"fmt"
	"math/rand"
	"os"
	"sort"
	"strings"
	"sync"
	"sync/atomic"
	"time"

	"github.com/anishathalye/porcupine"
	"github.com/aukilabs/hagall/models"
)

type result struct {
	Sequences   int      `json:"sequences"`
	Executions  int      `json:"executions"`
	MaxLen      int      `json:"max_len"`
	Reissued    int      `json:"ids_handed_out_again_after_release"`
	Histories   int      `json:"concurrent_histories"`
	HistoryOps  int      `json:"concurrent_operations"`
	Overlapping int      `json:"histories_with_overlapping_allocations"`
	Unknown     int      `json:"checker_timeouts"`
	Violations  []string `json:"violations"`
	SampleSeq   []string `json:"sample_sequences"`
}

// op: 0 = New, k>0 = Reuse(the k-th smallest held id)
func runSeq(ops []int, rep int, res *result) {
	var g models.SequentialIDGenerator
	held := map[uint32]bool{}
	released := map[uint32]bool{}
	var trace []string
	for _, op := range ops {
		if op == 0 {
			id := g.New()
			trace = append(trace, fmt.Sprintf("New=%d", id))
			if held[id] {
				res.Violations = append(res.Violations, fmt.Sprintf("New returned id %d which is currently held; trace %v (repetition %d)", id, trace, rep))
				return
			}
			if id == 0 {
				res.Violations = append(res.Violations, fmt.Sprintf("New returned id 0; trace %v", trace))
				return
			}
			if released[id] {
				res.Reissued++
				delete(released, id)
			}
			held[id] = true
			continue
		}
		ids := make([]uint32, 0, len(held))
		for id := range held {
			ids = append(ids, id)
		}
		sort.Slice(ids, func(i, j int) bool { return ids[i] < ids[j] })
		id := ids[op-1]
		g.Reuse(id)
		delete(held, id)
		released[id] = true
		trace = append(trace, fmt.Sprintf("Reuse(%d)", id))
	}
	res.Executions++
	if len(res.SampleSeq) < 3 && len(ops) == res.MaxLen && res.Executions%997 == 0 {
		res.SampleSeq = append(res.SampleSeq, strings.Join(trace, " "))
	}
}

func enumerate(prefix []int, held int, maxLen, reps int, res *result) {
	if len(prefix) > 0 {
		res.Sequences++
		for r := 0; r < reps; r++ {
			runSeq(prefix, r, res)
			if len(res.Violations) > 5 {
				return
			}
		}
	}
	if len(prefix) == maxLen || len(res.Violations) > 5 {
		return
	}
	enumerate(append(append([]int(nil), prefix...), 0), held+1, maxLen, reps, res)
	for k := 1; k <= held; k++ {
		enumerate(append(append([]int(nil), prefix...), k), held-1, maxLen, reps, res)
	}
}

type idIn struct {
	New bool
	ID  uint32
}

func stateKey(s map[uint32]bool) string {
	ids := make([]int, 0, len(s))
	for id := range s {
		ids = append(ids, int(id))
	}
	sort.Ints(ids)
	return fmt.Sprint(ids)
}

var idModel = porcupine.Model{
	Init: func() interface{} { return map[uint32]bool{} },
	Step: func(st, in, out interface{}) (bool, interface{}) {
		held := st.(map[uint32]bool)
		i := in.(idIn)
		next := make(map[uint32]bool, len(held)+1)
		for k := range held {
			next[k] = true
		}
		if i.New {
			id := out.(uint32)
			if held[id] || id == 0 {
				return false, st
			}
			next[id] = true
			return true, next
		}
		if !held[i.ID] {
			return false, st
		}
		delete(next, i.ID)
		return true, next
	},
	Equal: func(a, b interface{}) bool { return stateKey(a.(map[uint32]bool)) == stateKey(b.(map[uint32]bool)) },
	DescribeOperation: func(in, out interface{}) string {
		i := in.(idIn)
		if i.New {
			return fmt.Sprintf("New() -> %v", out)
		}
		return fmt.Sprintf("Reuse(%d)", i.ID)
	},
}

func concurrent(seed int64, n int, res *result) {
	for h := 0; h < n; h++ {
		var g models.SequentialIDGenerator
		var clock atomic.Int64
		var mu sync.Mutex
		var ops []porcupine.Operation
		workers := 2 + h%4
		per := 4 + h%5
		var wg sync.WaitGroup
		var active, overlapped atomic.Int64
		start := make(chan struct{})
		for w := 0; w < workers; w++ {
			wg.Add(1)
			go func(w int) {
				defer wg.Done()
				<-start
				r := rand.New(rand.NewSource(seed*7919 + int64(h)*131 + int64(w)))
				var mine []uint32
				for k := 0; k < per; k++ {
					if len(mine) > 0 && r.Intn(3) == 0 {
						i := r.Intn(len(mine))
						id := mine[i]
						mine = append(mine[:i], mine[i+1:]...)
						call := clock.Add(1)
						g.Reuse(id)
						ret := clock.Add(1)
						mu.Lock()
						ops = append(ops, porcupine.Operation{ClientId: w, Input: idIn{ID: id}, Call: call, Output: uint32(0), Return: ret})
						mu.Unlock()
						continue
					}
					if active.Add(1) > 1 {
						overlapped.Add(1)
					}
					call := clock.Add(1)
					id := g.New()
					ret := clock.Add(1)
					active.Add(-1)
					mine = append(mine, id)
					mu.Lock()
					ops = append(ops, porcupine.Operation{ClientId: w, Input: idIn{New: true}, Call: call, Output: id, Return: ret})
					mu.Unlock()
				}
			}(w)
		}
		close(start)
		wg.Wait()
		res.Histories++
		res.HistoryOps += len(ops)
		if overlapped.Load() > 0 {
			res.Overlapping++
		}
		switch r, _ := porcupine.CheckOperationsVerbose(idModel, ops, 20*time.Second); r {
		case porcupine.Illegal:
			var d []string
			for _, o := range ops {
				d = append(d, fmt.Sprintf("[%d..%d] c%d %s", o.Call, o.Return, o.ClientId, idModel.DescribeOperation(o.Input, o.Output)))
			}
			res.Violations = append(res.Violations, "concurrent New/Reuse history is not linearizable against the free-set model: "+strings.Join(d, "; "))
			return
		case porcupine.Unknown:
			res.Unknown++
		}
	}
}

func main() {
	maxLen := flag.Int("len", 8, "")
	reps := flag.Int("reps", 3, "")
	hist := flag.Int("hist", 300, "")
	seed := flag.Int64("seed", 1, "")
	flag.Parse()
	res := &result{MaxLen: *maxLen}
	enumerate(nil, 0, *maxLen, *reps, res)
	concurrent(*seed, *hist, res)
	json.NewEncoder(os.Stdout).Encode(res)
}
