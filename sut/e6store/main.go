//go:build verif

// e6store drives the real models.EntityComponentStore (obtained through the
// exported API of a Session) from several goroutines in a child process and
// checks the recorded histories for linearizability with porcupine, key by
// key (a map is linearizable iff every key's sub-history is), against a
// one-register-per-key model; type registration is checked for idempotence
// and mutual resolution of names and ids.
package main

import (
	"encoding/json"
	"flag"
	"fmt"
	"math/rand"
	"os"
	"strings"
	"sync"
	"sync/atomic"
	"time"

	"github.com/anishathalye/porcupine"
	"github.com/aukilabs/hagall-common/messages/hagallpb"
	"github.com/aukilabs/hagall/models"
)

type result struct {
	Histories   int      `json:"histories"`
	Operations  int      `json:"operations"`
	KeyOps      int      `json:"per_key_operations_checked"`
	Overlapping int      `json:"histories_with_overlapping_operations"`
	Unknown     int      `json:"checker_timeouts"`
	TypeChecks  int      `json:"type_registration_checks"`
	MassNames   int      `json:"mass_registration_names"`
	Violations  []string `json:"violations"`
	Sample      []string `json:"sample_history"`
}

type in struct {
	Op   string // add | upd | del | read | wipe
	Key  [2]uint32
	Data string
}
type out struct {
	OK      bool
	Present bool
	Data    string
}

var model = porcupine.Model{
	Partition: func(h []porcupine.Operation) [][]porcupine.Operation {
		m := map[[2]uint32][]porcupine.Operation{}
		var keys [][2]uint32
		for _, o := range h {
			k := o.Input.(in).Key
			if _, ok := m[k]; !ok {
				keys = append(keys, k)
			}
			m[k] = append(m[k], o)
		}
		res := make([][]porcupine.Operation, 0, len(keys))
		for _, k := range keys {
			res = append(res, m[k])
		}
		return res
	},
	Init: func() interface{} { return "" }, // "" = absent; data strings are never empty
	Step: func(st, i, o interface{}) (bool, interface{}) {
		cur := st.(string)
		x, y := i.(in), o.(out)
		switch x.Op {
		case "add":
			if cur == "" {
				return y.OK, x.Data
			}
			return !y.OK, cur
		case "upd":
			if cur != "" {
				return y.OK, x.Data
			}
			return !y.OK, cur
		case "del":
			return y.Present == (cur != ""), ""
		case "wipe":
			return true, ""
		case "read":
			if cur == "" {
				return !y.Present, cur
			}
			return y.Present && y.Data == cur, cur
		}
		return false, st
	},
	DescribeOperation: func(i, o interface{}) string {
		x, y := i.(in), o.(out)
		return fmt.Sprintf("%s(%v %q) -> ok=%v present=%v data=%q", x.Op, x.Key, x.Data, y.OK, y.Present, y.Data)
	},
}

func main() {
	seed := flag.Int64("seed", 1, "")
	n := flag.Int("n", 200, "histories")
	mass := flag.Int("mass", 0, "distinct type names registered in one store")
	flag.Parse()
	res := &result{}
	massRegistration(res, *seed, *mass)
	for h := 0; h < *n; h++ {
		s := models.NewSession(uint32(h+1), time.Hour)
		st := s.GetEntityComponents()
		t1, t2 := st.AddType("A"), st.AddType("B")
		types := []uint32{t1, t2}
		ents := []uint32{1, 2, 3}
		var clock atomic.Int64
		var mu sync.Mutex
		var ops []porcupine.Operation
		var active, overlapped atomic.Int64
		workers := 2 + h%4
		per := 5 + h%6
		var wg sync.WaitGroup
		start := make(chan struct{})
		rec := func(w int, i in, call int64, o out, ret int64) {
			mu.Lock()
			ops = append(ops, porcupine.Operation{ClientId: w, Input: i, Call: call, Output: o, Return: ret})
			mu.Unlock()
		}
		for w := 0; w < workers; w++ {
			wg.Add(1)
			go func(w int) {
				defer wg.Done()
				r := rand.New(rand.NewSource(*seed*104729 + int64(h)*31 + int64(w)))
				<-start
				for k := 0; k < per; k++ {
					key := [2]uint32{types[r.Intn(2)], ents[r.Intn(3)]}
					data := fmt.Sprintf("w%d-%d", w, k)
					if active.Add(1) > 1 {
						overlapped.Add(1)
					}
					call := clock.Add(1)
					switch r.Intn(6) {
					case 0, 1:
						err := st.Add(&hagallpb.EntityComponent{EntityComponentTypeId: key[0], EntityId: key[1], Data: []byte(data)})
						rec(w, in{"add", key, data}, call, out{OK: err == nil}, clock.Add(1))
					case 2:
						err := st.Update(&hagallpb.EntityComponent{EntityComponentTypeId: key[0], EntityId: key[1], Data: []byte(data)})
						rec(w, in{"upd", key, data}, call, out{OK: err == nil}, clock.Add(1))
					case 3:
						p := st.Delete(key[0], key[1])
						rec(w, in{"del", key, ""}, call, out{Present: p}, clock.Add(1))
					case 4:
						l := st.List(key[0])
						ret := clock.Add(1)
						seen := map[uint32]string{}
						for _, c := range l {
							seen[c.EntityId] = string(c.Data)
						}
						for _, e := range ents {
							d, ok := seen[e]
							rec(w, in{"read", [2]uint32{key[0], e}, ""}, call, out{Present: ok, Data: d}, ret)
						}
					default:
						st.DeleteByEntityID(key[1])
						ret := clock.Add(1)
						for _, t := range types {
							rec(w, in{"wipe", [2]uint32{t, key[1]}, ""}, call, out{}, ret)
						}
					}
					active.Add(-1)
				}
			}(w)
		}
		close(start)
		wg.Wait()
		res.Histories++
		res.Operations += workers * per
		res.KeyOps += len(ops)
		if overlapped.Load() > 0 {
			res.Overlapping++
		}
		switch r, _ := porcupine.CheckOperationsVerbose(model, ops, 30*time.Second); r {
		case porcupine.Illegal:
			var d []string
			for _, o := range ops {
				d = append(d, fmt.Sprintf("[%d..%d] g%d %s", o.Call, o.Return, o.ClientId, model.DescribeOperation(o.Input, o.Output)))
			}
			res.Violations = append(res.Violations, "component store history is not linearizable against a map keyed by (type, entity): "+strings.Join(d, "; "))
		case porcupine.Unknown:
			res.Unknown++
		}
		if h == 0 {
			for _, o := range ops {
				if len(res.Sample) < 12 {
					res.Sample = append(res.Sample, model.DescribeOperation(o.Input, o.Output))
				}
			}
		}
		// type registration: concurrent, same and different names
		var tw sync.WaitGroup
		ids := make([]map[string]uint32, 6)
		for g := range ids {
			ids[g] = map[string]uint32{}
			tw.Add(1)
			go func(g int) {
				defer tw.Done()
				for k := 0; k < 8; k++ {
					name := fmt.Sprintf("N%d", (g+k)%5)
					ids[g][name] = st.AddType(name)
				}
			}(g)
		}
		tw.Wait()
		byName := map[string]uint32{}
		owner := map[uint32]string{t1: "A", t2: "B"}
		for _, m := range ids {
			for name, id := range m {
				res.TypeChecks++
				if prev, ok := byName[name]; ok && prev != id {
					res.Violations = append(res.Violations, fmt.Sprintf("type name %q was registered as %d and as %d", name, prev, id))
				}
				byName[name] = id
				if o, ok := owner[id]; ok && o != name {
					res.Violations = append(res.Violations, fmt.Sprintf("type id %d was given to %q and to %q", id, o, name))
				}
				owner[id] = name
				if got, err := st.GetTypeName(id); err != nil || got != name {
					res.Violations = append(res.Violations, fmt.Sprintf("GetTypeName(%d) = %q, %v; registered as %q", id, got, err, name))
				}
				if got, err := st.GetTypeID(name); err != nil || got != id {
					res.Violations = append(res.Violations, fmt.Sprintf("GetTypeID(%q) = %d, %v; registered as %d", name, got, err, id))
				}
			}
		}
		// the same, not yet known name from many goroutines at once (released
		// together): everybody must get the same id
		for round := 0; round < 60 && len(res.Violations) < 5; round++ {
			name := fmt.Sprintf("fresh-%d-%d", h, round)
			const g = 8
			got := make([]uint32, g)
			var rw sync.WaitGroup
			gate := make(chan struct{})
			for i := 0; i < g; i++ {
				rw.Add(1)
				go func(i int) {
					defer rw.Done()
					<-gate
					got[i] = st.AddType(name)
				}(i)
			}
			close(gate)
			rw.Wait()
			res.TypeChecks++
			for i := 1; i < g; i++ {
				if got[i] != got[0] {
					res.Violations = append(res.Violations, fmt.Sprintf("type name %q registered concurrently by %d goroutines was given different ids: %v", name, g, got))
					break
				}
			}
			if n, err := st.GetTypeName(got[0]); err != nil || n != name {
				res.Violations = append(res.Violations, fmt.Sprintf("GetTypeName(%d) = %q, %v; registered as %q", got[0], n, err, name))
			}
		}
		if len(res.Violations) > 5 {
			break
		}
	}
	json.NewEncoder(os.Stdout).Encode(res)
}

// massRegistration: names and ids map one-to-one whatever the names are. Very
// many distinct names of several shapes are registered in one store (enough
// for any 32-bit digest of the name to collide: n^2 / 2^33 expected pairs);
// every name must get an id of its own, resolve to it and be resolved from it,
// and names never registered must not resolve.
func massRegistration(res *result, seed int64, n int) {
	if n == 0 {
		return
	}
	r := rand.New(rand.NewSource(seed*7919 + 13))
	syl := []string{"co", "star", "ring", "li", "quid", "de", "cli", "nate", "mac", "al", "lums", "tar", "age", "zin", "ke", "pose", "mesh", "an", "chor", "light", "phys", "ics", "ro", "ta", "tion", "scale", "tag", "id", "net", "sync"}
	shape := func(i int) string {
		switch i % 5 {
		case 0:
			k := 2 + r.Intn(4)
			var b strings.Builder
			for j := 0; j < k; j++ {
				b.WriteString(syl[r.Intn(len(syl))])
			}
			return b.String()
		case 1:
			return fmt.Sprintf("type-%d", r.Int63())
		case 2:
			b := make([]byte, 1+r.Intn(12))
			for j := range b {
				b[j] = byte('a' + r.Intn(26))
			}
			return string(b)
		case 3:
			return fmt.Sprintf("com.example.%s.%s/%d", syl[r.Intn(len(syl))], syl[r.Intn(len(syl))], r.Intn(1<<20))
		default:
			b := make([]rune, 1+r.Intn(6))
			for j := range b {
				b[j] = rune(0x3b1 + r.Intn(600))
			}
			return string(b)
		}
	}
	s := models.NewSession(1, time.Hour)
	st := s.GetEntityComponents()
	idOf := map[string]uint32{}
	nameOf := map[uint32]string{}
	bad := func(format string, a ...any) {
		if len(res.Violations) < 6 {
			res.Violations = append(res.Violations, fmt.Sprintf(format, a...))
		}
	}
	for i := 0; len(idOf) < n && i < 4*n; i++ {
		name := shape(i)
		if _, ok := idOf[name]; ok {
			continue
		}
		id := st.AddType(name)
		if prev, ok := nameOf[id]; ok {
			bad("type id %d was given to %q and to %q (after %d distinct names)", id, prev, name, len(idOf))
			continue
		}
		idOf[name], nameOf[id] = id, name
	}
	res.MassNames = len(idOf)
	k := 0
	for name, id := range idOf {
		if got, err := st.GetTypeID(name); err != nil || got != id {
			bad("GetTypeID(%q) = %d, %v; registered as %d", name, got, err, id)
		}
		if got, err := st.GetTypeName(id); err != nil || got != name {
			bad("GetTypeName(%d) = %q, %v; registered as %q", id, got, err, name)
		}
		// registering it again changes nothing
		if k%16 == 0 {
			if again := st.AddType(name); again != id {
				bad("type name %q was registered as %d and as %d", name, id, again)
			}
		}
		k++
	}
	for i := 0; i < n/2; i++ {
		name := "never-" + shape(i)
		if _, ok := idOf[name]; ok {
			continue
		}
		if got, err := st.GetTypeID(name); err == nil {
			bad("GetTypeID(%q) = %d although that type name was never registered (id %d belongs to %q)", name, got, got, nameOf[got])
		}
	}
	res.TypeChecks += 3 * len(idOf)
}
