//go:build verif

// e6grid drives the real dagaz.RegularGrid and geometric primitives in a
// child process (a panic or runaway allocation must not take the monitors
// down): seeded insertion sequences with the index invariants of C20
// evaluated after every insertion, and the primitives against exact
// (math/big) references. Results are printed as one JSON document.
package main

import (
	"encoding/json"
	"flag"
	"fmt"
	"math"
	"math/big"
	"math/rand"
	"os"

	"github.com/aukilabs/hagall-common/messages/dagazpb"
	"github.com/aukilabs/hagall/modules/dagaz"
)

type violation struct {
	Clause  string `json:"clause"`
	Detail  string `json:"detail"`
	Seq     int64  `json:"seq"`
	Inserts []q6   `json:"inserts"`
}

type q6 [5]float32 // cx, cy, cz, ex, ez

type result struct {
	Sequences      int            `json:"sequences"`
	Insertions     int            `json:"insertions"`
	Merges         int            `json:"merges"`
	Appends        int            `json:"appends"`
	GridGrowths    int            `json:"grid_growths"`
	GrowthDirs     map[string]int `json:"growth_directions"`
	InvariantEvals int            `json:"invariant_evaluations"`
	NonTrivial     int            `json:"nontrivial_sequences"`
	MaxPlanes      int            `json:"max_planes"`
	MaxCells       int            `json:"max_cells"`
	PrimitiveCases int            `json:"primitive_cases"`
	Violations     []violation    `json:"violations"`
	Samples        [][]q6         `json:"samples"`
}

func xyz(v dagaz.Vector3f) (float64, float64, float64) {
	p := v.ToProtobuf()
	return float64(p.X), float64(p.Y), float64(p.Z)
}

func mkQuad(q q6) dagaz.Quad {
	return dagaz.NewQuadFromProtobuf(&dagazpb.Quad{Center: &dagazpb.Point{X: q[0], Y: q[1], Z: q[2]}, Extents: &dagazpb.Point{X: q[3], Y: 0, Z: q[4]}})
}

const margin = 1e-3

// checkGrid evaluates the C20 index invariants.
func checkGrid(g *dagaz.RegularGrid) (clause, detail string) {
	rows := len(g.Grid)
	if rows == 0 {
		return "grid/no-rows", "grid has no rows"
	}
	cols := len(g.Grid[0])
	for i, r := range g.Grid {
		if len(r) != cols {
			return "grid/ragged-rows", fmt.Sprintf("row %d has %d cells, row 0 has %d", i, len(r), cols)
		}
	}
	minx, _, minz := xyz(g.Min)
	maxx, _, maxz := xyz(g.Max)
	res := float64(g.Resolution)
	if math.Abs((maxx-minx)/res-float64(cols)) > 1e-6 || math.Abs((maxz-minz)/res-float64(rows)) > 1e-6 {
		return "grid/bounds-vs-cell-count", fmt.Sprintf("bounds x[%v,%v] z[%v,%v] resolution %v but %d cols x %d rows", minx, maxx, minz, maxz, res, cols, rows)
	}
	planes := map[*dagaz.Quad]bool{}
	for i := range g.Grid {
		for j := range g.Grid[i] {
			seen := map[*dagaz.Quad]bool{}
			for _, q := range g.Grid[i][j] {
				// (a plane listed twice in one cell is not a violation of C20:
				// region queries de-duplicate; it is counted in the evidence only)
				seen[q] = true
				planes[q] = true
			}
		}
	}
	if int(g.PlaneCount) != len(planes) {
		return "grid/plane-count", fmt.Sprintf("PlaneCount=%d but %d distinct planes are stored", g.PlaneCount, len(planes))
	}
	for q := range planes {
		cx, cy, cz := xyz(q.Center)
		ex, _, ez := xyz(q.Extents)
		x0, x1, z0, z1 := cx-ex, cx+ex, cz-ez, cz+ez
		if x0 < minx-margin || x1 > maxx+margin || z0 < minz-margin || z1 > maxz+margin {
			return "grid/footprint-outside-bounds", fmt.Sprintf("plane c=(%v,%v,%v) e=(%v,%v) lies outside the grid bounds x[%v,%v] z[%v,%v]", cx, cy, cz, ex, ez, minx, maxx, minz, maxz)
		}
		for i := 0; i < rows; i++ {
			cz0, cz1 := minz+float64(i)*res, minz+float64(i+1)*res
			if math.Min(z1, cz1)-math.Max(z0, cz0) <= margin {
				continue
			}
			for j := 0; j < cols; j++ {
				cx0, cx1 := minx+float64(j)*res, minx+float64(j+1)*res
				if math.Min(x1, cx1)-math.Max(x0, cx0) <= margin {
					continue
				}
				found := false
				for _, p := range g.Grid[i][j] {
					if p == q {
						found = true
					}
				}
				if !found {
					return "grid/plane-missing-from-overlapped-cell", fmt.Sprintf("plane c=(%v,%v,%v) e=(%v,%v) merges=%d overlaps cell row %d col %d (x[%v,%v] z[%v,%v]) but is not registered in it", cx, cy, cz, ex, ez, q.MergeCount, i, j, cx0, cx1, cz0, cz1)
				}
			}
		}
		// a vertical ray through the centre hits a plane
		up := dagaz.Ray{From: dagaz.NewVector3f(float32(cx), float32(cy)+1, float32(cz)), To: dagaz.NewVector3f(float32(cx), float32(cy)-1, float32(cz))}
		if ex > margin && ez > margin {
			if hit, _ := g.IntersectQuad(up); hit == nil {
				return "grid/vertical-ray-misses", fmt.Sprintf("a vertical ray through the centre (%v,%v,%v) of a stored plane (e=(%v,%v)) hits nothing", cx, cy, cz, ex, ez)
			}
		}
	}
	// a region query covering the grid returns every stored plane exactly once
	reg := g.GetRegion(dagaz.NewVector3f(float32(minx)-1, 0, float32(minz)-1), dagaz.NewVector3f(float32(maxx)+1, 0, float32(maxz)+1))
	seen := map[*dagaz.Quad]int{}
	for _, q := range reg {
		seen[q]++
	}
	for q := range planes {
		if seen[q] != 1 {
			cx, cy, cz := xyz(q.Center)
			return "grid/region-query-incomplete", fmt.Sprintf("a region query covering the grid returned the stored plane at (%v,%v,%v) %d times", cx, cy, cz, seen[q])
		}
	}
	if len(reg) != len(planes) {
		return "grid/region-query-extra", fmt.Sprintf("a region query covering the grid returned %d planes, %d are stored", len(reg), len(planes))
	}
	return "", ""
}

func genSequence(r *rand.Rand) []q6 {
	n := 1 + r.Intn(60)
	out := make([]q6, 0, n)
	heights := []float32{0, 0.2, 0.5, 1.5, 3}
	// a drifting cursor makes overlaps (merges, cascades) and growth in all directions likely
	cx, cz := float32(r.Intn(20)-10), float32(r.Intn(20)-10)
	for i := 0; i < n; i++ {
		switch r.Intn(6) {
		case 0:
			cx, cz = float32(r.Float64()*128-64), float32(r.Float64()*128-64)
		default:
			cx += float32(r.Float64()*6 - 3)
			cz += float32(r.Float64()*6 - 3)
		}
		if cx > 60 {
			cx = 60
		}
		if cx < -60 {
			cx = -60
		}
		if cz > 60 {
			cz = 60
		}
		if cz < -60 {
			cz = -60
		}
		ex := float32(0.05 + r.Float64()*3.95)
		ez := float32(0.05 + r.Float64()*3.95)
		out = append(out, q6{cx, heights[r.Intn(len(heights))] + float32(r.Float64()*0.1), cz, ex, ez})
	}
	return out
}

// ---- exact references for the primitives

func ratf(f float32) *big.Rat { return new(big.Rat).SetFloat64(float64(f)) }

func dotRef(a, b [3]float32) (val float64, scale float64) {
	s := new(big.Rat)
	for i := 0; i < 3; i++ {
		s.Add(s, new(big.Rat).Mul(ratf(a[i]), ratf(b[i])))
		scale += math.Abs(float64(a[i]) * float64(b[i]))
	}
	val, _ = s.Float64()
	return
}

func v3(a [3]float32) dagaz.Vector3f { return dagaz.NewVector3f(a[0], a[1], a[2]) }

func primitives(r *rand.Rand, n int, res *result) {
	rnd := func() float32 {
		switch r.Intn(8) {
		case 0:
			return 0
		case 1:
			return float32(r.Intn(129) - 64)
		default:
			return float32(r.Float64()*128 - 64)
		}
	}
	const relTol = 1e-5
	for i := 0; i < n; i++ {
		a := [3]float32{rnd(), rnd(), rnd()}
		b := [3]float32{rnd(), rnd(), rnd()}
		va, vb := v3(a), v3(b)
		res.PrimitiveCases++
		// dot
		want, scale := dotRef(a, b)
		if got := float64(va.Dot(vb)); math.Abs(got-want) > relTol*scale+1e-30 {
			res.Violations = append(res.Violations, violation{Clause: "primitive/dot", Detail: fmt.Sprintf("Dot(%v,%v)=%v, exact %v", a, b, got, want)})
		}
		// cross: each component is a difference of two products
		cx, cy, cz := xyz(dagaz.Cross(va, vb))
		comp := func(p, q, s, t float32) (float64, float64) {
			x := new(big.Rat).Sub(new(big.Rat).Mul(ratf(p), ratf(q)), new(big.Rat).Mul(ratf(s), ratf(t)))
			f, _ := x.Float64()
			return f, math.Abs(float64(p)*float64(q)) + math.Abs(float64(s)*float64(t))
		}
		for k, c := range [][5]float64{} {
			_ = k
			_ = c
		}
		w0, s0 := comp(a[1], b[2], a[2], b[1])
		w1, s1 := comp(a[2], b[0], a[0], b[2])
		w2, s2 := comp(a[0], b[1], a[1], b[0])
		if math.Abs(cx-w0) > relTol*s0+1e-30 || math.Abs(cy-w1) > relTol*s1+1e-30 || math.Abs(cz-w2) > relTol*s2+1e-30 {
			res.Violations = append(res.Violations, violation{Clause: "primitive/cross", Detail: fmt.Sprintf("Cross(%v,%v)=(%v,%v,%v), exact (%v,%v,%v)", a, b, cx, cy, cz, w0, w1, w2)})
		}
		// normal of a horizontal quad with positive extents is +y
		ex, ez := float32(0.05+r.Float64()*4), float32(0.05+r.Float64()*4)
		q := dagaz.NewQuadFromProtobuf(&dagazpb.Quad{Center: &dagazpb.Point{X: a[0], Y: a[1], Z: a[2]}, Extents: &dagazpb.Point{X: ex, Y: 0, Z: ez}})
		nx, ny, nz := xyz(q.Normal)
		if math.Abs(nx) > 1e-6 || math.Abs(nz) > 1e-6 || math.Abs(ny-1) > 1e-5 {
			res.Violations = append(res.Violations, violation{Clause: "primitive/normal", Detail: fmt.Sprintf("normal of a horizontal quad e=(%v,0,%v) is (%v,%v,%v), want (0,1,0)", ex, ez, nx, ny, nz)})
		}
		// ray-quad intersection against an exact reference (horizontal quad, ray with a vertical component)
		from := [3]float32{a[0] + float32(r.Float64()*2-1)*ex*1.5, a[1] + float32(0.5+r.Float64()*3), a[2] + float32(r.Float64()*2-1)*ez*1.5}
		to := [3]float32{from[0] + float32(r.Float64()*2-1), a[1] - float32(0.5+r.Float64()*3), from[2] + float32(r.Float64()*2-1)}
		hit, t := dagaz.IntersectQuad(dagaz.Ray{From: v3(from), To: v3(to)}, q)
		// exact: t = (cy - fy)/(ty - fy); point = from + t*(to-from)
		dy := float64(to[1]) - float64(from[1])
		tt := (float64(a[1]) - float64(from[1])) / dy
		px := float64(from[0]) + tt*(float64(to[0])-float64(from[0]))
		pz := float64(from[2]) + tt*(float64(to[2])-float64(from[2]))
		inX := math.Abs(px-float64(a[0])) - float64(ex)
		inZ := math.Abs(pz-float64(a[2])) - float64(ez)
		const band = 1e-3 // cases closer than this to the edge are not judged
		clearlyIn := inX < -band && inZ < -band && tt > band && tt < 1-band
		clearlyOut := inX > band || inZ > band || tt < -band || tt > 1+band
		if clearlyIn && (!hit || math.Abs(float64(t)-tt) > 1e-4) {
			res.Violations = append(res.Violations, violation{Clause: "primitive/ray-quad", Detail: fmt.Sprintf("ray %v->%v clearly hits quad c=%v e=(%v,%v) at t=%v but IntersectQuad says hit=%v t=%v", from, to, a, ex, ez, tt, hit, t)})
		}
		if clearlyOut && hit {
			res.Violations = append(res.Violations, violation{Clause: "primitive/ray-quad", Detail: fmt.Sprintf("ray %v->%v clearly misses quad c=%v e=(%v,%v) (t=%v, dx=%v dz=%v) but IntersectQuad says hit t=%v", from, to, a, ex, ez, tt, inX, inZ, t)})
		}
	}
}

func main() {
	seed := flag.Int64("seed", 1, "")
	n := flag.Int("n", 200, "sequences")
	prim := flag.Int("prim", 2000, "primitive cases")
	flag.Parse()
	res := &result{GrowthDirs: map[string]int{}}
	for s := 0; s < *n; s++ {
		sseed := *seed*1_000_003 + int64(s)
		r := rand.New(rand.NewSource(sseed))
		seq := genSequence(r)
		g := dagaz.NewRegularGrid(1, 1, 2)
		merges, growths := 0, 0
		bad := false
		for k, q := range seq {
			// progress marker for the parent: which input is in flight
			fmt.Fprintf(os.Stderr, "seq %d insert %d %v\n", sseed, k, q)
			pminx, _, pminz := xyz(g.Min)
			pmaxx, _, pmaxz := xyz(g.Max)
			before := g.MergeCount
			g.InsertQuad(mkQuad(q))
			res.Insertions++
			if g.MergeCount > before {
				merges++
				res.Merges++
			} else {
				res.Appends++
			}
			minx, _, minz := xyz(g.Min)
			maxx, _, maxz := xyz(g.Max)
			grew := false
			if minx < pminx {
				res.GrowthDirs["-x"]++
				grew = true
			}
			if maxx > pmaxx {
				res.GrowthDirs["+x"]++
				grew = true
			}
			if minz < pminz {
				res.GrowthDirs["-z"]++
				grew = true
			}
			if maxz > pmaxz {
				res.GrowthDirs["+z"]++
				grew = true
			}
			if grew {
				growths++
				res.GridGrowths++
			}
			res.InvariantEvals++
			if clause, detail := checkGrid(g); clause != "" {
				res.Violations = append(res.Violations, violation{Clause: clause, Detail: fmt.Sprintf("after insertion %d of %d: %s", k+1, len(seq), detail), Seq: sseed, Inserts: seq[:k+1]})
				bad = true
				break
			}
		}
		res.Sequences++
		if !bad && merges >= 1 && growths >= 1 {
			res.NonTrivial++
			if len(res.Samples) < 2 && len(seq) <= 12 {
				res.Samples = append(res.Samples, seq)
			}
		}
		if int(g.PlaneCount) > res.MaxPlanes {
			res.MaxPlanes = int(g.PlaneCount)
		}
		if c := len(g.Grid) * len(g.Grid[0]); c > res.MaxCells {
			res.MaxCells = c
		}
		if len(res.Violations) > 20 {
			break
		}
	}
	primitives(rand.New(rand.NewSource(*seed*77+5)), *prim, res)
	json.NewEncoder(os.Stdout).Encode(res)
}
