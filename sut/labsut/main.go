//go:build verif

// labsut is a harness-owned main that wires exactly the packages cmd/main.go
// wires (RealtimeHandler + HandlerWithLogs + HandlerWithMetrics, one shared
// SessionStore, the receipt handler), but lets the *client* choose per
// connection (URL query) the module subset and the DISABLE_* flags, and adds
// admin endpoints the monitors need. It is compiled with the same overlay as
// the real binary, always as a child process.
package main

import (
	"context"
	"encoding/json"
	"flag"
	"fmt"
	"net"
	"net/http"
	"net/http/pprof"
	"os"
	"runtime"
	"strconv"
	"strings"
	"sync"
	"sync/atomic"
	"time"

	"github.com/aukilabs/go-tooling/pkg/logs"
	hds "github.com/aukilabs/hagall-common/hdsclient"
	httpcmn "github.com/aukilabs/hagall-common/http"
	"github.com/aukilabs/hagall-common/ncsclient"
	"github.com/aukilabs/hagall/featureflag"
	hagallhttp "github.com/aukilabs/hagall/http"
	"github.com/aukilabs/hagall/models"
	"github.com/aukilabs/hagall/modules"
	"github.com/aukilabs/hagall/modules/dagaz"
	"github.com/aukilabs/hagall/modules/odal"
	"github.com/aukilabs/hagall/modules/vikja"
	"github.com/aukilabs/hagall/receipt"
	"github.com/aukilabs/hagall/verifrt"
	hwebsocket "github.com/aukilabs/hagall/websocket"
	"github.com/ethereum/go-ethereum/crypto"
	"github.com/prometheus/client_golang/prometheus/promhttp"
	"golang.org/x/net/websocket"
)

type connCount struct{ Entered, Returned int }

var (
	connMu sync.Mutex
	conns  = map[string]*connCount{}
	live   int

	tickMu sync.Mutex
	ticks  = map[*models.Session]*atomic.Int64{}

	innerEntered atomic.Int64 // how often the protected handlers were entered (C15)
)

func main() {
	addr := flag.String("addr", "127.0.0.1:0", "")
	admin := flag.String("admin", "127.0.0.1:0", "")
	frame := flag.Duration("frame", 5*time.Millisecond, "")
	idle := flag.Duration("idle", time.Minute, "")
	syncClock := flag.Duration("sync", time.Hour, "")
	logsum := flag.Duration("logsum", time.Hour, "")
	ncs := flag.String("ncs", "http://127.0.0.1:9", "")
	key := flag.String("key", "", "hex private key")
	level := flag.String("loglevel", "warning", "")
	auth := flag.Bool("auth", false, "mount the relay and /smoke-test behind the real auth middleware")
	flag.Parse()

	logs.SetLevel(logs.ParseLevel(*level))
	ctx := context.Background()

	privateKey, err := crypto.HexToECDSA(strings.TrimPrefix(*key, "0x"))
	if err != nil {
		fmt.Fprintln(os.Stderr, "bad key:", err)
		os.Exit(3)
	}

	hdsClient := hds.NewClient(hds.WithHagallEndpoint("http://labsut"))
	sessions := models.SessionStore{DiscoveryService: labDiscovery{}}

	receiptChan := make(chan ncsclient.ReceiptPayload, 128)
	receiptHandler := receipt.ReceiptHandler{NCSEndpoint: *ncs, ReceiptChan: receiptChan}
	receiptHandler.HandleReceipts(ctx)

	handshake := func(c *websocket.Config, r *http.Request) error { return nil }
	if *auth {
		handshake = hagallhttp.VerifyAuthToken(ctx, hdsClient)
	}

	var service http.ServeMux
	service.Handle("/", websocket.Server{
		Handshake: handshake,
		Handler: func(conn *websocket.Conn) {
			defer conn.Close()
			innerEntered.Add(1)
			req := conn.Request()
			q := req.URL.Query()
			cid := req.Header.Get(httpcmn.HeaderPosemeshClientID)

			var mods []modules.Module
			ms := "vod"
			if _, ok := q["mods"]; ok {
				ms = q.Get("mods")
			}
			for _, c := range ms {
				switch c {
				case 'v':
					mods = append(mods, &vikja.Module{})
				case 'o':
					mods = append(mods, &odal.Module{})
				case 'd':
					mods = append(mods, &dagaz.Module{})
				}
			}
			var flags []string
			if f := q.Get("flags"); f != "" {
				flags = strings.Split(f, ",")
			}

			var h hwebsocket.Handler = &hwebsocket.RealtimeHandler{
				ClientSyncClockInterval: *syncClock,
				ClientIdleTimeout:       *idle,
				FrameDuration:           *frame,
				Sessions:                &sessions,
				Modules:                 mods,
				FeatureFlags:            featureflag.New(flags),
				ReceiptChan:             receiptChan,
				PrivateKey:              privateKey,
			}
			if q.Get("deco") != "0" {
				h = hwebsocket.HandlerWithLogs(h, *logsum)
				h = hwebsocket.HandlerWithMetrics(h, "http://labsut")
			}
			defer h.Close()

			connMu.Lock()
			cc := conns[cid]
			if cc == nil {
				cc = &connCount{}
				conns[cid] = cc
			}
			cc.Entered++
			live++
			connMu.Unlock()
			defer func() {
				connMu.Lock()
				cc.Returned++
				live--
				connMu.Unlock()
			}()

			hwebsocket.Handle(ctx, conn, h)
		},
	})
	service.HandleFunc("/smoke-test", hagallhttp.VerifyAuthTokenHandler(hdsClient, func(w http.ResponseWriter, r *http.Request) {
		innerEntered.Add(1)
		w.WriteHeader(http.StatusOK)
	}))

	var adm http.ServeMux
	adm.Handle("/metrics", promhttp.Handler())
	adm.HandleFunc("/debug/pprof/", pprof.Index)
	adm.Handle("/debug/pprof/goroutine", pprof.Handler("goroutine"))
	adm.HandleFunc("/verif/rt", verifrt.Control)
	adm.HandleFunc("/verif/conns", func(w http.ResponseWriter, r *http.Request) {
		connMu.Lock()
		defer connMu.Unlock()
		out := struct {
			Live  int                   `json:"live"`
			By    map[string]*connCount `json:"by,omitempty"`
			Inner int64                 `json:"inner"`
		}{Live: live, Inner: innerEntered.Load()}
		if cid := r.URL.Query().Get("cid"); cid != "" {
			out.By = map[string]*connCount{}
			if cc := conns[cid]; cc != nil {
				c := *cc
				out.By[cid] = &c
			}
		}
		json.NewEncoder(w).Encode(out)
	})
	adm.HandleFunc("/verif/secret", func(w http.ResponseWriter, r *http.Request) {
		q := r.URL.Query()
		hdsClient.SetServerData(q.Get("id"), q.Get("secret"))
		w.Write([]byte("ok"))
	})
	// secret rotation storm: the secret goes A, none, B, none, ... in a tight loop
	// for the given number of milliseconds (what a re-registration does, as fast
	// as the client allows), then ends with no secret
	adm.HandleFunc("/verif/secretflip", func(w http.ResponseWriter, r *http.Request) {
		q := r.URL.Query()
		ms, _ := strconv.Atoi(q.Get("ms"))
		deadline := time.Now().Add(time.Duration(ms) * time.Millisecond)
		seq := []string{q.Get("a"), "", q.Get("b"), ""}
		n := 0
		for time.Now().Before(deadline) {
			hdsClient.SetServerData("srv", seq[n%len(seq)])
			n++
			if n%64 == 0 {
				runtime.Gosched()
			}
		}
		hdsClient.SetServerData("srv", "")
		fmt.Fprint(w, n)
	})
	adm.HandleFunc("/verif/ticks", func(w http.ResponseWriter, r *http.Request) {
		q := r.URL.Query()
		s, ok := sessions.GetByGlobalID(q.Get("sid"))
		if !ok {
			json.NewEncoder(w).Encode(map[string]any{"ok": false, "err": "nosession"})
			return
		}
		tickMu.Lock()
		ctr := ticks[s]
		if ctr == nil {
			ctr = &atomic.Int64{}
			ticks[s] = ctr
			c := ctr
			// a counting frame handler registered through the exported API:
			// a logical frame clock for the monitors.
			s.HandleFrame(func() { c.Add(1) })
		}
		tickMu.Unlock()
		want, _ := strconv.Atoi(q.Get("wait"))
		ms, _ := strconv.Atoi(q.Get("ms"))
		if ms == 0 {
			ms = 5000
		}
		start := ctr.Load()
		deadline := time.Now().Add(time.Duration(ms) * time.Millisecond)
		for ctr.Load() < start+int64(want) && time.Now().Before(deadline) {
			time.Sleep(200 * time.Microsecond)
		}
		json.NewEncoder(w).Encode(map[string]any{"ok": ctr.Load() >= start+int64(want), "count": ctr.Load(), "start": start})
	})

	l1, err := net.Listen("tcp", *addr)
	if err != nil {
		fmt.Fprintln(os.Stderr, err)
		os.Exit(3)
	}
	l2, err := net.Listen("tcp", *admin)
	if err != nil {
		fmt.Fprintln(os.Stderr, err)
		os.Exit(3)
	}
	fmt.Printf("LISTEN addr=%s admin=%s\n", l1.Addr(), l2.Addr())
	os.Stdout.Sync()
	go http.Serve(l2, &adm)
	if err := http.Serve(l1, &service); err != nil {
		fmt.Fprintln(os.Stderr, err)
		os.Exit(3)
	}
}

type labDiscovery struct{}

func (labDiscovery) ServerID() string { return "lab" }
