// Package driver holds the harness's WebSocket clients, the wire-level event
// log and the logical barriers every oracle relies on.
package driver

import (
	"errors"
	"fmt"
	"net"
	"net/url"
	"sync"
	"sync/atomic"
	"time"

	"github.com/aukilabs/hagall-common/messages/dagazpb"
	"github.com/aukilabs/hagall-common/messages/hagallpb"
	"github.com/aukilabs/hagall-common/messages/odalpb"
	"github.com/aukilabs/hagall-common/messages/vikjapb"
	"golang.org/x/net/websocket"
	"google.golang.org/protobuf/proto"
	"google.golang.org/protobuf/types/known/timestamppb"
)

// Message type numbers (one number space shared by core and modules).
const (
	TError           = 0
	TSyncClock       = 1
	TSessionState    = 2
	TJoinReq         = 3
	TJoinResp        = 4
	TJoinBcast       = 5
	TLeaveBcast      = 7
	TEntityAddReq    = 8
	TEntityAddResp   = 9
	TEntityAddBcast  = 10
	TEntityDelReq    = 11
	TEntityDelResp   = 12
	TEntityDelBcast  = 13
	TPoseUpdate      = 14
	TPoseBcast       = 15
	TCustom          = 16
	TCustomBcast     = 17
	TTypeAddReq      = 18
	TTypeAddResp     = 19
	TGetNameReq      = 20
	TGetNameResp     = 21
	TGetIDReq        = 22
	TGetIDResp       = 23
	TCompAddReq      = 24
	TCompAddResp     = 25
	TCompAddBcast    = 26
	TCompDelReq      = 27
	TCompDelResp     = 28
	TCompDelBcast    = 29
	TCompUpdate      = 30
	TCompUpdateBcast = 31
	TCompListReq     = 32
	TCompListResp    = 33
	TSubReq          = 34
	TSubResp         = 35
	TUnsubReq        = 36
	TUnsubResp       = 37
	TPingReq         = 38
	TPingResp        = 39
	TReceiptReq      = 40
	TReceiptResp     = 41
	TSignedLatReq    = 42
	TSignedLatResp   = 43
	TVikjaState      = 100
	TActionReq       = 101
	TActionResp      = 102
	TActionBcast     = 103
	TOdalState       = 200
	TAssetAddReq     = 201
	TAssetAddResp    = 202
	TAssetAddBcast   = 203
	TQuadSample      = 300
	TGroundPlaneReq  = 301
	TGroundPlaneResp = 302
	TRegionReq       = 303
	TRegionResp      = 304
	TDebugInfoReq    = 305
	TDebugInfoResp   = 306
	TClosed          = -1 // pseudo event: the connection ended
	TUndecodable     = -2 // pseudo event: frame the harness could not decode
)

var newByType = map[int32]func() proto.Message{
	TError:           func() proto.Message { return &hagallpb.ErrorResponse{} },
	TSyncClock:       func() proto.Message { return &hagallpb.SyncClock{} },
	TSessionState:    func() proto.Message { return &hagallpb.SessionState{} },
	TJoinResp:        func() proto.Message { return &hagallpb.ParticipantJoinResponse{} },
	TJoinBcast:       func() proto.Message { return &hagallpb.ParticipantJoinBroadcast{} },
	TLeaveBcast:      func() proto.Message { return &hagallpb.ParticipantLeaveBroadcast{} },
	TEntityAddResp:   func() proto.Message { return &hagallpb.EntityAddResponse{} },
	TEntityAddBcast:  func() proto.Message { return &hagallpb.EntityAddBroadcast{} },
	TEntityDelResp:   func() proto.Message { return &hagallpb.EntityDeleteResponse{} },
	TEntityDelBcast:  func() proto.Message { return &hagallpb.EntityDeleteBroadcast{} },
	TPoseBcast:       func() proto.Message { return &hagallpb.EntityUpdatePoseBroadcast{} },
	TCustomBcast:     func() proto.Message { return &hagallpb.CustomMessageBroadcast{} },
	TTypeAddResp:     func() proto.Message { return &hagallpb.EntityComponentTypeAddResponse{} },
	TGetNameResp:     func() proto.Message { return &hagallpb.EntityComponentTypeGetNameResponse{} },
	TGetIDResp:       func() proto.Message { return &hagallpb.EntityComponentTypeGetIdResponse{} },
	TCompAddResp:     func() proto.Message { return &hagallpb.EntityComponentAddResponse{} },
	TCompAddBcast:    func() proto.Message { return &hagallpb.EntityComponentAddBroadcast{} },
	TCompDelResp:     func() proto.Message { return &hagallpb.EntityComponentDeleteResponse{} },
	TCompDelBcast:    func() proto.Message { return &hagallpb.EntityComponentDeleteBroadcast{} },
	TCompUpdateBcast: func() proto.Message { return &hagallpb.EntityComponentUpdateBroadcast{} },
	TCompListResp:    func() proto.Message { return &hagallpb.EntityComponentListResponse{} },
	TSubResp:         func() proto.Message { return &hagallpb.EntityComponentTypeSubscribeResponse{} },
	TUnsubResp:       func() proto.Message { return &hagallpb.EntityComponentTypeUnsubscribeResponse{} },
	TPingReq:         func() proto.Message { return &hagallpb.Response{} },
	TPingResp:        func() proto.Message { return &hagallpb.Response{} },
	TReceiptResp:     func() proto.Message { return &hagallpb.ReceiptResponse{} },
	TSignedLatResp:   func() proto.Message { return &hagallpb.SignedLatencyResponse{} },
	TVikjaState:      func() proto.Message { return &vikjapb.State{} },
	TActionResp:      func() proto.Message { return &vikjapb.EntityActionResponse{} },
	TActionBcast:     func() proto.Message { return &vikjapb.EntityActionBroadcast{} },
	TOdalState:       func() proto.Message { return &odalpb.State{} },
	TAssetAddResp:    func() proto.Message { return &odalpb.AssetInstanceAddResponse{} },
	TAssetAddBcast:   func() proto.Message { return &odalpb.AssetInstanceAddBroadcast{} },
	TGroundPlaneResp: func() proto.Message { return &dagazpb.DagazGetGroundPlaneResponse{} },
	TRegionResp:      func() proto.Message { return &dagazpb.DagazGetRegionResponse{} },
	TDebugInfoResp:   func() proto.Message { return &dagazpb.DagazGetDebugInfoResponse{} },
}

// Event is one frame received by a harness client (or a pseudo event).
type Event struct {
	Seq  uint64
	Conn int
	Type int32
	M    proto.Message
	Raw  []byte
	Info string
}

func (e *Event) String() string {
	if e == nil {
		return "<nil>"
	}
	switch e.Type {
	case TClosed:
		return fmt.Sprintf("#%d c%d CLOSED %s", e.Seq, e.Conn, e.Info)
	case TUndecodable:
		return fmt.Sprintf("#%d c%d UNDECODABLE %x", e.Seq, e.Conn, e.Raw)
	}
	return fmt.Sprintf("#%d c%d %s %s", e.Seq, e.Conn, TypeName(e.Type), compact(e.M))
}

func compact(m proto.Message) string {
	if m == nil {
		return ""
	}
	s := fmt.Sprint(m)
	if len(s) > 300 {
		s = s[:300] + "…"
	}
	return s
}

func TypeName(t int32) string {
	switch {
	case t == TClosed:
		return "CLOSED"
	case t == TUndecodable:
		return "UNDECODABLE"
	case t >= 300:
		return dagazpb.MsgType(t).String()
	case t >= 200:
		return odalpb.MsgType(t).String()
	case t >= 100:
		return vikjapb.MsgType(t).String()
	}
	return hagallpb.MsgType(t).String()
}

var globalSeq atomic.Uint64

// Tags: every request the driver sends is self-identifying through its client
// timestamp, which carries a run-unique counter (seconds = base, nanos = n).
var tagCounter atomic.Int64

const tagBase = 1_600_000_000

// NewTag returns a unique request timestamp.
func NewTag() *timestamppb.Timestamp {
	n := tagCounter.Add(1)
	return &timestamppb.Timestamp{Seconds: tagBase + n/1_000_000_000, Nanos: int32(n % 1_000_000_000)}
}

func TagID(ts *timestamppb.Timestamp) int64 {
	if ts == nil {
		return -1
	}
	return (ts.Seconds-tagBase)*1_000_000_000 + int64(ts.Nanos)
}

var ErrTimeout = errors.New("barrier timeout")
var ErrClosed = errors.New("connection closed")

// Client is one harness connection.
type Client struct {
	ID  int
	CID string // posemesh-client-id
	ws  *websocket.Conn
	nc  net.Conn

	mu       sync.Mutex
	cond     *sync.Cond
	inbox    []*Event
	closed   bool
	nextReq  uint32
	nextPing uint32        // ids of barrier pings: a range disjoint from request ids
	paused   chan struct{} // non-nil while the reader is told to stop reading (a stalling client)
	wmu      sync.Mutex

	Timeout time.Duration
	// All events ever received, in order (the per-connection log).
	Log []*Event
	// Request ids are unique across the connections of a run: this connection
	// issues ids in [reqBase, reqBase+100000) and barrier pings in
	// [pingBase, pingBase+200000). An answer echoing any other id was meant for
	// somebody else (or nobody).
	reqBase, pingBase uint32
	foreign           []*Event
}

// ForeignAnswers returns the events that echoed a request id this connection
// never issued.
func (c *Client) ForeignAnswers() []*Event {
	c.mu.Lock()
	defer c.mu.Unlock()
	return append([]*Event(nil), c.foreign...)
}

var cidCounter atomic.Int64
var RunID = fmt.Sprintf("%d", time.Now().UnixNano()%1_000_000_000)

// Dial connects to a SUT relay endpoint. query is appended to the URL, header
// entries are added to the handshake request.
func Dial(id int, addr string, query url.Values, header map[string]string) (*Client, error) {
	u := "ws://" + addr + "/"
	if len(query) > 0 {
		u += "?" + query.Encode()
	}
	cfg, err := websocket.NewConfig(u, "http://localhost")
	if err != nil {
		return nil, err
	}
	cid := fmt.Sprintf("vc-%s-%d", RunID, cidCounter.Add(1))
	cfg.Header.Set("posemesh-client-id", cid)
	for k, v := range header {
		cfg.Header.Set(k, v)
	}
	nc, err := net.DialTimeout("tcp", addr, 10*time.Second)
	if err != nil {
		return nil, err
	}
	nc.SetDeadline(time.Now().Add(20 * time.Second))
	ws, err := websocket.NewClient(cfg, nc)
	if err != nil {
		nc.Close()
		return nil, err
	}
	nc.SetDeadline(time.Time{})
	ws.PayloadType = websocket.BinaryFrame
	slot := uint32(id%10000+10000) % 10000
	c := &Client{ID: id, CID: cid, ws: ws, nc: nc, Timeout: 20 * time.Second}
	c.reqBase, c.pingBase = 1000+slot*100000, 0x40000000+slot*200000
	c.nextReq = c.reqBase
	if h, ok := header["posemesh-client-id"]; ok {
		c.CID = h
	}
	c.cond = sync.NewCond(&c.mu)
	go c.reader()
	return c, nil
}

// StopReading makes the client stall: its reader goroutine stops taking bytes
// off the socket (after at most one more frame) until ResumeReading.
func (c *Client) StopReading() {
	c.mu.Lock()
	if c.paused == nil {
		c.paused = make(chan struct{})
	}
	c.mu.Unlock()
}

func (c *Client) ResumeReading() {
	c.mu.Lock()
	if c.paused != nil {
		close(c.paused)
		c.paused = nil
	}
	c.mu.Unlock()
}

func (c *Client) reader() {
	for {
		c.mu.Lock()
		p := c.paused
		c.mu.Unlock()
		if p != nil {
			<-p
		}
		var data []byte
		err := websocket.Message.Receive(c.ws, &data)
		if err != nil {
			c.push(&Event{Type: TClosed, Info: err.Error()})
			c.mu.Lock()
			c.closed = true
			c.cond.Broadcast()
			c.mu.Unlock()
			return
		}
		c.push(Decode(data))
	}
}

// Decode turns a frame into an event.
func Decode(data []byte) *Event {
	var head hagallpb.Msg
	ev := &Event{Raw: data}
	if err := proto.Unmarshal(data, &head); err != nil {
		ev.Type = TUndecodable
		return ev
	}
	ev.Type = int32(head.Type)
	mk := newByType[ev.Type]
	if mk == nil {
		ev.Type = TUndecodable
		ev.Info = fmt.Sprintf("unknown type %d", head.Type)
		return ev
	}
	m := mk()
	if err := proto.Unmarshal(data, m); err != nil {
		ev.Type = TUndecodable
		return ev
	}
	ev.M = m
	return ev
}

func (c *Client) push(e *Event) {
	e.Conn = c.ID
	if e.M != nil && e.Type != TPingReq {
		if f := e.M.ProtoReflect().Descriptor().Fields().ByName("request_id"); f != nil {
			if id := uint32(e.M.ProtoReflect().Get(f).Uint()); id != 0 &&
				!(id >= c.reqBase && id < c.reqBase+100000) && !(id >= c.pingBase && id < c.pingBase+200000) {
				c.mu.Lock()
				c.foreign = append(c.foreign, e)
				c.mu.Unlock()
			}
		}
	}
	c.mu.Lock()
	e.Seq = globalSeq.Add(1)
	c.inbox = append(c.inbox, e)
	c.Log = append(c.Log, e)
	c.cond.Broadcast()
	c.mu.Unlock()
}

// SetReadBuffer shrinks the socket's receive buffer (a client that stops
// reading then jams the server's send path after a few kilobytes).
func (c *Client) SetReadBuffer(n int) {
	if t, ok := c.nc.(*net.TCPConn); ok {
		t.SetReadBuffer(n)
	}
}

// LogCopy returns everything the connection has received so far.
func (c *Client) LogCopy() []*Event {
	c.mu.Lock()
	defer c.mu.Unlock()
	return append([]*Event(nil), c.Log...)
}

func (c *Client) NextReqID() uint32 {
	c.mu.Lock()
	defer c.mu.Unlock()
	c.nextReq++
	return c.nextReq
}

func (c *Client) IsClosed() bool {
	c.mu.Lock()
	defer c.mu.Unlock()
	return c.closed
}

// Send marshals and sends one binary frame.
func (c *Client) Send(m proto.Message) error {
	b, err := proto.Marshal(m)
	if err != nil {
		return err
	}
	return c.SendRaw(b)
}

func (c *Client) SendRaw(b []byte) error {
	c.wmu.Lock()
	defer c.wmu.Unlock()
	c.ws.SetWriteDeadline(time.Now().Add(c.Timeout))
	return websocket.Message.Send(c.ws, b)
}

// SendText sends a text frame.
func (c *Client) SendText(s string) error {
	c.wmu.Lock()
	defer c.wmu.Unlock()
	c.ws.SetWriteDeadline(time.Now().Add(c.Timeout))
	return websocket.Message.Send(c.ws, s)
}

// Drain returns everything received so far without waiting.
func (c *Client) Drain() []*Event {
	c.mu.Lock()
	defer c.mu.Unlock()
	out := c.inbox
	c.inbox = nil
	return out
}

// Barrier is the connection barrier B(X): it sends a ping with a fresh id and
// returns every event received before its pong (the pong itself and sync-clock
// messages are removed). If the connection ends first, the events up to and
// including the CLOSED pseudo event are returned with ErrClosed.
func (c *Client) Barrier() ([]*Event, error) {
	c.mu.Lock()
	c.nextPing++
	id := c.pingBase + c.nextPing%200000
	c.mu.Unlock()
	err := c.Send(&hagallpb.Request{Type: hagallpb.MsgType_MSG_TYPE_PING_REQUEST, Timestamp: timestamppb.Now(), RequestId: id})
	if err != nil {
		// the write may fail because the peer is already gone: the reader
		// will deliver CLOSED
		return c.waitFor(func(e *Event) bool { return false })
	}
	return c.waitFor(func(e *Event) bool {
		if e.Type != TPingResp {
			return false
		}
		r, ok := e.M.(*hagallpb.Response)
		return ok && r.RequestId == id
	})
}

// WaitFor waits until an event satisfying stop arrives (it is consumed and not
// returned) and returns the events before it.
func (c *Client) WaitFor(stop func(*Event) bool) ([]*Event, error) { return c.waitFor(stop) }

func (c *Client) waitFor(stop func(*Event) bool) ([]*Event, error) {
	deadline := time.Now().Add(c.Timeout)
	timer := time.AfterFunc(c.Timeout, func() {
		c.mu.Lock()
		c.cond.Broadcast()
		c.mu.Unlock()
	})
	defer timer.Stop()
	var out []*Event
	c.mu.Lock()
	defer c.mu.Unlock()
	scanned := 0
	for {
		for scanned < len(c.inbox) {
			e := c.inbox[scanned]
			scanned++
			if e.Type == TClosed {
				out = append(out, c.inbox[:scanned]...)
				c.inbox = c.inbox[scanned:]
				return filter(out), ErrClosed
			}
			if stop(e) {
				out = append(out, c.inbox[:scanned-1]...)
				c.inbox = c.inbox[scanned:]
				return filter(out), nil
			}
		}
		if c.closed {
			out = append(out, c.inbox...)
			c.inbox = nil
			return filter(out), ErrClosed
		}
		if time.Now().After(deadline) {
			out = append(out, c.inbox...)
			c.inbox = nil
			return filter(out), ErrTimeout
		}
		c.cond.Wait()
	}
}

func filter(evs []*Event) []*Event {
	out := evs[:0:0]
	for _, e := range evs {
		if e.Type == TSyncClock {
			continue
		}
		out = append(out, e)
	}
	return out
}

// WaitClosed waits until the connection has ended, returning what arrived.
func (c *Client) WaitClosed() ([]*Event, error) {
	evs, err := c.waitFor(func(*Event) bool { return false })
	if err == ErrClosed {
		return evs, nil
	}
	return evs, err
}

// Close closes the client side (FIN).
func (c *Client) Close() { c.ws.Close() }

// Abort closes with RST.
func (c *Client) Abort() {
	if tc, ok := c.netConn().(*net.TCPConn); ok {
		tc.SetLinger(0)
	}
	c.ws.Close()
}

// HalfClose shuts down the write side only.
func (c *Client) HalfClose() {
	if tc, ok := c.netConn().(*net.TCPConn); ok {
		tc.CloseWrite()
	}
}

func (c *Client) netConn() net.Conn { return c.nc }

// LocalAddr is the client's side of the TCP connection (the server logs it as
// the remote address).
func (c *Client) LocalAddr() string { return c.nc.LocalAddr().String() }

// WriteBytes writes raw bytes to the TCP connection (for partial or malformed
// WebSocket frames).
func (c *Client) WriteBytes(b []byte) error {
	c.wmu.Lock()
	defer c.wmu.Unlock()
	c.nc.SetWriteDeadline(time.Now().Add(c.Timeout))
	_, err := c.nc.Write(b)
	return err
}
