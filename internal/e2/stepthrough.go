package e2

import (
	"fmt"
	"sort"
	"strings"
	"time"

	"github.com/aukilabs/hagall-common/messages/hagallpb"
	"github.com/aukilabs/hagall-common/messages/odalpb"
	"github.com/aukilabs/hagall-common/messages/vikjapb"

	"verif/internal/check"
	d "verif/internal/driver"
	"verif/internal/model"
	"verif/internal/scen"
	"verif/internal/sut"
)

// Step-through: one "victim" operation (a join by id, a departure, a join that
// switches session, the deletion of an entity with attachments) is parked at
// one of the scheduling points it passes - every point, one run per point and
// pass - while another member of the session performs a fixed script of
// accepted changes; then the victim is released. Each run is a schedule the Go
// scheduler could produce by itself (one preemption of the victim at that
// point); the gates only make it certain. At quiescence:
//
//	C01  the witness's and the victim's folded views equal the state handed to a probe
//	C02  the witness received every accepted change of the script exactly once,
//	     a joining victim at most once; join / departure relays exactly once
//	C06  a departing victim's non-persistent entities are gone, persistent ones kept
//	C07  gauge, registry and frame workers agree with the live sessions
type StepCase struct {
	Victim string
	Site   string
	Skip   int
}

func (c StepCase) String() string {
	return fmt.Sprintf("%s parked at pass %d of %s", c.Victim, c.Skip+1, c.Site)
}

var StepVictims = []string{"join", "leave", "switch", "delete"}

// stepSiteOK: points on the victim's own path; points that every connection
// or the frame worker pass all the time would park somebody else.
func stepSiteOK(s string) bool {
	if strings.Contains(s, "StartDispatchFrames") {
		return false
	}
	for _, p := range []string{"models.", "vikja.", "odal.", "dagaz.", "modules.",
		"websocket.RealtimeHandler.HandleParticipantJoin", "websocket.RealtimeHandler.HandleDisconnect", "websocket.RealtimeHandler.leaveSession",
		"websocket.RealtimeHandler.HandleEntityDelete", "websocket.handler.disconnect", "websocket.handler.handleDisconnect", "websocket.handler.Handle#",
		"websocket.handlerWithLogs.HandleParticipantJoin", "websocket.handlerWithLogs.HandleDisconnect", "websocket.handlerWithMetrics.HandleParticipantJoin", "websocket.handlerWithMetrics.HandleDisconnect"} {
		if strings.HasPrefix(s, p) {
			return true
		}
	}
	return false
}

type stepEnv struct {
	p        *sut.Proc
	m, w, v  *scen.C
	sid      string
	oldSID   string // switch: the session the victim leaves (and thereby ends)
	t        uint32
	e0, eDel uint32
	vNP, vP  uint32 // victim's non-persistent and persistent entity
	base     float64
}

func (en *stepEnv) close() {
	for _, c := range []*scen.C{en.v, en.w, en.m} {
		if c != nil {
			c.Close()
		}
	}
	for _, c := range []*scen.C{en.v, en.w, en.m} {
		if c != nil {
			scen.Departed(en.p, c, 8*time.Second)
		}
	}
}

func stepSetup(p *sut.Proc, victim string) *stepEnv {
	en := &stepEnv{p: p}
	ms, err := p.Metrics()
	must(err)
	en.base = ms["session_count"]
	m := scen.MustDial(p, "vod")
	en.m = m
	_, _, err = m.Join("")
	must(err)
	en.sid = m.SID
	en.t, err = m.AddType("step-type")
	must(err)
	en.e0, err = m.AddEntity(true, 1)
	must(err)
	en.eDel, err = m.AddEntity(true, 2)
	must(err)
	_, err = m.AddComp(en.t, en.e0, "c0")
	must(err)
	_, err = m.Action(en.e0, "a0", 1_700_000_000, "x")
	must(err)
	_, err = m.AddAsset(en.e0, "as0")
	must(err)
	w := scen.MustDial(p, "vod")
	en.w = w
	_, _, err = w.Join(en.sid)
	must(err)
	_, err = w.Subscribe(en.t)
	must(err)
	v := scen.MustDial(p, "vod")
	en.v = v
	switch victim {
	case "join":
	case "leave", "delete":
		_, _, err = v.Join(en.sid)
		must(err)
		en.vNP, err = v.AddEntity(false, 3)
		must(err)
		en.vP, err = v.AddEntity(true, 4)
		must(err)
		_, err = v.AddComp(en.t, en.vNP, "vc-np")
		must(err)
		_, err = v.AddComp(en.t, en.vP, "vc-p")
		must(err)
		_, err = v.Action(en.vNP, "va", 1_700_000_001, "v")
		must(err)
		_, err = v.AddAsset(en.vNP, "vas")
		must(err)
	case "switch":
		_, _, err = v.Join("")
		must(err)
		en.oldSID = v.SID
		_, err = v.AddEntity(false, 3)
		must(err)
	}
	for _, c := range []*scen.C{m, w, v} {
		_, err := c.Barrier()
		must(err)
	}
	return en
}

func (en *stepEnv) fire(victim string) {
	v := en.v
	switch victim {
	case "join", "switch":
		must(v.Send(&hagallpb.ParticipantJoinRequest{Type: d.TJoinReq, Timestamp: d.NewTag(), RequestId: v.NextReqID(), SessionId: en.sid}))
	case "leave":
		v.Close()
	case "delete":
		must(v.Send(&hagallpb.EntityDeleteRequest{Type: d.TEntityDelReq, Timestamp: d.NewTag(), RequestId: v.NextReqID(), EntityId: en.vNP}))
	}
}

// interfere: the mutator's script; returns the new entity.
func (en *stepEnv) interfere() (eN uint32, err error) {
	m := en.m
	if eN, err = m.AddEntity(true, 9); err != nil {
		return
	}
	if _, err = m.DeleteEntity(en.eDel); err != nil {
		return
	}
	if err = m.UpdateComp(en.t, en.e0, "c1"); err != nil {
		return
	}
	if _, err = m.Action(en.e0, "a0", 1_700_000_100, "y"); err != nil {
		return
	}
	if _, err = m.AddAsset(eN, "as1"); err != nil {
		return
	}
	if err = m.Custom([]byte("step-custom")); err != nil {
		return
	}
	_, err = m.Barrier()
	return
}

// StepSites learns which points the victim operation passes (and how often)
// when nothing else happens.
func StepSites(p *sut.Proc, victim string) (cases []StepCase, err error) {
	defer func() {
		if x := recover(); x != nil {
			err = fmt.Errorf("learning the points of %s: %v", victim, x)
		}
	}()
	en := stepSetup(p, victim)
	defer en.close()
	rt(p, "op=reset")
	rt(p, "op=mode&v=2")
	defer p.RT("op=mode&v=0")
	en.fire(victim)
	if victim == "leave" {
		if ok, _ := scen.Departed(p, en.v, 8*time.Second); !ok {
			return nil, fmt.Errorf("the leaver never departed")
		}
	} else {
		_, err := en.v.Barrier()
		must(err)
	}
	h, err := p.RTHits()
	must(err)
	var names []string
	for s, n := range h.Hits {
		if n > 0 && stepSiteOK(s) {
			names = append(names, s)
		}
	}
	sort.Strings(names)
	for _, s := range names {
		n := int(h.Hits[s])
		if n > 6 {
			n = 6
		}
		for k := 0; k < n; k++ {
			cases = append(cases, StepCase{victim, s, k})
		}
	}
	rt(p, "op=reset")
	return cases, nil
}

// foldLog rebuilds the view of a connection from everything it ever received.
func foldLog(c *scen.C, subscribed ...uint32) *model.View {
	v := model.NewView(-1)
	v.Mods = "vod"
	for _, e := range c.LogCopy() {
		if e.M == nil {
			continue
		}
		if jr, ok := e.M.(*hagallpb.ParticipantJoinResponse); ok {
			v.Reset(jr.ParticipantId)
			for _, t := range subscribed {
				v.Subscribed[t] = true
			}
			continue
		}
		if e.Type == d.TPingResp || e.Type == d.TPingReq {
			continue
		}
		if f := e.M.ProtoReflect().Descriptor().Fields().ByName("request_id"); f != nil {
			continue // answers to own requests
		}
		v.Apply(e, false)
	}
	return v
}

func stateFromProbe(snap *scen.Snapshot) *model.State {
	server := model.NewState()
	for _, pp := range snap.State.GetParticipants() {
		if pp.Id != snap.Join.ParticipantId {
			server.Participants[pp.Id] = true
		}
	}
	for _, en := range snap.State.GetEntities() {
		server.Entities[en.Id] = model.Entity{ID: en.Id, Owner: en.ParticipantId, Flag: int32(en.Flag), Pose: model.PoseFromPB(en.Pose)}
	}
	for _, cc := range snap.State.GetEntityComponents() {
		server.Comps[model.CompKey{Type: cc.EntityComponentTypeId, Entity: cc.EntityId}] = cc.Data
	}
	for _, a := range snap.Vikja.GetEntityActions() {
		act := model.Action{Entity: a.EntityId, Name: a.Name, Data: a.Data}
		if a.Timestamp != nil {
			act.HasTS, act.Sec, act.Nanos = true, a.Timestamp.Seconds, a.Timestamp.Nanos
		}
		server.Actions[model.ActKey{Entity: a.EntityId, Name: a.Name}] = act
	}
	for _, as := range snap.Odal.GetAssetInstances() {
		server.Assets[as.EntityId] = model.Asset{ID: as.Id, AssetID: as.AssetId, Participant: as.ParticipantId, Entity: as.EntityId}
	}
	return server
}

// StepResult extends Result with what the run observed.
type StepResult struct {
	Result
	Overlapped bool // the mutator's script completed while the victim was parked
}

func sf(props []string, clause string, c StepCase, format string, a ...any) *check.Finding {
	return &check.Finding{Props: props, Clause: clause, Trigger: "step-through/" + c.Victim, Engine: "E2 step-through",
		Detail: fmt.Sprintf("[%s] ", c) + fmt.Sprintf(format, a...)}
}

// StepRun runs one case.
func StepRun(p *sut.Proc, c StepCase) (res *StepResult) {
	res = &StepResult{}
	res.Name = c.String()
	defer func() {
		if x := recover(); x != nil {
			if !p.Alive() {
				res.Findings = append(res.Findings, sf([]string{"C09", "C08", "C01", "C02", "C06", "C07"}, "process/exited", c, "the server process ended: %s\n%s", p.ExitInfo(), p.CrashHead(4000)))
				return
			}
			res.Inconclusive = fmt.Sprint(c, ": ", x)
		}
	}()
	en := stepSetup(p, c.Victim)
	closed := false
	defer func() {
		if !closed {
			en.close()
		}
	}()
	site := strings.ReplaceAll(c.Site, "#", "%23")
	rt(p, "op=reset")
	rt(p, "op=mode&v=2")
	defer p.RT("op=mode&v=0")
	defer p.RT("op=reset")
	rt(p, fmt.Sprintf("op=hold&site=%s&skip=%d&max=1", site, c.Skip))
	en.fire(c.Victim)
	if _, err := p.RT(fmt.Sprintf("op=wait&site=%s&n=1&ms=1500", site)); err != nil {
		// not reached this time (the pass belongs to another goroutine's schedule): counted, not judged
		rt(p, "op=release&site="+site)
		return
	}
	res.GateReached = true
	type ir struct {
		eN  uint32
		err error
	}
	done := make(chan ir, 1)
	go func() {
		eN, err := en.interfere()
		done <- ir{eN, err}
	}()
	var r ir
	select {
	case r = <-done:
		res.Overlapped = true
		rt(p, "op=release&site="+site)
	case <-time.After(250 * time.Millisecond):
		// the victim is parked inside a critical section the script needs: the
		// script serialises behind it
		rt(p, "op=release&site="+site)
		r = <-done
	}
	must(r.err)
	eN := r.eN
	res.Signature = fmt.Sprintf("overlapped=%v", res.Overlapped)
	v, w, m := en.v, en.w, en.m
	if c.Victim == "leave" {
		if ok, _ := scen.Departed(p, v, 8*time.Second); !ok {
			res.Findings = append(res.Findings, wedgeOrInconclusive(p, c, "the departing connection's handler never returned after the release"))
			return
		}
	} else {
		_, err := v.Barrier()
		must(err)
	}
	if ok, reason, err := p.WaitTicks(en.sid, 3, 10*time.Second); err != nil || !ok {
		res.Inconclusive = fmt.Sprintf("%s: frame barrier failed: %s %v", c, reason, err)
		return
	}
	for _, cl := range []*scen.C{m, w, v} {
		if cl == v && c.Victim == "leave" {
			continue
		}
		_, err := cl.Barrier()
		must(err)
	}
	// the victim's answer
	var joinResp *hagallpb.ParticipantJoinResponse
	if c.Victim == "join" || c.Victim == "switch" {
		n := 0
		for _, e := range v.LogCopy() {
			if jr, ok := e.M.(*hagallpb.ParticipantJoinResponse); ok && jr.SessionId == en.sid {
				joinResp = jr
				n++
			}
		}
		if n != 1 {
			res.Findings = append(res.Findings, sf([]string{"C04", "C02"}, "step/answer-exactly-once", c, "the join got %d success answers for session %s", n, en.sid))
			return
		}
	}
	snap, err := scen.Probe(p, en.sid, "vod")
	must(err)
	if !snap.Found || snap.State == nil {
		res.Findings = append(res.Findings, sf([]string{"C01", "C07"}, "step/session-lost", c, "the session cannot be joined afterwards (code %d)", snap.Code))
		return
	}
	for _, cl := range []*scen.C{m, w, v} {
		if cl == v && c.Victim == "leave" {
			continue
		}
		_, err := cl.Barrier()
		must(err)
	}
	server := stateFromProbe(snap)

	// --- C02: exactly-once by content at the witness (present throughout), at most once at a joining victim
	count := func(cl *scen.C) map[string]int {
		n := map[string]int{}
		for _, e := range cl.LogCopy() {
			switch x := e.M.(type) {
			case *hagallpb.EntityAddBroadcast:
				n[fmt.Sprint("entity-add ", x.Entity.GetId())]++
			case *hagallpb.EntityDeleteBroadcast:
				n[fmt.Sprint("entity-delete ", x.EntityId)]++
			case *hagallpb.EntityComponentUpdateBroadcast:
				n[fmt.Sprintf("comp-update %q", x.EntityComponent.GetData())]++
			case *vikjapb.EntityActionBroadcast:
				n[fmt.Sprintf("action %q", x.EntityAction.GetData())]++
			case *odalpb.AssetInstanceAddBroadcast:
				n[fmt.Sprintf("asset %q", x.AssetInstance.GetAssetId())]++
			case *hagallpb.CustomMessageBroadcast:
				n[fmt.Sprintf("custom %q", x.Body)]++
			case *hagallpb.ParticipantJoinBroadcast:
				n[fmt.Sprint("join ", x.ParticipantId)]++
			case *hagallpb.ParticipantLeaveBroadcast:
				n[fmt.Sprint("leave ", x.ParticipantId)]++
			}
		}
		return n
	}
	script := []string{fmt.Sprint("entity-add ", eN), fmt.Sprint("entity-delete ", en.eDel), `comp-update "c1"`, `action "y"`, `asset "as1"`, `custom "step-custom"`}
	wn := count(w)
	for _, k := range script {
		if wn[k] != 1 {
			res.Findings = append(res.Findings, sf([]string{"C02"}, "relay/not-exactly-once", c, "the witness (a member throughout) received %d relays of the mutator's accepted %s", wn[k], k))
		}
	}
	if c.Victim == "join" || c.Victim == "switch" {
		vn := count(v)
		for _, k := range script {
			if vn[k] > 1 {
				res.Findings = append(res.Findings, sf([]string{"C02"}, "relay/duplicate", c, "the joining victim received %d relays of the mutator's %s", vn[k], k))
			}
		}
		if k := fmt.Sprint("join ", joinResp.ParticipantId); wn[k] != 1 {
			res.Findings = append(res.Findings, sf([]string{"C02", "C01"}, "relay/join-not-exactly-once", c, "the witness received %d join relays for the victim (participant %d)", wn[k], joinResp.ParticipantId))
		}
	}
	if c.Victim == "leave" {
		if k := fmt.Sprint("leave ", v.PID); wn[k] != 1 {
			res.Findings = append(res.Findings, sf([]string{"C06", "C02"}, "departure/leave-relay-not-exactly-once", c, "the witness received %d leave relays for the departed victim (participant %d)", wn[k], v.PID))
		}
		if k := fmt.Sprint("entity-delete ", en.vNP); wn[k] != 1 {
			res.Findings = append(res.Findings, sf([]string{"C06", "C02"}, "departure/entity-delete-relay-not-exactly-once", c, "the witness received %d delete relays for the departed victim's non-persistent entity %d", wn[k], en.vNP))
		}
		if k := fmt.Sprint("entity-delete ", en.vP); wn[k] != 0 {
			res.Findings = append(res.Findings, sf([]string{"C06"}, "departure/persistent-entity-deleted", c, "the witness received %d delete relays for the departed victim's persistent entity %d", wn[k], en.vP))
		}
		if _, ok := server.Entities[en.vNP]; ok {
			res.Findings = append(res.Findings, sf([]string{"C06"}, "departure/non-persistent-entity-survives", c, "entity %d of the departed victim is still handed to a probe", en.vNP))
		}
		if _, ok := server.Entities[en.vP]; !ok {
			res.Findings = append(res.Findings, sf([]string{"C06"}, "departure/persistent-entity-lost", c, "persistent entity %d of the departed victim is not handed to a probe", en.vP))
		}
		if server.Participants[v.PID] {
			res.Findings = append(res.Findings, sf([]string{"C06"}, "departure/participant-survives", c, "the departed victim (participant %d) is still listed", v.PID))
		}
		for k := range server.Comps {
			if k.Entity == en.vNP {
				res.Findings = append(res.Findings, sf([]string{"C06", "C12"}, "departure/component-survives", c, "a component of the removed entity %d is still handed to a probe", en.vNP))
			}
		}
		if _, ok := server.Assets[en.vNP]; ok {
			res.Findings = append(res.Findings, sf([]string{"C06", "C14"}, "departure/asset-survives", c, "the asset instance on the removed entity %d is still handed to a probe", en.vNP))
		}
		for k := range server.Actions {
			if k.Entity == en.vNP {
				res.Findings = append(res.Findings, sf([]string{"C06", "C13"}, "departure/action-survives", c, "an action on the removed entity %d is still handed to a probe", en.vNP))
			}
		}
	}
	if c.Victim == "delete" {
		if k := fmt.Sprint("entity-delete ", en.vNP); wn[k] != 1 {
			res.Findings = append(res.Findings, sf([]string{"C02"}, "relay/not-exactly-once", c, "the witness received %d delete relays for the victim's deleted entity %d", wn[k], en.vNP))
		}
	}
	if len(res.Findings) > 0 {
		return
	}
	// --- C01: views
	wv := foldLog(w, en.t)
	if diff := wv.Diff(server, "vod"); len(diff) > 0 {
		res.Findings = append(res.Findings, sf([]string{"C01"}, "view/diverged-after-step", c, "the witness's view differs from the state handed to a probe: %s", strings.Join(diff, "; ")))
	}
	if c.Victim == "join" || c.Victim == "switch" {
		vv := foldLog(v)
		if diff := vv.Diff(server, "vod"); len(diff) > 0 {
			res.Findings = append(res.Findings, sf([]string{"C01"}, "view/newcomer-diverged", c, "the view of the victim (snapshot handed on joining + relays received, applied on top) differs from the state handed to a later probe: %s\n   victim's stream: %v", strings.Join(diff, "; "), v.LogCopy()))
		}
	}
	// --- C07: registry
	live := 1
	if c.Victim == "switch" {
		old, err := scen.Probe(p, en.oldSID, "vod")
		must(err)
		if old.Found && old.Join.SessionUuid != "" {
			// the id may have been reused by nobody here: a session under the old id must be a new one
			res.Findings = append(res.Findings, sf([]string{"C07", "C06"}, "registry/ended-session-still-findable", c, "the session %s that the switching victim left as its last member can still be joined", en.oldSID))
			live = 2
		}
	}
	res.Findings = append(res.Findings, registryQuiescent(p, en.base, live, "step-through/"+c.Victim)...)
	closed = true
	en.close()
	if len(res.Findings) == 0 {
		res.Findings = append(res.Findings, registryQuiescent(p, en.base, 0, "step-through/"+c.Victim+"/after-all-left")...)
	}
	return
}

func wedgeOrInconclusive(p *sut.Proc, c StepCase, what string) *check.Finding {
	d1, _ := p.Goroutines()
	time.Sleep(500 * time.Millisecond)
	d2, _ := p.Goroutines()
	if stuck := stuckIn(d1, d2); len(stuck) > 0 {
		return sf([]string{"C09", "C08", "C06"}, "liveness/wedged", c, "%s; goroutines parked in relay code across two dumps: %v", what, stuck)
	}
	return &check.Finding{Clause: "inconclusive", Trigger: "step-through/" + c.Victim, Detail: what + " (no goroutine parked in relay code: not decided)"}
}
