package e2

import (
	"fmt"
	"github.com/aukilabs/hagall-common/messages/dagazpb"
	"sort"
	"strings"
	"time"

	"github.com/aukilabs/hagall-common/messages/hagallpb"
	"github.com/aukilabs/hagall-common/messages/odalpb"
	"github.com/aukilabs/hagall-common/messages/vikjapb"
	"google.golang.org/protobuf/types/known/timestamppb"

	"verif/internal/check"
	d "verif/internal/driver"
	"verif/internal/model"
	"verif/internal/scen"
	"verif/internal/sut"
)

// Step-through: one "victim" operation (a join by id, a departure, a join that
// switches session, the deletion of an entity with attachments) is parked at
// one of the scheduling points it passes - every point, one run per point and
// pass - while another member of the session performs a fixed script of
// accepted changes; then the victim is released. Each run is a schedule the Go
// scheduler could produce by itself (one preemption of the victim at that
// point); the gates only make it certain. At quiescence:
//
//	C01  the witness's and the victim's folded views equal the state handed to a probe
//	C02  the witness received every accepted change of the script exactly once,
//	     a joining victim at most once; join / departure relays exactly once
//	C06  a departing victim's non-persistent entities are gone, persistent ones kept
//	C07  gauge, registry and frame workers agree with the live sessions
type StepCase struct {
	Victim string
	Site   string
	Skip   int
	// optional second victim (two preemptions): "join2" joins the session the
	// first victim acts on (the one it leaves, for lastleave / switch), "leave2"
	// is another member of that session that leaves; it is parked at Site2 after
	// the first victim was parked, and released after it or (SecondFirst) before it
	Victim2     string
	Site2       string
	SecondFirst bool
	// Abort: the victim's client resets its connection while the server is
	// parked in the middle of handling its request (fault at that point); the
	// server finishes the request on a dead connection and then runs the departure
	Abort bool
}

func (c StepCase) String() string {
	if c.Victim2 != "" {
		order := "first victim released first"
		if c.SecondFirst {
			order = "second victim released first"
		}
		return fmt.Sprintf("%s parked at pass %d of %s, then %s parked at %s, %s", c.Victim, c.Skip+1, c.Site, c.Victim2, c.Site2, order)
	}
	if c.Abort {
		return fmt.Sprintf("%s parked at pass %d of %s, its client resets the connection meanwhile", c.Victim, c.Skip+1, c.Site)
	}
	return fmt.Sprintf("%s parked at pass %d of %s", c.Victim, c.Skip+1, c.Site)
}

var StepVictims = []string{"join", "leave", "switch", "delete", "lastleave", "create", "compadd-vs-delete", "compadd-vs-leave", "action-vs-delete", "action-vs-leave", "action-vs-action", "compupd-vs-unsub", "compadd-vs-compadd", "customto-vs-customto", "sub-vs-sub", "join-vs-lastleave", "switch-vs-lastleave", "entityadd", "compdel", "assetadd", "custom"}

// stepSiteOK: points on the victim's own path; points that every connection
// or the frame worker pass all the time would park somebody else.
func stepSiteOK(s string) bool {
	if strings.Contains(s, "StartDispatchFrames") {
		return false
	}
	for _, p := range []string{"models.", "vikja.", "odal.", "dagaz.", "modules.",
		"websocket.RealtimeHandler.HandleParticipantJoin", "websocket.RealtimeHandler.HandleDisconnect", "websocket.RealtimeHandler.leaveSession",
		"websocket.RealtimeHandler.HandleEntityDelete", "websocket.RealtimeHandler.HandleEntityComponentAdd", "websocket.RealtimeHandler.HandleWithModule",
		// the victim's own answers and state messages: parked between building a message and marshalling / queueing it
		"websocket.handler.send", "websocket.responseSender.Send", "websocket.handler.disconnect", "websocket.handler.handleDisconnect", "websocket.handler.Handle#",
		"websocket.handlerWithLogs.HandleParticipantJoin", "websocket.handlerWithLogs.HandleDisconnect", "websocket.handlerWithMetrics.HandleParticipantJoin", "websocket.handlerWithMetrics.HandleDisconnect"} {
		if strings.HasPrefix(s, p) {
			return true
		}
	}
	return false
}

type stepEnv struct {
	p            *sut.Proc
	m, w, v      *scen.C
	sid          string
	oldSID       string // switch: the session the victim leaves (and thereby ends)
	oldUUID      string
	t, t2        uint32
	t3           uint32 // a type nobody is subscribed to (sub-vs-sub)
	vLog0        int    // length of the victim's log when its request was sent
	visited      []string // create: uuids of sessions a guessing visitor joined and left
	visitor      *scen.C
	vOldPID      uint32 // switch-vs-lastleave: the victim's participant id in the main session
	vReq         uint32 // generic victims: the id of the victim's request
	vE           uint32 // generic victims: an entity of the victim carrying a component of type t
	t4, t5       uint32 // types whose only subscriber is the victim (t4) / the scripted leaver (t5)
	subV, subL   bool   // those subscriptions were made
	e0, eDel     uint32
	vNP, vP      uint32 // victim's non-persistent and persistent entity
	base         float64
	mutatorAddOK bool    // compadd-vs-compadd: the mutator's add of the contested key was accepted
	v2           *scen.C // second victim
	v2NP         uint32  // leave2: its non-persistent entity
	target       string  // the session the second victim joins / leaves
	o            *scen.C // attach victims: the owner of entity eO, which deletes it / leaves while the victim attaches to it
	eO           uint32
	// set by interfere
	eN     uint32
	n      *scen.C // newcomer to sid (kept: second witness)
	x      *scen.C // extra member of sid that leaves during the park (victim join)
	n2     *scen.C // joins the victim's old / only session by id while its last member leaves
	n2ok   bool
	c1, c2 *scen.C // create sessions of their own during the park
	extra  []*scen.C
	// entities added (and moved) by the connections themselves in the pose step:
	// own requests are not echoed, so they are put into the owner's view by hand
	own map[*scen.C]model.Entity
}

func (en *stepEnv) all() []*scen.C {
	out := []*scen.C{}
	for _, c := range append([]*scen.C{en.v, en.v2, en.w, en.m, en.o, en.n, en.x, en.n2, en.c1, en.c2}, en.extra...) {
		if c != nil {
			out = append(out, c)
		}
	}
	return out
}

func (en *stepEnv) close() {
	for _, c := range en.all() {
		c.Close()
	}
	for _, c := range en.all() {
		scen.Departed(en.p, c, 8*time.Second)
	}
}

func stepSetup(p *sut.Proc, victim string) *stepEnv {
	en := &stepEnv{p: p}
	ms, err := p.Metrics()
	must(err)
	en.base = ms["session_count"]
	m := scen.MustDial(p, "vod")
	en.m = m
	_, _, err = m.Join("")
	must(err)
	en.sid = m.SID
	en.t, err = m.AddType("step-type")
	must(err)
	en.t2, err = m.AddType("step-type-2")
	must(err)
	en.t4, err = m.AddType("step-type-4")
	must(err)
	en.t5, err = m.AddType("step-type-5")
	must(err)
	en.e0, err = m.AddEntity(true, 1)
	must(err)
	en.eDel, err = m.AddEntity(true, 2)
	must(err)
	_, err = m.AddComp(en.t, en.e0, "c0")
	must(err)
	_, err = m.Action(en.e0, "a0", 1_700_000_000, "x")
	must(err)
	// a few more attachments, so that what a newcomer is handed is a list
	_, err = m.Action(en.e0, "a1", 1_700_000_000, "x1")
	must(err)
	_, err = m.Action(en.e0, "a2", 1_700_000_000, "x2")
	must(err)
	_, err = m.AddAsset(en.e0, "as0")
	must(err)
	w := scen.MustDial(p, "vod")
	en.w = w
	_, _, err = w.Join(en.sid)
	must(err)
	_, err = w.Subscribe(en.t)
	must(err)
	_, err = w.Subscribe(en.t2)
	must(err)
	v := scen.MustDial(p, "vod")
	en.v = v
	switch victim {
	case "join":
		// an extra member with a non-persistent entity that will leave during the park
		x := scen.MustDial(p, "vod")
		en.x = x
		_, _, err = x.Join(en.sid)
		must(err)
		_, err = x.AddEntity(false, 7)
		must(err)
	case "compadd-vs-delete", "compadd-vs-leave", "action-vs-delete", "action-vs-leave":
		_, _, err = v.Join(en.sid)
		must(err)
		o := scen.MustDial(p, "vod")
		en.o = o
		_, _, err = o.Join(en.sid)
		must(err)
		en.eO, err = o.AddEntity(false, 5)
		must(err)
		_, err = o.AddComp(en.t, en.eO, "oc")
		must(err)
		_, err = o.Action(en.eO, "oa", 1_700_000_002, "o")
		must(err)
	case "action-vs-action", "compadd-vs-compadd":
		_, _, err = v.Join(en.sid)
		must(err)
	case "entityadd", "compdel", "assetadd", "custom":
		// a member that makes one plain request, parked at every point of it
		_, _, err = v.Join(en.sid)
		must(err)
		en.vE, err = v.AddEntity(true, 21)
		must(err)
		_, err = v.AddComp(en.t, en.vE, "vE-c")
		must(err)
	case "sub-vs-sub":
		// a type with a component but without any subscriber yet; the victim and
		// another member become its first subscribers at the same time
		_, _, err = v.Join(en.sid)
		must(err)
		o := scen.MustDial(p, "vod")
		en.o = o
		_, _, err = o.Join(en.sid)
		must(err)
		en.t3, err = m.AddType("step-type-3")
		must(err)
		_, err = m.AddComp(en.t3, en.e0, "s0")
		must(err)
	case "customto-vs-customto":
		_, _, err = v.Join(en.sid)
		must(err)
		o := scen.MustDial(p, "vod")
		en.o = o
		_, _, err = o.Join(en.sid)
		must(err)
	case "compupd-vs-unsub":
		// a second subscriber of the type, which unsubscribes while the victim's
		// update is on its way to the subscribers
		_, _, err = v.Join(en.sid)
		must(err)
		o := scen.MustDial(p, "vod")
		en.o = o
		_, _, err = o.Join(en.sid)
		must(err)
		_, err = o.Subscribe(en.t)
		must(err)
	case "join-vs-lastleave", "switch-vs-lastleave":
		// a second session with a single member, which leaves while the victim joins it
		if victim == "switch-vs-lastleave" {
			// ... coming from the main session, where it owns an entity and is watched
			_, _, err = v.Join(en.sid)
			must(err)
			en.vOldPID = v.PID
			en.vNP, err = v.AddEntity(false, 3)
			must(err)
		}
		o := scen.MustDial(p, "vod")
		en.o = o
		_, _, err = o.Join("")
		must(err)
		en.oldSID, en.oldUUID = o.SID, o.UUID
		_, err = o.AddEntity(true, 11)
		must(err)
		_, err = o.AddEntity(false, 12)
		must(err)
		en.planes(o)
	case "create":
	case "lastleave":
		_, _, err = v.Join("")
		must(err)
		en.oldSID, en.oldUUID = v.SID, v.UUID
		_, err = v.AddEntity(true, 3)
		must(err)
		en.vNP, err = v.AddEntity(false, 4)
		must(err)
		en.planes(v)
	case "leave", "delete":
		_, _, err = v.Join(en.sid)
		must(err)
		en.vNP, err = v.AddEntity(false, 3)
		must(err)
		en.vP, err = v.AddEntity(true, 4)
		must(err)
		_, err = v.AddComp(en.t, en.vNP, "vc-np")
		must(err)
		_, err = v.AddComp(en.t, en.vP, "vc-p")
		must(err)
		_, err = v.Action(en.vNP, "va", 1_700_000_001, "v")
		must(err)
		_, err = v.AddAsset(en.vNP, "vas")
		must(err)
	case "switch":
		_, _, err = v.Join("")
		must(err)
		en.oldSID, en.oldUUID = v.SID, v.UUID
		_, err = v.AddEntity(false, 3)
		must(err)
		en.planes(v)
	}
	// subscriptions that must end with their only holder: the victim's (it may
	// leave or be aborted) and the scripted leaver's
	if v.SID == en.sid && victim != "sub-vs-sub" {
		a, err := v.Subscribe(en.t4)
		must(err)
		en.subV = a != nil && a.Type == d.TSubResp
	}
	var leaver *scen.C
	switch {
	case victim == "join":
		leaver = en.x
	case strings.HasSuffix(victim, "-vs-leave"):
		leaver = en.o
	}
	if leaver != nil {
		a, err := leaver.Subscribe(en.t5)
		must(err)
		en.subL = a != nil && a.Type == d.TSubResp
	}
	for _, c := range en.all() {
		_, err := c.Barrier()
		must(err)
	}
	return en
}

// setup2 prepares the second victim.
func (en *stepEnv) setup2(victim, victim2 string) {
	if victim2 == "" {
		return
	}
	en.target = en.sid
	if victim == "lastleave" || victim == "switch" {
		en.target = en.oldSID
	}
	en.v2 = scen.MustDial(en.p, "vod")
	if victim2 == "leave2" {
		jr, _, err := en.v2.Join(en.target)
		must(err)
		if jr == nil {
			panic("the second victim could not join " + en.target)
		}
		en.v2NP, err = en.v2.AddEntity(false, 8)
		must(err)
	}
	for _, c := range en.all() {
		_, err := c.Barrier()
		must(err)
	}
}

func (en *stepEnv) fire2(victim2 string) {
	switch victim2 {
	case "join2":
		must(en.v2.Send(&hagallpb.ParticipantJoinRequest{Type: d.TJoinReq, Timestamp: d.NewTag(), RequestId: en.v2.NextReqID(), SessionId: en.target}))
	case "leave2":
		en.v2.Close()
	}
}

// planes: three ground-plane samples in the session of c (kept for as long
// as the session lives).
func (en *stepEnv) planes(c *scen.C) {
	for k := 0; k < 3; k++ {
		must(c.Send(&dagazpb.DagazQuadSample{Type: d.TQuadSample, Timestamp: d.NewTag(), Samples: []*dagazpb.Quad{{Center: &dagazpb.Point{X: float32(10 * k), Z: 5}, Extents: &dagazpb.Point{X: 1, Z: 1}}}}))
	}
	_, err := c.Barrier()
	must(err)
}

// planesKept: a member of a session that lived on still finds its three planes.
func (en *stepEnv) planesKept(c StepCase, res *StepResult, member *scen.C, how string) {
	a, _, err := member.Do(&dagazpb.DagazGetDebugInfoRequest{Type: d.TDebugInfoReq, Timestamp: d.NewTag(), RequestId: member.NextReqID()})
	must(err)
	if info, ok := a.M.(*dagazpb.DagazGetDebugInfoResponse); !ok {
		res.Findings = append(res.Findings, sf([]string{"C20", "C04"}, "dagaz/debug-info-unanswered", c, "a debug-info request in the session that lived on was answered with %v", a))
	} else if info.GridPlaneCount != 3 {
		res.Findings = append(res.Findings, sf([]string{"C20", "C07"}, "dagaz/planes-lost-while-session-lives", c, "the session %s held 3 ground planes; %s, the session lived on (same uuid), and now reports %d planes", member.SID, how, info.GridPlaneCount))
	}
}

func (en *stepEnv) fire(victim string) {
	v := en.v
	switch victim {
	case "join", "switch":
		must(v.Send(&hagallpb.ParticipantJoinRequest{Type: d.TJoinReq, Timestamp: d.NewTag(), RequestId: v.NextReqID(), SessionId: en.sid}))
	case "create":
		must(v.Send(&hagallpb.ParticipantJoinRequest{Type: d.TJoinReq, Timestamp: d.NewTag(), RequestId: v.NextReqID()}))
	case "join-vs-lastleave", "switch-vs-lastleave":
		must(v.Send(&hagallpb.ParticipantJoinRequest{Type: d.TJoinReq, Timestamp: d.NewTag(), RequestId: v.NextReqID(), SessionId: en.oldSID}))
	case "leave", "lastleave":
		v.Close()
	case "compadd-vs-delete", "compadd-vs-leave":
		must(v.Send(&hagallpb.EntityComponentAddRequest{Type: d.TCompAddReq, Timestamp: d.NewTag(), RequestId: v.NextReqID(), EntityComponentTypeId: en.t2, EntityId: en.eO, Data: []byte("late")}))
	case "sub-vs-sub":
		must(v.Send(&hagallpb.EntityComponentTypeSubscribeRequest{Type: d.TSubReq, Timestamp: d.NewTag(), RequestId: v.NextReqID(), EntityComponentTypeId: en.t3}))
	case "customto-vs-customto":
		must(v.Send(&hagallpb.CustomMessage{Type: d.TCustom, Timestamp: d.NewTag(), ParticipantIds: []uint32{en.w.PID, en.m.PID}, Body: []byte("victim-to-witness")}))
	case "compadd-vs-compadd":
		// the same (type, entity) the mutator adds meanwhile: one of the two is a conflict
		must(v.Send(&hagallpb.EntityComponentAddRequest{Type: d.TCompAddReq, Timestamp: d.NewTag(), RequestId: v.NextReqID(), EntityComponentTypeId: en.t2, EntityId: en.e0, Data: []byte("by-victim")}))
	case "compupd-vs-unsub":
		must(v.Send(&hagallpb.EntityComponentUpdate{Type: d.TCompUpdate, Timestamp: d.NewTag(), EntityComponentTypeId: en.t, EntityId: en.e0, Data: []byte("vu")}))
	case "action-vs-action":
		// older than the action the mutator's script sets on the same key
		// (1_700_000_100), newer than the one stored at setup (1_700_000_000)
		must(v.Send(&vikjapb.EntityActionRequest{Type: d.TActionReq, Timestamp: d.NewTag(), RequestId: v.NextReqID(),
			EntityAction: &vikjapb.EntityAction{EntityId: en.e0, Name: "a0", Timestamp: &timestamppb.Timestamp{Seconds: 1_700_000_050}, Data: []byte("older")}}))
	case "action-vs-delete", "action-vs-leave":
		must(v.Send(&vikjapb.EntityActionRequest{Type: d.TActionReq, Timestamp: d.NewTag(), RequestId: v.NextReqID(),
			EntityAction: &vikjapb.EntityAction{EntityId: en.eO, Name: "late", Timestamp: &timestamppb.Timestamp{Seconds: 1_700_000_300}, Data: []byte("late")}}))
	case "delete":
		must(v.Send(&hagallpb.EntityDeleteRequest{Type: d.TEntityDelReq, Timestamp: d.NewTag(), RequestId: v.NextReqID(), EntityId: en.vNP}))
	case "entityadd":
		en.vReq = v.NextReqID()
		must(v.Send(&hagallpb.EntityAddRequest{Type: d.TEntityAddReq, Timestamp: d.NewTag(), RequestId: en.vReq, Persist: true, Pose: &hagallpb.Pose{Px: 33, Rw: 1}}))
	case "compdel":
		en.vReq = v.NextReqID()
		must(v.Send(&hagallpb.EntityComponentDeleteRequest{Type: d.TCompDelReq, Timestamp: d.NewTag(), RequestId: en.vReq, EntityComponentTypeId: en.t, EntityId: en.vE}))
	case "assetadd":
		en.vReq = v.NextReqID()
		must(v.Send(&odalpb.AssetInstanceAddRequest{Type: d.TAssetAddReq, Timestamp: d.NewTag(), RequestId: en.vReq, EntityId: en.vE, AssetId: "victim-asset"}))
	case "custom":
		must(v.Send(&hagallpb.CustomMessage{Type: d.TCustom, Timestamp: d.NewTag(), Body: []byte("victim-broadcast")}))
	}
}

// interfere: what the rest of the world does while the victim is parked.
func (en *stepEnv) interfere(victim string) (err error) {
	p := en.p
	defer func() {
		if x := recover(); x != nil {
			err = fmt.Errorf("%v", x)
		}
	}()
	dial := func() *scen.C {
		c := scen.MustDial(p, "vod")
		en.extra = append(en.extra, c)
		return c
	}
	departed := func(c *scen.C, who string) {
		if ok, _ := scen.Departed(p, c, 12*time.Second); !ok {
			panic(who + "'s handler never returned")
		}
	}
	switch victim {
	case "create":
		// a visitor that guesses ids: the session the victim is creating may be
		// registered before its creator is in it; whoever finds it joins and
		// leaves again at once
		if i := strings.Index(en.sid, "x"); i > 0 {
			g := dial()
			en.visitor = g
			for k := 1; k <= 6; k++ {
				guess := fmt.Sprintf("%s%x", en.sid[:i+1], k)
				if guess == en.sid {
					continue
				}
				jr, _, gerr := g.Join(guess)
				if gerr != nil {
					break
				}
				if jr != nil {
					en.visited = append(en.visited, jr.SessionUuid)
					g.Close()
					departed(g, "the visitor")
					break
				}
			}
		}
		// every other session ends (the registry becomes empty), then two more sessions are created
		en.w.Close()
		en.m.Close()
		departed(en.w, "the witness")
		departed(en.m, "the mutator")
		en.c1, en.c2 = dial(), dial()
		if _, _, err = en.c1.Join(""); err != nil {
			return
		}
		_, _, err = en.c2.Join("")
		return
	case "join-vs-lastleave", "switch-vs-lastleave":
		en.o.Close()
		departed(en.o, "the only other member of the session being joined")
		return
	case "lastleave":
		en.n2 = dial()
		var jr *hagallpb.ParticipantJoinResponse
		if jr, _, err = en.n2.Join(en.oldSID); err != nil {
			return
		}
		en.n2ok = jr != nil
		en.c1 = dial()
		_, _, err = en.c1.Join("")
		return
	}
	m := en.m
	if victim == "sub-vs-sub" {
		var a *d.Event
		if a, err = en.o.Subscribe(en.t3); err != nil {
			return
		}
		if a == nil || a.Type != d.TSubResp {
			return fmt.Errorf("the other member's subscribe was not answered with success: %v", a)
		}
	}
	if victim == "customto-vs-customto" {
		// another addressed message in the same session, to somebody else, three times
		for k := 0; k < 3; k++ {
			if err = m.Custom([]byte("mutator-to-other"), en.o.PID, en.o.PID); err != nil {
				return
			}
		}
		if _, err = m.Barrier(); err != nil {
			return
		}
	}
	if victim == "compadd-vs-compadd" {
		// first of all (the victim may hold the entity read lock, which the rest of
		// the script has to wait for): the same key, added by somebody else
		var a *d.Event
		if a, err = m.AddComp(en.t2, en.e0, "by-mutator"); err != nil {
			return
		}
		en.mutatorAddOK = a != nil && a.Type == d.TCompAddResp
	}
	if en.eN, err = m.AddEntity(true, 9); err != nil {
		return
	}
	if _, err = m.DeleteEntity(en.eDel); err != nil {
		return
	}
	if _, err = m.AddComp(en.t, en.eN, "cn"); err != nil {
		return
	}
	if err = m.UpdateComp(en.t, en.e0, "c1"); err != nil {
		return
	}
	// the owner moves the entity every snapshot contains (executed at the next
	// frame: a writer of the entity arrives while the victim may be reading it)
	if _, err = m.Pose(en.e0, 77); err != nil {
		return
	}
	if _, err = m.Action(en.e0, "a0", 1_700_000_100, "y"); err != nil {
		return
	}
	if _, err = m.AddAsset(en.eN, "as1"); err != nil {
		return
	}
	// a new action key as well (the set of actions grows, not only changes); on
	// the entity that already carries the others, so that it can come anywhere
	// in the list a newcomer is handed
	if _, err = m.Action(en.e0, "n0", 1_700_000_101, "n"); err != nil {
		return
	}
	if err = m.Custom([]byte("step-custom")); err != nil {
		return
	}
	if victim == "delete" || victim == "leave" {
		// attachments aimed at the entity the victim is removing: accepted or
		// refused, they must not outlive the entity
		if _, err = m.AddComp(en.t2, en.vNP, "late"); err != nil {
			return
		}
		if _, err = m.Action(en.vNP, "late", 1_700_000_200, "z"); err != nil {
			return
		}
	}
	// a newcomer joins and stays (second witness)
	en.n = dial()
	var jr *hagallpb.ParticipantJoinResponse
	if jr, _, err = en.n.Join(en.sid); err != nil {
		return
	}
	if jr == nil {
		return fmt.Errorf("the newcomer's join of the live session %s was refused", en.sid)
	}
	if victim == "join" {
		en.x.Close()
		departed(en.x, "the extra member")
	}
	if victim == "compupd-vs-unsub" {
		var a *d.Event
		if a, _, err = en.o.Do(&hagallpb.EntityComponentTypeUnsubscribeRequest{Type: d.TUnsubReq, Timestamp: d.NewTag(), RequestId: en.o.NextReqID(), EntityComponentTypeId: en.t}); err != nil {
			return
		}
		if a == nil || a.Type != d.TUnsubResp {
			return fmt.Errorf("the unsubscribe was not answered with success: %v", a)
		}
	}
	if strings.HasSuffix(victim, "-vs-delete") {
		if _, err = en.o.DeleteEntity(en.eO); err != nil {
			return
		}
	}
	if strings.HasSuffix(victim, "-vs-leave") {
		en.o.Close()
		departed(en.o, "the owner")
	}
	if victim == "switch" {
		en.n2 = dial()
		if jr, _, err = en.n2.Join(en.oldSID); err != nil {
			return
		}
		en.n2ok = jr != nil
	}
	_, err = m.Barrier()
	return
}

// StepSites learns which points the victim operation passes (and how often)
// when nothing else happens.
func StepSites(p *sut.Proc, victim string) (cases []StepCase, err error) {
	defer func() {
		if x := recover(); x != nil {
			err = fmt.Errorf("learning the points of %s: %v", victim, x)
		}
	}()
	en := stepSetup(p, victim)
	defer en.close()
	rt(p, "op=reset")
	rt(p, "op=mode&v=2")
	defer p.RT("op=mode&v=0")
	en.fire(victim)
	if victim == "leave" || victim == "lastleave" {
		if ok, _ := scen.Departed(p, en.v, 8*time.Second); !ok {
			return nil, fmt.Errorf("the leaver never departed")
		}
	} else {
		_, err := en.v.Barrier()
		must(err)
		if victim == "compupd-vs-unsub" {
			// the update is executed at the next frame tick
			if ok, reason, err := p.WaitTicks(en.sid, 3, 10*time.Second); err != nil || !ok {
				return nil, fmt.Errorf("frame barrier failed: %s %v", reason, err)
			}
			_, err = en.v.Barrier()
			must(err)
		}
	}
	h, err := p.RTHits()
	must(err)
	var names []string
	for s, n := range h.Hits {
		if n > 0 && stepSiteOK(s) {
			names = append(names, s)
		}
	}
	sort.Strings(names)
	for _, s := range names {
		n := int(h.Hits[s])
		if n > 6 {
			n = 6
		}
		for k := 0; k < n; k++ {
			cases = append(cases, StepCase{Victim: victim, Site: s, Skip: k})
		}
	}
	rt(p, "op=reset")
	return cases, nil
}

// foldLog rebuilds the view of a connection from everything it ever received.
func foldLog(c *scen.C, subscribed ...uint32) *model.View {
	v := model.NewView(-1)
	v.Mods = "vod"
	for _, e := range c.LogCopy() {
		if e.M == nil {
			continue
		}
		if jr, ok := e.M.(*hagallpb.ParticipantJoinResponse); ok {
			v.Reset(jr.ParticipantId)
			for _, t := range subscribed {
				v.Subscribed[t] = true
			}
			continue
		}
		if e.Type == d.TPingResp || e.Type == d.TPingReq {
			continue
		}
		if f := e.M.ProtoReflect().Descriptor().Fields().ByName("request_id"); f != nil {
			continue // answers to own requests
		}
		v.Apply(e, false)
	}
	return v
}

func stateFromProbe(snap *scen.Snapshot) *model.State {
	server := model.NewState()
	for _, pp := range snap.State.GetParticipants() {
		if pp.Id != snap.Join.ParticipantId {
			server.Participants[pp.Id] = true
		}
	}
	for _, en := range snap.State.GetEntities() {
		server.Entities[en.Id] = model.Entity{ID: en.Id, Owner: en.ParticipantId, Flag: int32(en.Flag), Pose: model.PoseFromPB(en.Pose)}
	}
	for _, cc := range snap.State.GetEntityComponents() {
		server.Comps[model.CompKey{Type: cc.EntityComponentTypeId, Entity: cc.EntityId}] = cc.Data
	}
	for _, a := range snap.Vikja.GetEntityActions() {
		act := model.Action{Entity: a.EntityId, Name: a.Name, Data: a.Data}
		if a.Timestamp != nil {
			act.HasTS, act.Sec, act.Nanos = true, a.Timestamp.Seconds, a.Timestamp.Nanos
		}
		server.Actions[model.ActKey{Entity: a.EntityId, Name: a.Name}] = act
	}
	for _, as := range snap.Odal.GetAssetInstances() {
		server.Assets[as.EntityId] = model.Asset{ID: as.Id, AssetID: as.AssetId, Participant: as.ParticipantId, Entity: as.EntityId}
	}
	return server
}

// StepResult extends Result with what the run observed.
type StepResult struct {
	Result
	Overlapped bool // the mutator's script completed while the victim was parked
	Second     bool // the second victim was parked too while the first one still was
}

func sf(props []string, clause string, c StepCase, format string, a ...any) *check.Finding {
	return &check.Finding{Props: props, Clause: clause, Trigger: "step-through/" + c.Victim, Engine: "E2 step-through",
		Detail: fmt.Sprintf("[%s] ", c) + fmt.Sprintf(format, a...)}
}

// StepRun runs one case.
func StepRun(p *sut.Proc, c StepCase) (res *StepResult) {
	res = &StepResult{}
	res.Name = c.String()
	defer func() {
		if x := recover(); x != nil {
			if !p.Alive() {
				res.Findings = append(res.Findings, sf([]string{"C09", "C08", "C01", "C02", "C06", "C07"}, "process/exited", c, "the server process ended: %s\n%s", p.ExitInfo(), p.CrashHead(4000)))
				return
			}
			res.Inconclusive = fmt.Sprint(c, ": ", x)
		}
	}()
	en := stepSetup(p, c.Victim)
	closed := false
	en.setup2(c.Victim, c.Victim2)
	defer func() {
		if !closed {
			en.close()
		}
	}()
	site := strings.ReplaceAll(c.Site, "#", "%23")
	rt(p, "op=reset")
	rt(p, "op=mode&v=2")
	defer p.RT("op=mode&v=0")
	defer p.RT("op=reset")
	rt(p, fmt.Sprintf("op=hold&site=%s&skip=%d&max=1", site, c.Skip))
	en.vLog0 = len(en.v.LogCopy())
	en.fire(c.Victim)
	if _, err := p.RT(fmt.Sprintf("op=wait&site=%s&n=1&ms=1500", site)); err != nil {
		// not reached this time (the pass belongs to another goroutine's schedule): counted, not judged
		rt(p, "op=release&site="+site)
		return
	}
	res.GateReached = true
	site2 := strings.ReplaceAll(c.Site2, "#", "%23")
	if c.Victim2 != "" {
		rt(p, fmt.Sprintf("op=hold&site=%s&max=1", site2))
		en.fire2(c.Victim2)
		if _, err := p.RT(fmt.Sprintf("op=wait&site=%s&n=1&ms=400", site2)); err == nil {
			res.Second = true
		}
	}
	release := func() {
		if c.Victim2 == "" {
			rt(p, "op=release&site="+site)
			return
		}
		if c.SecondFirst {
			rt(p, "op=release&site="+site2)
			time.Sleep(20 * time.Millisecond)
			rt(p, "op=release&site="+site)
			return
		}
		rt(p, "op=release&site="+site)
		// the second victim may only now get to its point (it was waiting for a
		// lock the first one held): let it park there, then let it go
		p.RT(fmt.Sprintf("op=wait&site=%s&n=1&ms=40", site2))
		time.Sleep(20 * time.Millisecond)
		rt(p, "op=release&site="+site2)
	}
	done := make(chan error, 1)
	go func() { done <- en.interfere(c.Victim) }()
	if c.Abort {
		en.v.Abort()
	}
	var ierr error
	select {
	case ierr = <-done:
		res.Overlapped = true
		release()
	case <-time.After(250 * time.Millisecond):
		// the victim is parked inside a critical section the others need: they
		// serialise behind it
		release()
		ierr = <-done
	}
	if ierr != nil {
		if !p.Alive() {
			panic(ierr)
		}
		// after the release everything must complete: a request that does not is a wedge
		res.Findings = append(res.Findings, wedgeOrInconclusive(p, c, fmt.Sprintf("after the victim was released, the other connections' requests did not complete (%v)", ierr)))
		return
	}
	res.Signature = fmt.Sprintf("overlapped=%v", res.Overlapped)
	v, w, m := en.v, en.w, en.m
	gone := map[*scen.C]bool{}
	victimKind := c.Victim
	if c.Abort {
		victimKind = "leave" // whatever it was doing, the victim is gone afterwards
	}
	switch victimKind {
	case "leave", "lastleave":
		gone[v] = true
		if ok, _ := scen.Departed(p, v, 8*time.Second); !ok {
			res.Findings = append(res.Findings, wedgeOrInconclusive(p, c, "the departing connection's handler never returned after the release"))
			return
		}
	}
	switch c.Victim {
	case "create":
		gone[m], gone[w] = true, true
		if en.visitor != nil {
			en.visitor.Close()
			gone[en.visitor] = true
		}
	case "join":
		gone[en.x] = true
	case "compadd-vs-leave", "action-vs-leave", "join-vs-lastleave", "switch-vs-lastleave":
		gone[en.o] = true
	}
	if c.Victim2 == "leave2" {
		gone[en.v2] = true
		if ok, _ := scen.Departed(p, en.v2, 8*time.Second); !ok {
			res.Findings = append(res.Findings, wedgeOrInconclusive(p, c, "the second departing connection's handler never returned after the release"))
			return
		}
	}
	barrierAll := func() {
		for _, cl := range en.all() {
			if gone[cl] {
				continue
			}
			if _, err := cl.Barrier(); err != nil {
				panic(fmt.Errorf("barrier on a live connection: %w", err))
			}
		}
	}
	barrierAll()
	if !gone[m] {
		if ok, reason, err := p.WaitTicks(en.sid, 3, 10*time.Second); err != nil || !ok {
			res.Inconclusive = fmt.Sprintf("%s: frame barrier failed: %s %v", c, reason, err)
			return
		}
		barrierAll()
	}
	if c.Victim == "join-vs-lastleave" || c.Victim == "switch-vs-lastleave" {
		live := en.judgeJoinVsLastLeave(c, res, gone)
		if len(res.Findings) > 0 || res.Inconclusive != "" {
			return
		}
		res.Findings = append(res.Findings, registryQuiescent(p, en.base, live, "step-through/"+c.Victim)...)
		closed = true
		en.close()
		if len(res.Findings) == 0 {
			res.Findings = append(res.Findings, registryQuiescent(p, en.base, 0, "step-through/"+c.Victim+"/after-all-left")...)
		}
		return
	}
	// the victim's answer
	if !c.Abort && (c.Victim == "join" || c.Victim == "switch" || c.Victim == "create") {
		n := 0
		for _, e := range v.LogCopy() {
			if jr, ok := e.M.(*hagallpb.ParticipantJoinResponse); ok && (c.Victim == "create" || jr.SessionId == en.sid) && (c.Victim != "switch" || jr.SessionId != en.oldSID) {
				v.PID, v.SID, v.UUID = jr.ParticipantId, jr.SessionId, jr.SessionUuid
				n++
			}
			// a creation whose session a visitor found and ended before its creator
			// was in it may be refused instead (once)
			if er, ok := e.M.(*hagallpb.ErrorResponse); ok && c.Victim == "create" && len(en.visited) > 0 && er.RequestId != 0 {
				n++
			}
		}
		if n != 1 {
			res.Findings = append(res.Findings, sf([]string{"C04", "C02"}, "step/answer-exactly-once", c, "the victim's join got %d success answers; its stream: %v", n, v.LogCopy()))
			return
		}
	}
	if c.Victim2 == "join2" {
		ok, refused := 0, 0
		for _, e := range en.v2.LogCopy() {
			switch x := e.M.(type) {
			case *hagallpb.ParticipantJoinResponse:
				en.v2.PID, en.v2.SID, en.v2.UUID = x.ParticipantId, x.SessionId, x.SessionUuid
				ok++
			case *hagallpb.ErrorResponse:
				if x.RequestId != 0 {
					refused++
				}
			}
		}
		if ok+refused != 1 {
			res.Findings = append(res.Findings, sf([]string{"C04", "C02"}, "step/answer-exactly-once", c, "the second victim's join got %d success and %d error answers; its stream: %v", ok, refused, en.v2.LogCopy()))
			return
		}
	}
	if c.Victim == "sub-vs-sub" && !c.Abort {
		// both subscribes were answered with success: a later update of the type reaches both
		okV := false
		for _, e := range v.LogCopy() {
			if e.Type == d.TSubResp {
				okV = true
			}
		}
		if !okV {
			res.Findings = append(res.Findings, sf([]string{"C13", "C04"}, "subscription/not-answered", c, "the victim's subscribe was not answered with success; its stream: %v", v.LogCopy()))
			return
		}
		must(m.UpdateComp(en.t3, en.e0, "s1"))
		barrierAll()
		if ok, reason, err := p.WaitTicks(en.sid, 3, 10*time.Second); err != nil || !ok {
			res.Inconclusive = fmt.Sprintf("%s: frame barrier failed: %s %v", c, reason, err)
			return
		}
		barrierAll()
		for _, sub := range []struct {
			who string
			c   *scen.C
		}{{"the victim", v}, {"the member that subscribed at the same time", en.o}} {
			n := 0
			for _, e := range sub.c.LogCopy() {
				if u, ok := e.M.(*hagallpb.EntityComponentUpdateBroadcast); ok && u.EntityComponent.GetEntityComponentTypeId() == en.t3 && string(u.EntityComponent.GetData()) == "s1" {
					n++
				}
			}
			if n != 1 {
				res.Findings = append(res.Findings, sf([]string{"C13"}, "subscription/lost", c, "two members subscribed to a type at the same time, as its first subscribers, and both were answered with success; %s received %d notifications of a later update of that type (want 1)", sub.who, n))
			}
		}
		if len(res.Findings) > 0 {
			return
		}
	}
	// --- C11: every member of the session still has its pose updates relayed
	// (its frame handler is registered): each adds an entity and moves it once
	if !gone[m] && !gone[w] {
		type poser struct {
			who string
			c   *scen.C
			e   uint32
			px  float32
		}
		var posers []*poser
		for i, cand := range []struct {
			who string
			c   *scen.C
		}{{"the mutator", m}, {"the newcomer that joined while the victim was parked", en.n}, {"the victim", v}, {"the second victim", en.v2}} {
			if cand.c == nil || gone[cand.c] {
				continue
			}
			if cand.c == v && (c.Victim == "create" || c.Victim == "lastleave") {
				continue
			}
			if cand.c == en.v2 && (c.Victim2 != "join2" || en.target != en.sid) {
				continue
			}
			e, err := cand.c.AddEntity(true, 50)
			must(err)
			if e == 0 {
				continue // not a member of the session (a refused join)
			}
			ps := &poser{cand.who, cand.c, e, float32(7000 + i)}
			_, err = cand.c.Pose(e, ps.px)
			must(err)
			if en.own == nil {
				en.own = map[*scen.C]model.Entity{}
			}
			en.own[cand.c] = model.Entity{ID: e, Owner: cand.c.PID, Persist: true, Pose: model.Pose{ps.px, 0, 0, 0, 0, 0, 1}}
			posers = append(posers, ps)
		}
		barrierAll()
		if ok, reason, err := p.WaitTicks(en.sid, 4, 10*time.Second); err != nil || !ok {
			res.Inconclusive = fmt.Sprintf("%s: frame barrier failed: %s %v", c, reason, err)
			return
		}
		barrierAll()
		for _, ps := range posers {
			seen := false
			for _, e := range w.LogCopy() {
				if pb, ok := e.M.(*hagallpb.EntityUpdatePoseBroadcast); ok && pb.EntityId == ps.e && pb.Pose.GetPx() == ps.px {
					seen = true
				}
			}
			if !seen {
				res.Findings = append(res.Findings, sf([]string{"C11", "C07", "C09", "C03"}, "pose/never-relayed", c, "%s moved its entity %d; four frames later the witness has not been relayed the pose: the member's pending updates are no longer flushed", ps.who, ps.e))
			}
		}
		if len(res.Findings) > 0 {
			return
		}
	}
	// --- C07 / C10: every connection that was answered with a successful join
	// and is still open is in a live session that can be found under its id
	type claim struct {
		who string
		c   *scen.C
	}
	var claims []claim
	for _, cl := range []claim{{"the mutator", m}, {"the witness", w}, {"the victim", v}, {"the second victim", en.v2}, {"the newcomer", en.n}, {"the joiner of the victim's old session", en.n2}, {"a creator", en.c1}, {"a second creator", en.c2}} {
		if cl.c != nil && !gone[cl.c] && cl.c.SID != "" {
			claims = append(claims, cl)
		}
	}
	uuidOf := map[string]string{}
	probes := map[string]*scen.Snapshot{}
	for _, cl := range claims {
		if u, ok := uuidOf[cl.c.SID]; ok {
			if u != cl.c.UUID {
				res.Findings = append(res.Findings, sf([]string{"C10", "C07"}, "registry/two-live-sessions-one-id", c, "%s is in session %s uuid %s while another open connection is in session %s uuid %s: two live sessions share an id", cl.who, cl.c.SID, cl.c.UUID, cl.c.SID, u))
			}
			continue
		}
		uuidOf[cl.c.SID] = cl.c.UUID
	}
	if len(res.Findings) > 0 {
		return
	}
	for _, cl := range claims {
		snap := probes[cl.c.SID]
		if snap == nil {
			var err error
			snap, err = scen.Probe(p, cl.c.SID, "vod")
			must(err)
			probes[cl.c.SID] = snap
		}
		switch {
		case !snap.Found:
			// (a session made unjoinable by what happens in another one is also a breach of isolation)
			res.Findings = append(res.Findings, sf([]string{"C07", "C03"}, "join/orphaned", c, "%s was answered with a successful join (session %s uuid %s participant %d) and is still connected, but a probe joining by that id gets error %d", cl.who, cl.c.SID, cl.c.UUID, cl.c.PID, snap.Code))
		case snap.Join.SessionUuid != cl.c.UUID:
			res.Findings = append(res.Findings, sf([]string{"C07", "C10"}, "join/orphaned", c, "%s is in session %s uuid %s but that id now names uuid %s", cl.who, cl.c.SID, cl.c.UUID, snap.Join.SessionUuid))
		default:
			found := false
			for _, pp := range snap.State.GetParticipants() {
				if pp.Id == cl.c.PID {
					found = true
				}
			}
			if !found {
				res.Findings = append(res.Findings, sf([]string{"C07", "C01"}, "join/participant-missing", c, "%s (participant %d of session %s) is not among the participants handed to a probe: %v", cl.who, cl.c.PID, cl.c.SID, snap.State.GetParticipants()))
			}
		}
	}
	if len(res.Findings) > 0 {
		return
	}
	barrierAll()
	if (c.Victim == "switch" || c.Victim == "lastleave") && !en.n2ok && !(c.Victim2 == "join2" && en.v2.SID == en.oldSID && en.v2.UUID == en.oldUUID) {
		// nobody is left in the victim's old session: it must have ended
		old, err := scen.Probe(p, en.oldSID, "vod")
		must(err)
		if old.Found && old.Join.SessionUuid == en.oldUUID {
			res.Findings = append(res.Findings, sf([]string{"C07", "C06"}, "registry/ended-session-still-findable", c, "the session %s that the victim left as its last member (the overlapping join by id was refused) can still be joined", en.oldSID))
			return
		}
	}
	if (c.Victim == "switch" || c.Victim == "lastleave") && en.n2ok && !gone[en.n2] && en.n2.UUID == en.oldUUID {
		en.planesKept(c, res, en.n2, "a connection joined it by id while its only member was leaving")
		if len(res.Findings) > 0 {
			return
		}
	}
	if (c.Victim == "switch" || c.Victim == "lastleave") && en.n2ok && !gone[en.n2] {
		// the connection that joined the victim's old session while the victim was
		// leaving it: what it was handed plus what it was relayed is what a probe is handed
		if snap := probes[en.oldSID]; snap != nil && snap.Found {
			old := stateFromProbe(snap)
			nv := foldLog(en.n2)
			if diff := nv.Diff(old, "vod"); len(diff) > 0 {
				res.Findings = append(res.Findings, sf([]string{"C06", "C01"}, "view/diverged-after-step", c, "the view of the connection that joined the session the victim was leaving as its last member differs from the state handed to a probe: %s\n   its stream: %v", strings.Join(diff, "; "), en.n2.LogCopy()))
				return
			}
		}
	}
	live := len(uuidOf)
	if c.Victim != "create" && c.Victim != "lastleave" {
		en.judgeSession(c, res, probes[en.sid])
	}
	if len(res.Findings) > 0 {
		return
	}
	// --- C06: "its component-type subscriptions end". Component adds are
	// relayed (to everybody) exactly while the type has a subscriber: after the
	// only subscriber of a type has gone, an add of that type reaches no one.
	if !gone[m] && !gone[w] && c.Victim != "create" && c.Victim != "lastleave" {
		type ended struct {
			t   uint32
			who string
		}
		var ends []ended
		if en.subV && gone[v] {
			ends = append(ends, ended{en.t4, "the victim"})
		}
		if en.subL && ((en.x != nil && gone[en.x]) || (en.o != nil && gone[en.o])) {
			ends = append(ends, ended{en.t5, "the member that left while the victim was parked"})
		}
		for _, x := range ends {
			a, err := m.AddComp(x.t, en.e0, "after-departure")
			must(err)
			if a == nil || a.Type != d.TCompAddResp {
				panic(fmt.Sprintf("the subscription probe's add was not accepted: %v", a))
			}
			barrierAll()
			for _, cl := range en.all() {
				if gone[cl] || cl.SID != en.sid {
					continue
				}
				for _, e := range cl.LogCopy() {
					if b, ok := e.M.(*hagallpb.EntityComponentAddBroadcast); ok && b.EntityComponent.GetEntityComponentTypeId() == x.t {
						res.Findings = append(res.Findings, sf([]string{"C06", "C13"}, "departure/subscription-survives", c, "%s was the only subscriber of component type %d and has left the session; a later add of that type is still relayed (to participant %d): the leaver's subscription did not end", x.who, x.t, cl.PID))
					}
				}
			}
			if len(res.Findings) > 0 {
				return
			}
		}
	}
	res.Findings = append(res.Findings, registryQuiescent(p, en.base, live, "step-through/"+c.Victim)...)
	closed = true
	en.close()
	if len(res.Findings) == 0 {
		res.Findings = append(res.Findings, registryQuiescent(p, en.base, 0, "step-through/"+c.Victim+"/after-all-left")...)
	}
	return
}

// judgeSession: C01 / C02 / C06 on the main session.
func (en *stepEnv) judgeSession(c StepCase, res *StepResult, snap *scen.Snapshot) {
	v, w := en.v, en.w
	server := stateFromProbe(snap)
	// referential integrity of what a newcomer is handed (for a departure:
	// "removed together with everything attached to them", C06)
	dep := []string{}
	if c.Victim == "leave" || strings.HasSuffix(c.Victim, "-vs-leave") || c.Abort {
		dep = []string{"C06"}
	}
	for k := range server.Comps {
		if _, ok := server.Entities[k.Entity]; !ok {
			res.Findings = append(res.Findings, sf(append([]string{"C12", "C01"}, dep...), "integrity/component-without-entity", c, "a probe is handed component (type %d, entity %d) but no entity %d", k.Type, k.Entity, k.Entity))
		}
	}
	for k := range server.Actions {
		if _, ok := server.Entities[k.Entity]; !ok {
			res.Findings = append(res.Findings, sf(append([]string{"C16", "C01"}, dep...), "integrity/action-without-entity", c, "a probe is handed action (%d, %q) but no entity %d", k.Entity, k.Name, k.Entity))
		}
	}
	for e := range server.Assets {
		if _, ok := server.Entities[e]; !ok {
			res.Findings = append(res.Findings, sf(append([]string{"C16", "C01"}, dep...), "integrity/asset-without-entity", c, "a probe is handed an asset instance on entity %d but no such entity", e))
		}
	}
	if len(res.Findings) > 0 {
		return
	}
	count := func(cl *scen.C) map[string]int {
		n := map[string]int{}
		for _, e := range cl.LogCopy() {
			switch x := e.M.(type) {
			case *hagallpb.EntityAddBroadcast:
				n[fmt.Sprint("entity-add ", x.Entity.GetId())]++
			case *hagallpb.EntityDeleteBroadcast:
				n[fmt.Sprint("entity-delete ", x.EntityId)]++
			case *hagallpb.EntityComponentAddBroadcast:
				n[fmt.Sprintf("comp-add %q", x.EntityComponent.GetData())]++
			case *hagallpb.EntityComponentUpdateBroadcast:
				n[fmt.Sprintf("comp-update %q", x.EntityComponent.GetData())]++
			case *vikjapb.EntityActionBroadcast:
				n[fmt.Sprintf("action %q", x.EntityAction.GetData())]++
			case *odalpb.AssetInstanceAddBroadcast:
				n[fmt.Sprintf("asset %q", x.AssetInstance.GetAssetId())]++
			case *hagallpb.CustomMessageBroadcast:
				n[fmt.Sprintf("custom %q", x.Body)]++
			case *hagallpb.ParticipantJoinBroadcast:
				n[fmt.Sprint("join ", x.ParticipantId)]++
			case *hagallpb.ParticipantLeaveBroadcast:
				n[fmt.Sprint("leave ", x.ParticipantId)]++
			}
		}
		return n
	}
	script := []string{fmt.Sprint("entity-add ", en.eN), fmt.Sprint("entity-delete ", en.eDel), `comp-add "cn"`, `comp-update "c1"`, `action "y"`, `action "n"`, `asset "as1"`, `custom "step-custom"`}
	wn := count(w)
	for _, k := range script {
		if wn[k] != 1 {
			res.Findings = append(res.Findings, sf([]string{"C02"}, "relay/not-exactly-once", c, "the witness (a member throughout, subscribed to the component type) received %d relays of the mutator's accepted %s", wn[k], k))
		}
	}
	if k := fmt.Sprint("join ", en.n.PID); wn[k] != 1 {
		res.Findings = append(res.Findings, sf([]string{"C02", "C01"}, "relay/join-not-exactly-once", c, "the witness received %d join relays for the newcomer (participant %d)", wn[k], en.n.PID))
	}
	for _, late := range []*scen.C{en.n, v} {
		if late == en.v && c.Victim != "join" && c.Victim != "switch" {
			continue
		}
		ln := count(late)
		for _, k := range script {
			if ln[k] > 1 {
				res.Findings = append(res.Findings, sf([]string{"C02"}, "relay/duplicate", c, "a connection that joined during the run received %d relays of the mutator's %s", ln[k], k))
			}
		}
	}
	if !c.Abort && (c.Victim == "join" || c.Victim == "switch") {
		if k := fmt.Sprint("join ", v.PID); wn[k] != 1 {
			res.Findings = append(res.Findings, sf([]string{"C02", "C01"}, "relay/join-not-exactly-once", c, "the witness received %d join relays for the victim (participant %d)", wn[k], v.PID))
		}
	}
	departedChecks := func(who string, l *scen.C, np, pe uint32) {
		if k := fmt.Sprint("leave ", l.PID); wn[k] != 1 {
			res.Findings = append(res.Findings, sf([]string{"C06", "C02"}, "departure/leave-relay-not-exactly-once", c, "the witness received %d leave relays for %s (participant %d)", wn[k], who, l.PID))
		}
		if np != 0 {
			if k := fmt.Sprint("entity-delete ", np); wn[k] != 1 {
				res.Findings = append(res.Findings, sf([]string{"C06", "C02"}, "departure/entity-delete-relay-not-exactly-once", c, "the witness received %d delete relays for the non-persistent entity %d of %s", wn[k], np, who))
			}
			if _, ok := server.Entities[np]; ok {
				res.Findings = append(res.Findings, sf([]string{"C06"}, "departure/non-persistent-entity-survives", c, "entity %d of %s is still handed to a probe", np, who))
			}
			for k := range server.Comps {
				if k.Entity == np {
					res.Findings = append(res.Findings, sf([]string{"C06", "C12"}, "departure/component-survives", c, "a component of the removed entity %d is still handed to a probe", np))
				}
			}
			if _, ok := server.Assets[np]; ok {
				res.Findings = append(res.Findings, sf([]string{"C06", "C14"}, "departure/asset-survives", c, "the asset instance on the removed entity %d is still handed to a probe", np))
			}
			for k := range server.Actions {
				if k.Entity == np {
					res.Findings = append(res.Findings, sf([]string{"C06", "C13"}, "departure/action-survives", c, "an action on the removed entity %d is still handed to a probe", np))
				}
			}
		}
		if pe != 0 {
			if k := fmt.Sprint("entity-delete ", pe); wn[k] != 0 {
				res.Findings = append(res.Findings, sf([]string{"C06"}, "departure/persistent-entity-deleted", c, "the witness received %d delete relays for the persistent entity %d of %s", wn[k], pe, who))
			}
			if _, ok := server.Entities[pe]; !ok {
				res.Findings = append(res.Findings, sf([]string{"C06"}, "departure/persistent-entity-lost", c, "persistent entity %d of %s is not handed to a probe", pe, who))
			}
		}
		if server.Participants[l.PID] {
			res.Findings = append(res.Findings, sf([]string{"C06"}, "departure/participant-survives", c, "%s (participant %d) is still listed", who, l.PID))
		}
	}
	if c.Victim == "leave" || c.Abort && c.Victim == "delete" {
		departedChecks("the departed victim", v, en.vNP, en.vP)
	}
	if c.Abort && (strings.HasPrefix(c.Victim, "compadd-") || strings.HasPrefix(c.Victim, "action-")) {
		departedChecks("the victim, whose client reset the connection", v, 0, 0)
	}
	if c.Victim == "join" {
		departedChecks("the member that left while the victim was parked", en.x, 0, 0)
	}
	if c.Victim2 == "leave2" && en.target == en.sid {
		departedChecks("the second victim (a member that left)", en.v2, en.v2NP, 0)
	}
	if c.Victim2 == "join2" && en.v2.SID == en.sid {
		if k := fmt.Sprint("join ", en.v2.PID); wn[k] != 1 {
			res.Findings = append(res.Findings, sf([]string{"C02", "C01"}, "relay/join-not-exactly-once", c, "the witness received %d join relays for the second victim (participant %d)", wn[k], en.v2.PID))
		}
	}
	if strings.HasSuffix(c.Victim, "-vs-leave") {
		departedChecks("the owner that left while the victim was attaching to its entity", en.o, en.eO, 0)
	}
	if c.Victim == "customto-vs-customto" {
		cnt := func(cl *scen.C, body string) int {
			n := 0
			for _, e := range cl.LogCopy() {
				if cm, ok := e.M.(*hagallpb.CustomMessageBroadcast); ok && string(cm.Body) == body {
					n++
				}
			}
			return n
		}
		for _, x := range []struct {
			who  string
			c    *scen.C
			body string
			want int
		}{{"the witness (addressee of the victim's message)", w, "victim-to-witness", 1}, {"the witness", w, "mutator-to-other", 0},
			{"the other member (addressee of the mutator's messages)", en.o, "mutator-to-other", 3}, {"the other member", en.o, "victim-to-witness", 0},
			{"the mutator (second addressee of the victim's message)", en.m, "victim-to-witness", 1}, {"the victim", v, "mutator-to-other", 0}} {
			if x.c == v && c.Abort {
				continue
			}
			want := x.want
			if x.body == "victim-to-witness" && c.Abort && want == 1 {
				continue // the victim's connection was reset: its message may or may not have been handled
			}
			if got := cnt(x.c, x.body); got != want {
				res.Findings = append(res.Findings, sf([]string{"C14", "C02"}, "custom/addressed-delivery", c, "%s received the addressed custom message %q %d times (want %d): two addressed messages sent in one session at the same time", x.who, x.body, got, want))
			}
		}
	}
	if c.Victim == "compadd-vs-compadd" && !c.Abort {
		victimOK := false
		for _, e := range v.LogCopy() {
			if e.Type == d.TCompAddResp {
				victimOK = true
			}
		}
		data, have := server.Comps[model.CompKey{Type: en.t2, Entity: en.e0}]
		switch {
		case victimOK && en.mutatorAddOK:
			res.Findings = append(res.Findings, sf([]string{"C04", "C12"}, "component/two-adds-of-one-key-accepted", c, "two connections added a component for the same (type %d, entity %d) at the same time and both were answered with success (one must be a conflict); the server holds %q", en.t2, en.e0, data))
		case !victimOK && !en.mutatorAddOK:
			res.Findings = append(res.Findings, sf([]string{"C04", "C12"}, "component/no-add-of-the-key-accepted", c, "two connections added a component for the same free (type %d, entity %d) at the same time and both were refused", en.t2, en.e0))
		case !have:
			res.Findings = append(res.Findings, sf([]string{"C12"}, "component/accepted-add-not-stored", c, "an accepted add of (type %d, entity %d) is not handed to a probe", en.t2, en.e0))
		case victimOK && string(data) != "by-victim" || en.mutatorAddOK && string(data) != "by-mutator":
			res.Findings = append(res.Findings, sf([]string{"C12", "C04"}, "component/refused-add-stored", c, "the server holds %q for (type %d, entity %d) although that add was refused (victim accepted=%v, mutator accepted=%v)", data, en.t2, en.e0, victimOK, en.mutatorAddOK))
		}
	}
	if !c.Abort && (c.Victim == "entityadd" || c.Victim == "compdel" || c.Victim == "assetadd" || c.Victim == "custom") {
		// the victim's request: answered exactly once (the broadcast custom message:
		// not at all), relayed exactly once to the witness, at most once to the
		// newcomer (which joined while it was in progress), never to the victim
		answers := 0
		for _, e := range v.LogCopy()[en.vLog0:] {
			if e.M == nil || e.Type == d.TPingResp {
				continue
			}
			if f := e.M.ProtoReflect().Descriptor().Fields().ByName("request_id"); f != nil && en.vReq != 0 && uint32(e.M.ProtoReflect().Get(f).Uint()) == en.vReq {
				answers++
			}
		}
		want := 1
		if c.Victim == "custom" {
			want = 0
		}
		if answers != want {
			res.Findings = append(res.Findings, sf([]string{"C04"}, "step/answer-exactly-once", c, "the victim's request got %d answers (want %d); its stream: %v", answers, want, v.LogCopy()))
		}
		relays := func(cl *scen.C) int {
			n := 0
			for _, e := range cl.LogCopy() {
				switch x := e.M.(type) {
				case *hagallpb.EntityAddBroadcast:
					if c.Victim == "entityadd" && x.Entity.GetParticipantId() == v.PID && x.Entity.GetPose().GetPx() == 33 {
						n++
					}
				case *hagallpb.EntityComponentDeleteBroadcast:
					if c.Victim == "compdel" && x.EntityComponent.GetEntityId() == en.vE && x.EntityComponent.GetEntityComponentTypeId() == en.t {
						n++
					}
				case *odalpb.AssetInstanceAddBroadcast:
					if c.Victim == "assetadd" && x.AssetInstance.GetAssetId() == "victim-asset" {
						n++
					}
				case *hagallpb.CustomMessageBroadcast:
					if c.Victim == "custom" && string(x.Body) == "victim-broadcast" {
						n++
					}
				}
			}
			return n
		}
		if got := relays(w); got != 1 {
			res.Findings = append(res.Findings, sf([]string{"C02"}, "relay/not-exactly-once", c, "the witness, a member throughout, received %d relays of the victim's request (want 1)", got))
		}
		if en.n != nil {
			if got := relays(en.n); got > 1 {
				res.Findings = append(res.Findings, sf([]string{"C02"}, "relay/not-exactly-once", c, "the newcomer received %d relays of the victim's request", got))
			}
		}
		if got := relays(v); got != 0 {
			res.Findings = append(res.Findings, sf([]string{"C02"}, "relay/echoed-to-sender", c, "the victim received %d relays of its own request", got))
		}
	}
	if c.Victim == "compupd-vs-unsub" {
		answered := false
		for _, e := range en.o.LogCopy() {
			if e.Type == d.TUnsubResp {
				answered = true
				continue
			}
			if u, ok := e.M.(*hagallpb.EntityComponentUpdateBroadcast); ok && answered && u.EntityComponent.GetEntityComponentTypeId() == en.t {
				res.Findings = append(res.Findings, sf([]string{"C13"}, "subscription/notified-after-unsubscribe-was-answered", c, "a participant whose unsubscribe of type %d had been answered received a later update notification of that type (data %q)", en.t, u.EntityComponent.GetData()))
			}
		}
	}
	if c.Victim == "action-vs-action" {
		// both actions were accepted (or the older one refused): the server keeps the latest timestamp
		got := server.Actions[model.ActKey{Entity: en.e0, Name: "a0"}]
		if got.Sec != 1_700_000_100 || string(got.Data) != "y" {
			res.Findings = append(res.Findings, sf([]string{"C16"}, "action/latest-timestamp-not-kept", c, "an action with timestamp 1700000100 was accepted for (entity %d, \"a0\") while another connection was setting one with timestamp 1700000050 on the same key; a probe is handed timestamp %d data %q: the older action replaced the newer one", en.e0, got.Sec, got.Data))
		}
	}
	if !c.Abort && (strings.HasPrefix(c.Victim, "compadd-") || strings.HasPrefix(c.Victim, "action-")) {
		// the victim's request is answered exactly once
		n := 0
		for _, e := range v.LogCopy() {
			switch x := e.M.(type) {
			case *hagallpb.EntityComponentAddResponse, *vikjapb.EntityActionResponse:
				n++
			case *hagallpb.ErrorResponse:
				if x.RequestId != 0 {
					n++
				}
			}
		}
		// setup requests of the victim: none besides the join (answered with a join response)
		if n != 1 {
			res.Findings = append(res.Findings, sf([]string{"C04"}, "step/answer-exactly-once", c, "the victim's attach request got %d answers; its stream: %v", n, v.LogCopy()))
		}
	}
	if c.Victim == "delete" {
		if k := fmt.Sprint("entity-delete ", en.vNP); wn[k] != 1 {
			res.Findings = append(res.Findings, sf([]string{"C02"}, "relay/not-exactly-once", c, "the witness received %d delete relays for the victim's deleted entity %d", wn[k], en.vNP))
		}
	}
	if len(res.Findings) > 0 {
		return
	}
	// --- C01: views of everybody who only listens
	views := []struct {
		who string
		c   *scen.C
		sub []uint32
	}{{"the witness", w, []uint32{en.t, en.t2}}, {"the newcomer that joined while the victim was parked", en.n, nil}}
	if !c.Abort && (c.Victim == "join" || c.Victim == "switch") {
		views = append(views, struct {
			who string
			c   *scen.C
			sub []uint32
		}{"the victim", v, nil})
	}
	if c.Victim2 == "join2" && en.v2.SID == en.sid {
		views = append(views, struct {
			who string
			c   *scen.C
			sub []uint32
		}{"the second victim", en.v2, nil})
	}
	for _, vw := range views {
		vv := foldLog(vw.c, vw.sub...)
		if oe, ok := en.own[vw.c]; ok {
			vv.Entities[oe.ID] = oe
		}
		if diff := vv.Diff(server, "vod"); len(diff) > 0 {
			props := []string{"C01"}
			for _, dl := range diff {
				if strings.HasPrefix(dl, "action") || strings.HasPrefix(dl, "asset") {
					props = []string{"C01", "C16"}
				}
			}
			res.Findings = append(res.Findings, sf(props, "view/diverged-after-step", c, "the view of %s (state handed on joining + relays received, applied on top) differs from the state handed to a probe: %s\n   its stream: %v", vw.who, strings.Join(diff, "; "), vw.c.LogCopy()))
		}
	}
}

func wedgeOrInconclusive(p *sut.Proc, c StepCase, what string) *check.Finding {
	d1, _ := p.Goroutines()
	time.Sleep(500 * time.Millisecond)
	d2, _ := p.Goroutines()
	if stuck := stuckIn(d1, d2); len(stuck) > 0 {
		return sf([]string{"C09", "C08", "C06", "C04"}, "liveness/wedged", c, "%s; goroutines parked in relay code across two dumps: %v", what, stuck)
	}
	return &check.Finding{Clause: "inconclusive", Trigger: "step-through/" + c.Victim, Detail: what + " (no goroutine parked in relay code: not decided)"}
}

// judgeJoinVsLastLeave: the victim joined, by id, a session whose only member
// left at the same time (C07: "a join that is answered with success always
// leaves the participant in a live session that others can find under the
// returned id"; a live session relays its members' pose updates, C11).
// Returns the number of live sessions.
func (en *stepEnv) judgeJoinVsLastLeave(c StepCase, res *StepResult, gone map[*scen.C]bool) (live int) {
	p, v := en.p, en.v
	live = 1 // the bystander session of the mutator and the witness
	ended := func(why string) {
		old, err := scen.Probe(p, en.oldSID, "vod")
		must(err)
		if old.Found && old.Join.SessionUuid == en.oldUUID {
			res.Findings = append(res.Findings, sf([]string{"C07", "C06"}, "registry/ended-session-still-findable", c, "%s, and its only member has left: session %s (uuid %s) can still be joined", why, en.oldSID, en.oldUUID))
		}
	}
	if c.Abort {
		ended("the victim's connection was reset while it was joining")
		return
	}
	ok, refused := 0, 0
	for _, e := range v.LogCopy()[en.vLog0:] {
		switch x := e.M.(type) {
		case *hagallpb.ParticipantJoinResponse:
			v.PID, v.SID, v.UUID = x.ParticipantId, x.SessionId, x.SessionUuid
			ok++
		case *hagallpb.ErrorResponse:
			if x.RequestId != 0 {
				refused++
			}
		}
	}
	if ok+refused != 1 {
		res.Findings = append(res.Findings, sf([]string{"C04", "C07"}, "step/answer-exactly-once", c, "the victim's join got %d success and %d error answers; its stream: %v", ok, refused, v.LogCopy()))
		return
	}
	if refused == 1 {
		ended("the victim's join by id was refused")
		if c.Victim == "switch-vs-lastleave" && len(res.Findings) == 0 {
			// a refused join changes nothing: the victim is still a member of the
			// session it wanted to leave, with its entity, and nobody there was
			// told otherwise (C02: a refused request is relayed to no one)
			if _, err := en.w.Barrier(); err != nil {
				panic(err)
			}
			for _, e := range en.w.LogCopy() {
				switch x := e.M.(type) {
				case *hagallpb.ParticipantLeaveBroadcast:
					if x.ParticipantId == en.vOldPID {
						res.Findings = append(res.Findings, sf([]string{"C02", "C04", "C06"}, "refused/relayed", c, "the victim's switch to session %s was refused (its only member had just left), yet the witness of the session the victim is in was relayed the victim's departure", en.oldSID))
						return
					}
				case *hagallpb.EntityDeleteBroadcast:
					if x.EntityId == en.vNP {
						res.Findings = append(res.Findings, sf([]string{"C02", "C04", "C06"}, "refused/relayed", c, "the victim's switch to session %s was refused, yet the witness of the session the victim is in was relayed the deletion of the victim's entity %d", en.oldSID, en.vNP))
						return
					}
				}
			}
			snap, err := scen.Probe(p, en.sid, "vod")
			must(err)
			member := false
			for _, pp := range snap.State.GetParticipants() {
				if pp.Id == en.vOldPID {
					member = true
				}
			}
			if !member {
				res.Findings = append(res.Findings, sf([]string{"C04", "C07"}, "refused/changed-state", c, "the victim's switch was refused, but a probe of the session it is in no longer lists it (participant %d)", en.vOldPID))
				return
			}
			if id, err := v.AddEntity(false, 8); err != nil || id == 0 {
				res.Findings = append(res.Findings, sf([]string{"C04", "C07"}, "refused/changed-state", c, "the victim's switch was refused, but it can no longer add an entity in the session it is in (%v)", err))
			}
		}
		return
	}
	live = 2
	if v.SID != en.oldSID || v.UUID != en.oldUUID {
		res.Findings = append(res.Findings, sf([]string{"C07", "C10"}, "join/orphaned", c, "the victim asked for session %s (uuid %s) and was answered with session %s uuid %s", en.oldSID, en.oldUUID, v.SID, v.UUID))
		return
	}
	snap, err := scen.Probe(p, v.SID, "vod")
	must(err)
	switch {
	case !snap.Found:
		res.Findings = append(res.Findings, sf([]string{"C07"}, "join/orphaned", c, "the victim was answered with a successful join (session %s uuid %s participant %d) and is still connected, but a probe joining by that id gets error %d", v.SID, v.UUID, v.PID, snap.Code))
		return
	case snap.Join.SessionUuid != v.UUID:
		res.Findings = append(res.Findings, sf([]string{"C07", "C10"}, "join/orphaned", c, "the victim is in session %s uuid %s but that id now names uuid %s", v.SID, v.UUID, snap.Join.SessionUuid))
		return
	}
	found := false
	for _, pp := range snap.State.GetParticipants() {
		if pp.Id == v.PID {
			found = true
		}
	}
	if !found {
		res.Findings = append(res.Findings, sf([]string{"C07", "C01"}, "join/participant-missing", c, "the victim (participant %d of session %s) is not among the participants handed to a probe: %v", v.PID, v.SID, snap.State.GetParticipants()))
		return
	}
	// what the victim was handed plus what it was relayed (the other member's
	// departure) is what a probe is handed
	if _, err := v.Barrier(); err != nil {
		panic(err)
	}
	if diff := foldLog(v).Diff(stateFromProbe(snap), "vod"); len(diff) > 0 {
		res.Findings = append(res.Findings, sf([]string{"C06", "C01"}, "view/diverged-after-step", c, "the view of the victim, which joined a session while its only member left, differs from the state handed to a probe: %s\n   its stream: %v", strings.Join(diff, "; "), v.LogCopy()))
		return
	}
	// the session lived on: so did its ground planes
	en.planesKept(c, res, v, "the victim joined it while its only other member left")
	if len(res.Findings) > 0 {
		return
	}
	// the session is live: a newcomer is relayed the victim's pose updates
	n := scen.MustDial(p, "vod")
	en.extra = append(en.extra, n)
	jr, _, err := n.Join(v.SID)
	must(err)
	if jr == nil || jr.SessionUuid != v.UUID {
		res.Findings = append(res.Findings, sf([]string{"C07"}, "join/orphaned", c, "a newcomer cannot join the victim's session %s (uuid %s): %v", v.SID, v.UUID, jr))
		return
	}
	e, err := v.AddEntity(true, 50)
	must(err)
	if e == 0 {
		res.Findings = append(res.Findings, sf([]string{"C07", "C05"}, "join/participant-missing", c, "the victim, answered with a successful join of %s, cannot add an entity there", v.SID))
		return
	}
	_, err = v.Pose(e, 7100)
	must(err)
	if _, err := v.Barrier(); err != nil {
		panic(err)
	}
	if ok, reason, err := p.WaitTicks(v.SID, 4, 10*time.Second); err != nil || !ok {
		// no frame in ten seconds; does the bystander session's worker tick?
		if ok2, _, err2 := p.WaitTicks(en.sid, 4, 10*time.Second); err2 == nil && ok2 {
			res.Findings = append(res.Findings, sf([]string{"C07", "C11"}, "session/frame-worker-dead", c, "the victim joined session %s while its only member left; the session is live (joinable, the victim is its member) but its frame worker made no progress in 10 s (%s) while another session's did: pose and component updates are never relayed there", v.SID, reason))
			return
		}
		res.Inconclusive = fmt.Sprintf("%s: frame barrier failed: %s %v", c, reason, err)
		return
	}
	if _, err := n.Barrier(); err != nil {
		panic(err)
	}
	seen := false
	for _, ev := range n.LogCopy() {
		if pb, ok := ev.M.(*hagallpb.EntityUpdatePoseBroadcast); ok && pb.EntityId == e && pb.Pose.GetPx() == 7100 {
			seen = true
		}
	}
	if !seen {
		res.Findings = append(res.Findings, sf([]string{"C11", "C07", "C09"}, "pose/never-relayed", c, "the victim joined session %s while its only member left and then moved its entity %d; four frames later a newcomer has not been relayed the pose", v.SID, e))
	}
	return
}
