package e2

import (
	"fmt"
	"sync"
	"sync/atomic"
	"time"

	"github.com/aukilabs/hagall-common/messages/hagallpb"
	"github.com/aukilabs/hagall-common/messages/odalpb"

	"verif/internal/check"
	d "verif/internal/driver"
	"verif/internal/scen"
	"verif/internal/sut"
)

// AllocStats is what an allocation storm observed.
type AllocStats struct {
	Entities, Participants, Assets, TypeRegs, SessionsCreated int
	OverlappingAllocations                                    int64
	Findings                                                  []*check.Finding
	Inconclusive                                              []string
}

// AllocStorm: n connections, all in one session, allocate ids at once (entity
// adds, asset adds, registrations of the same and of different type names)
// while other connections create and end sessions; every id is collected from
// the answers and the uniqueness clauses of C10 are evaluated at the end.
func AllocStorm(p *sut.Proc, n, rounds int, seed int64) *AllocStats {
	st := &AllocStats{}
	var mu sync.Mutex
	fail := func(format string, a ...any) {
		mu.Lock()
		st.Inconclusive = append(st.Inconclusive, fmt.Sprintf(format, a...))
		mu.Unlock()
	}
	host, err := scen.Dial(p, "vod", "")
	if err != nil {
		fail("dial: %v", err)
		return st
	}
	defer host.Close()
	if _, _, err := host.Join(""); err != nil {
		fail("join: %v", err)
		return st
	}
	entityIDs := map[uint32]int{}
	assetIDs := map[uint32]int{}
	pids := map[uint32]int{host.PID: 1}
	typeByName := map[string]map[uint32]bool{}
	nameByType := map[uint32]map[string]bool{}
	type life struct {
		sid, uuid   string
		born, dying int64 // logical times: join returned, close called
	}
	var lives []life
	var clock, inFlight atomic.Int64
	var wg sync.WaitGroup
	start := make(chan struct{})
	for i := 0; i < n; i++ {
		wg.Add(1)
		go func(i int) {
			defer wg.Done()
			defer func() {
				if r := recover(); r != nil {
					fail("client %d: %v", i, r)
				}
			}()
			c := scen.MustDial(p, "vod")
			defer c.Close()
			if i%4 == 3 {
				// session churn: create and end sessions as fast as possible
				<-start
				for k := 0; k < rounds; k++ {
					jr, _, err := c.Join("")
					if err != nil || jr == nil {
						panic(fmt.Sprint("create: ", err))
					}
					born := clock.Add(1)
					time.Sleep(time.Duration(k%3) * 200 * time.Microsecond)
					dying := clock.Add(1)
					mu.Lock()
					lives = append(lives, life{jr.SessionId, jr.SessionUuid, born, dying})
					st.SessionsCreated++
					mu.Unlock()
				}
				return
			}
			jr, _, err := c.Join(host.SID)
			if err != nil || jr == nil {
				panic(fmt.Sprint("join: ", err))
			}
			mu.Lock()
			pids[jr.ParticipantId]++
			st.Participants++
			mu.Unlock()
			<-start
			var mine []uint32
			for k := 0; k < rounds; k++ {
				if inFlight.Add(1) > 1 {
					atomic.AddInt64(&st.OverlappingAllocations, 1)
				}
				var a *d.Event
				switch k % 4 {
				case 0, 1:
					a, _, err = c.Do(&hagallpb.EntityAddRequest{Type: d.TEntityAddReq, Timestamp: d.NewTag(), RequestId: c.NextReqID(), Persist: k%2 == 0})
				case 2:
					name := fmt.Sprintf("T%d", k%5) // the same few names from everybody
					if i%2 == 0 {
						name = fmt.Sprintf("T%d-%d", i, k)
					}
					a, _, err = c.Do(&hagallpb.EntityComponentTypeAddRequest{Type: d.TTypeAddReq, Timestamp: d.NewTag(), RequestId: c.NextReqID(), EntityComponentTypeName: name})
					if err == nil && a != nil {
						if r, ok := a.M.(*hagallpb.EntityComponentTypeAddResponse); ok {
							mu.Lock()
							if typeByName[name] == nil {
								typeByName[name] = map[uint32]bool{}
							}
							typeByName[name][r.EntityComponentTypeId] = true
							if nameByType[r.EntityComponentTypeId] == nil {
								nameByType[r.EntityComponentTypeId] = map[string]bool{}
							}
							nameByType[r.EntityComponentTypeId][name] = true
							st.TypeRegs++
							mu.Unlock()
						}
					}
				case 3:
					if len(mine) > 0 {
						a, _, err = c.Do(&odalpb.AssetInstanceAddRequest{Type: d.TAssetAddReq, Timestamp: d.NewTag(), RequestId: c.NextReqID(), EntityId: mine[k%len(mine)], AssetId: "a"})
					}
				}
				inFlight.Add(-1)
				if err != nil {
					panic(err)
				}
				if a == nil {
					continue
				}
				switch r := a.M.(type) {
				case *hagallpb.EntityAddResponse:
					mine = append(mine, r.EntityId)
					mu.Lock()
					entityIDs[r.EntityId]++
					st.Entities++
					mu.Unlock()
				case *odalpb.AssetInstanceAddResponse:
					mu.Lock()
					assetIDs[r.AssetInstanceId]++
					st.Assets++
					mu.Unlock()
				}
			}
		}(i)
	}
	close(start)
	wg.Wait()
	f := func(clause, format string, a ...any) {
		st.Findings = append(st.Findings, &check.Finding{Props: []string{"C10"}, Clause: clause, Trigger: "allocation storm", Detail: fmt.Sprintf(format, a...), Engine: "E2 allocation storm"})
	}
	for id, k := range entityIDs {
		if k > 1 || id == 0 {
			f("id/entity-reissued", "entity id %d was issued %d times in one session (uuid %s)", id, k, host.UUID)
		}
	}
	for id, k := range assetIDs {
		if k > 1 || id == 0 {
			f("id/asset-reissued", "asset instance id %d was issued %d times in one session", id, k)
		}
	}
	for id, k := range pids {
		if k > 1 || id == 0 {
			f("id/participant-reissued", "participant id %d was issued %d times in one session", id, k)
		}
	}
	for name, ids := range typeByName {
		if len(ids) > 1 {
			f("id/type-name-two-ids", "type name %q was given %d different ids: %v", name, len(ids), ids)
		}
	}
	for id, names := range nameByType {
		if len(names) > 1 {
			f("id/type-collision", "type id %d was given to %d names: %v", id, len(names), names)
		}
	}
	// two sessions that were certainly live at the same time must not share an id
	for i := range lives {
		for j := i + 1; j < len(lives); j++ {
			a, b := lives[i], lives[j]
			if a.sid == b.sid && a.uuid != b.uuid && a.born < b.dying && b.born < a.dying {
				f("id/session-shared", "sessions %s and %s were live at the same time under the same id %s", a.uuid, b.uuid, a.sid)
			}
			if a.uuid == b.uuid {
				f("uuid/not-fresh", "two created sessions share uuid %s", a.uuid)
			}
		}
	}
	return st
}
