package e2

import (
	"bytes"
	"fmt"
	"math/rand"
	"sort"
	"sync"
	"time"

	"github.com/aukilabs/hagall-common/messages/hagallpb"
	"github.com/aukilabs/hagall-common/messages/odalpb"
	"github.com/aukilabs/hagall-common/messages/vikjapb"
	"google.golang.org/protobuf/proto"
	"google.golang.org/protobuf/types/known/timestamppb"

	"verif/internal/check"
	d "verif/internal/driver"
	"verif/internal/scen"
	"verif/internal/sut"
)

// IntegrityStats is what one integrity storm observed.
type IntegrityStats struct {
	Sessions, Members int
	Requests          int
	Answers           int
	Relays            int
	Findings          []*check.Finding
	Inconclusive      string
}

type isReq struct {
	conn    int
	sess    int
	tag     int64
	ts      *timestamppb.Timestamp
	id      uint32
	kind    string
	body    []byte  // custom: body; action: data
	px      float32 // entity add
	asset   string
	entity  uint32 // action / asset target (own entity)
	relayed bool   // a relay is owed to every other member if accepted
	to      []int  // custom: addressed to these connections only (nil = the whole session)
}

func isf(props []string, clause, format string, a ...any) *check.Finding {
	return &check.Finding{Props: props, Clause: clause, Trigger: "integrity-storm", Detail: fmt.Sprintf(format, a...), Engine: "E2 integrity storm"}
}

// IntegrityStorm: `sessions` sessions of `members` connections each, all
// modules loaded. Every connection first adds one entity (sequentially), then
// all of them pipeline `perConn` requests at once, without waiting for answers:
// custom messages, entity adds, actions and asset adds on their own entity,
// every one with unique content. Nobody joins or leaves meanwhile. After a
// barrier on every connection:
//
//	C04  every request id is answered exactly once, on the connection that sent
//	     it (request ids are unique across connections: an answer echoing another
//	     connection's id was misrouted)
//	C02  every accepted relay-causing request reaches every other member of its
//	     session exactly once, never its sender, in the sender's order, with
//	     exactly the content that was sent (C14 for custom messages)
//	C03  no relay reaches a member of another session
func IntegrityStorm(p *sut.Proc, sessions, members, perConn int, seed int64) (st *IntegrityStats) {
	st = &IntegrityStats{Sessions: sessions, Members: members}
	defer func() {
		if x := recover(); x != nil {
			if !p.Alive() {
				st.Findings = append(st.Findings, isf([]string{"C09", "C08"}, "process/exited", "the server process ended during an integrity storm: %s\n%s", p.ExitInfo(), p.CrashHead(4000)))
				return
			}
			st.Inconclusive = fmt.Sprint("integrity storm: ", x)
		}
	}()
	type conn struct {
		c    *scen.C
		sess int
		own  uint32
		reqs []*isReq
	}
	var conns []*conn
	defer func() {
		for _, cn := range conns {
			cn.c.Close()
		}
		for _, cn := range conns {
			scen.Departed(p, cn.c, 8*time.Second)
		}
	}()
	for s := 0; s < sessions; s++ {
		sid := ""
		for m := 0; m < members; m++ {
			c := scen.MustDial(p, "vod")
			c.Timeout = 40 * time.Second
			cn := &conn{c: c, sess: s}
			conns = append(conns, cn)
			jr, _, err := c.Join(sid)
			must(err)
			if jr == nil {
				panic("join refused during the setup of an integrity storm")
			}
			sid = jr.SessionId
			cn.own, err = c.AddEntity(true, float32(len(conns)))
			must(err)
		}
	}
	for _, cn := range conns {
		_, err := cn.c.Barrier()
		must(err)
	}
	// mark where the storm starts in every log
	startLen := make([]int, len(conns))
	for i, cn := range conns {
		startLen[i] = len(cn.c.LogCopy())
	}
	byTag := map[int64]*isReq{}
	rng := rand.New(rand.NewSource(seed))
	for i, cn := range conns {
		for k := 0; k < perConn; k++ {
			tag := d.NewTag()
			r := &isReq{conn: i, sess: cn.sess, tag: d.TagID(tag), ts: tag}
			switch rng.Intn(6) {
			case 5:
				// addressed to one or two named members of the own session (possibly
				// naming one twice, or the sender itself)
				r.kind, r.relayed = "custom", true
				r.body = []byte(fmt.Sprintf("to-%d-%d-%x", i, k, rng.Uint64()))
				var mates []int
				for j, o := range conns {
					if o.sess == cn.sess {
						mates = append(mates, j)
					}
				}
				for n := 0; n < 1+rng.Intn(3); n++ {
					r.to = append(r.to, mates[rng.Intn(len(mates))])
				}
			case 0, 1:
				r.kind, r.relayed = "custom", true
				r.body = []byte(fmt.Sprintf("is-%d-%d-%x", i, k, rng.Uint64()))
			case 2:
				r.kind, r.relayed, r.id = "entity_add", true, cn.c.NextReqID()
				r.px = float32(100000 + i*1000 + k)
			case 3:
				r.kind, r.relayed, r.id, r.entity = "action", true, cn.c.NextReqID(), cn.own
				r.body = []byte(fmt.Sprintf("act-%d-%d-%x", i, k, rng.Uint64()))
			default:
				r.kind, r.relayed, r.id, r.entity = "asset", true, cn.c.NextReqID(), cn.own
				r.asset = fmt.Sprintf("asset-%d-%d", i, k)
			}
			cn.reqs = append(cn.reqs, r)
			byTag[r.tag] = r
			st.Requests++
		}
	}
	msg := func(cn *conn, r *isReq) proto.Message {
		ts := r.ts
		switch r.kind {
		case "custom":
			m := &hagallpb.CustomMessage{Type: d.TCustom, Timestamp: ts, Body: r.body}
			for _, j := range r.to {
				m.ParticipantIds = append(m.ParticipantIds, conns[j].c.PID)
			}
			return m
		case "entity_add":
			return &hagallpb.EntityAddRequest{Type: d.TEntityAddReq, Timestamp: ts, RequestId: r.id, Persist: true, Pose: &hagallpb.Pose{Px: r.px, Rw: 1}}
		case "action":
			// one name per request: no two writes share a key
			return &vikjapb.EntityActionRequest{Type: d.TActionReq, Timestamp: ts, RequestId: r.id,
				EntityAction: &vikjapb.EntityAction{EntityId: r.entity, Name: fmt.Sprintf("n-%d", r.tag), Timestamp: &timestamppb.Timestamp{Seconds: 1_700_000_000}, Data: r.body}}
		default:
			return &odalpb.AssetInstanceAddRequest{Type: d.TAssetAddReq, Timestamp: ts, RequestId: r.id, EntityId: r.entity, AssetId: r.asset}
		}
	}
	start := make(chan struct{})
	var wg sync.WaitGroup
	errs := make([]error, len(conns))
	for i, cn := range conns {
		wg.Add(1)
		go func(i int, cn *conn) {
			defer wg.Done()
			<-start
			for _, r := range cn.reqs {
				if err := cn.c.Send(msg(cn, r)); err != nil {
					errs[i] = err
					return
				}
			}
			_, errs[i] = cn.c.Barrier()
		}(i, cn)
	}
	close(start)
	wg.Wait()
	for i, err := range errs {
		if err != nil {
			st.Findings = append(st.Findings, isf([]string{"C09", "C08"}, "storm/connection-failed", "connection %d of an integrity storm: %v", i, err))
			return
		}
	}
	// everybody's relays are queued behind everybody's barrier: a second round
	for _, cn := range conns {
		_, err := cn.c.Barrier()
		must(err)
	}
	for _, cn := range conns {
		_, err := cn.c.Barrier()
		must(err)
	}
	tagOf := func(m proto.Message) int64 {
		f := m.ProtoReflect().Descriptor().Fields().ByName("origin_timestamp")
		if f == nil || !m.ProtoReflect().Has(f) {
			return -1
		}
		ts := m.ProtoReflect().Get(f).Message()
		sec := ts.Get(ts.Descriptor().Fields().ByName("seconds")).Int()
		if sec >= 1_650_000_000 {
			return -1
		}
		return (sec-1_600_000_000)*1_000_000_000 + ts.Get(ts.Descriptor().Fields().ByName("nanos")).Int()
	}
	accepted := map[int64]bool{}
	entityIDs := map[int]map[uint32]int{}
	// --- answers
	for i, cn := range conns {
		if fa := cn.c.ForeignAnswers(); len(fa) > 0 {
			st.Findings = append(st.Findings, isf([]string{"C04", "C03"}, "answer/misrouted", "connection %d received %d answers echoing request ids it never issued, e.g. %s", i, len(fa), fa[0]))
		}
		count := map[uint32]int{}
		ok := map[uint32]bool{}
		if entityIDs[cn.sess] == nil {
			entityIDs[cn.sess] = map[uint32]int{}
		}
		for _, e := range cn.c.LogCopy()[startLen[i]:] {
			if e.M == nil || e.Type == d.TPingResp || e.Type == d.TPingReq {
				continue
			}
			f := e.M.ProtoReflect().Descriptor().Fields().ByName("request_id")
			if f == nil {
				continue
			}
			id := uint32(e.M.ProtoReflect().Get(f).Uint())
			count[id]++
			ok[id] = e.Type != d.TError
			st.Answers++
			if ar, isAdd := e.M.(*hagallpb.EntityAddResponse); isAdd {
				if prev, dup := entityIDs[cn.sess][ar.EntityId]; dup {
					st.Findings = append(st.Findings, isf([]string{"C10", "C05"}, "id/entity-reissued", "entity id %d of session %d was issued to connection %d and to connection %d (concurrent entity adds): both now own it", ar.EntityId, cn.sess, prev, i))
				}
				entityIDs[cn.sess][ar.EntityId] = i
			}
		}
		for _, r := range cn.reqs {
			if r.id == 0 {
				accepted[r.tag] = true
				continue
			}
			if count[r.id] != 1 {
				st.Findings = append(st.Findings, isf([]string{"C04"}, "answer/exactly-once", "the pipelined %s request (id %d) of connection %d got %d answers", r.kind, r.id, i, count[r.id]))
			}
			accepted[r.tag] = ok[r.id]
			if !ok[r.id] && count[r.id] == 1 {
				props := []string{"C04"}
				if r.kind == "action" || r.kind == "asset" {
					// an owner's action / asset on its own entity (C16; the asset owner check is C05's)
					props = []string{"C04", "C16", "C05"}
				}
				st.Findings = append(st.Findings, isf(props, "answer/unexpected-refusal", "the valid pipelined %s request (id %d) of connection %d on its own entity was refused", r.kind, r.id, i))
			}
		}
	}
	if len(st.Findings) > 0 {
		return
	}
	// --- relays
	for i, cn := range conns {
		seen := map[int64]int{}
		last := map[int]int{} // sender -> index of its last relayed request
		for _, e := range cn.c.LogCopy()[startLen[i]:] {
			if e.M == nil {
				continue
			}
			t := tagOf(e.M)
			if t < 0 {
				continue
			}
			r := byTag[t]
			if r == nil {
				continue
			}
			st.Relays++
			seen[t]++
			if r.sess != cn.sess {
				st.Findings = append(st.Findings, isf([]string{"C03"}, "isolation/relay-crossed-sessions", "connection %d (session %d) received the relay of a %s sent by connection %d in session %d: %s", i, cn.sess, r.kind, r.conn, r.sess, e))
				continue
			}
			if r.conn == i {
				st.Findings = append(st.Findings, isf([]string{"C02"}, "relay/echoed-to-sender", "connection %d received the relay of its own %s", i, r.kind))
				continue
			}
			// content
			switch m := e.M.(type) {
			case *hagallpb.CustomMessageBroadcast:
				if r.kind != "custom" || !bytes.Equal(m.Body, r.body) || m.ParticipantId != conns[r.conn].c.PID {
					st.Findings = append(st.Findings, isf([]string{"C14", "C02"}, "relay/content-altered", "connection %d received a custom message with origin tag of connection %d's %q but body %q from participant %d (sender is %d)", i, r.conn, r.body, m.Body, m.ParticipantId, conns[r.conn].c.PID))
				}
			case *hagallpb.EntityAddBroadcast:
				if r.kind != "entity_add" || m.Entity.GetPose().GetPx() != r.px || m.Entity.GetParticipantId() != conns[r.conn].c.PID {
					st.Findings = append(st.Findings, isf([]string{"C02", "C01"}, "relay/content-altered", "connection %d received an entity add with the origin tag of connection %d's px=%v but %s", i, r.conn, r.px, e))
				}
			case *vikjapb.EntityActionBroadcast:
				if r.kind != "action" || !bytes.Equal(m.EntityAction.GetData(), r.body) || m.EntityAction.GetEntityId() != r.entity {
					st.Findings = append(st.Findings, isf([]string{"C16", "C02"}, "relay/content-altered", "connection %d received an action with the origin tag of connection %d's %q but %s", i, r.conn, r.body, e))
				}
			case *odalpb.AssetInstanceAddBroadcast:
				if r.kind != "asset" || m.AssetInstance.GetAssetId() != r.asset || m.AssetInstance.GetEntityId() != r.entity {
					st.Findings = append(st.Findings, isf([]string{"C16", "C02"}, "relay/content-altered", "connection %d received an asset add with the origin tag of connection %d's %q but %s", i, r.conn, r.asset, e))
				}
			}
			// per-sender order
			idx := sort.Search(len(conns[r.conn].reqs), func(k int) bool { return conns[r.conn].reqs[k].tag >= t })
			if idx < last[r.conn] {
				st.Findings = append(st.Findings, isf([]string{"C02"}, "relay/sender-order-violated", "connection %d received the relays of connection %d's requests out of request order", i, r.conn))
			}
			last[r.conn] = idx
		}
		for _, other := range conns {
			if other == cn || other.sess != cn.sess {
				continue
			}
			for _, r := range other.reqs {
				want := 0
				if r.relayed && accepted[r.tag] {
					want = 1
				}
				if r.to != nil {
					want = 0
					for _, j := range r.to {
						if j == i {
							want = 1
						}
					}
				}
				if seen[r.tag] != want {
					st.Findings = append(st.Findings, isf([]string{"C02"}, "relay/not-exactly-once", "connection %d (a member throughout) received %d relays of connection %d's accepted %s (want %d)", i, seen[r.tag], r.conn, r.kind, want))
				}
			}
		}
		if len(st.Findings) > 8 {
			return
		}
	}
	return
}
