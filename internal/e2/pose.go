package e2

import (
	"fmt"
	"google.golang.org/protobuf/types/known/timestamppb"
	"math/rand"
	"time"

	"github.com/aukilabs/hagall-common/messages/hagallpb"

	"verif/internal/check"
	d "verif/internal/driver"
	"verif/internal/scen"
	"verif/internal/sut"
)

// PoseStats is what a pose stream observed.
type PoseStats struct {
	Sent, Relayed, Coalesced int
	Entities                 int
	Deleted                  int
	Dropped                  int // updates that must be dropped (unknown / foreign / no pose) and were
	FinalChecked             int
	Findings                 []*check.Finding
	Inconclusive             string
	Desc                     string
	TimestampMode            string // how the owner stamped its updates
}

func pf(clause, trigger, format string, a ...any) *check.Finding {
	return &check.Finding{Props: []string{"C11"}, Clause: clause, Trigger: trigger, Detail: fmt.Sprintf(format, a...), Engine: "E2 pose streams"}
}

// PoseStream: an owner streams pose updates over several entities with seeded
// gaps; observers watch. Each update carries a per-entity sequence number in
// px. Order-based oracles only: no prediction of which updates coalesce.
func PoseStream(p *sut.Proc, seed int64, frame time.Duration) (st *PoseStats) {
	st = &PoseStats{}
	defer func() {
		if r := recover(); r != nil {
			if !p.Alive() {
				st.Findings = append(st.Findings, &check.Finding{Props: []string{"C11", "C08"}, Clause: "process/exited", Trigger: "pose stream", Engine: "E2 pose streams", Detail: p.ExitInfo() + "\n" + p.CrashHead(4000)})
				return
			}
			st.Inconclusive = fmt.Sprint("pose stream: ", r)
		}
	}()
	r := rand.New(rand.NewSource(seed))
	owner := scen.MustDial(p, "vod")
	defer owner.Close()
	if _, _, err := owner.Join(""); err != nil {
		panic(err)
	}
	nObs := 1 + r.Intn(3)
	var obs []*scen.C
	for i := 0; i < nObs; i++ {
		o := scen.MustDial(p, "vod")
		defer o.Close()
		if _, _, err := o.Join(owner.SID); err != nil {
			panic(err)
		}
		obs = append(obs, o)
	}
	foreign, err := obs[0].AddEntity(false, 0)
	must(err)
	nEnt := 1 + r.Intn(8)
	st.Entities = nEnt
	var ents []uint32
	for i := 0; i < nEnt; i++ {
		e, err := owner.AddEntity(r.Intn(3) == 0, 0)
		must(err)
		ents = append(ents, e)
	}
	for _, o := range obs {
		o.Barrier()
	}
	owner.Barrier()
	lastSent := map[uint32]float32{}
	deleted := map[uint32]bool{}
	seq := map[uint32]float32{}
	nUpd := 5 + r.Intn(196)
	badTags := map[int64]string{}
	tsMode := r.Intn(6)
	st.TimestampMode = []string{"increasing", "going backwards", "standing still", "epoch", "jumping", "random"}[tsMode]
	for i := 0; i < nUpd; i++ {
		e := ents[r.Intn(len(ents))]
		switch x := r.Intn(40); {
		case x == 0 && !deleted[e] && len(ents)-len(deleted) > 1:
			// delete an entity in the middle of its stream
			if a, err := owner.DeleteEntity(e); err != nil || a == nil || a.Type != d.TEntityDelResp {
				panic(fmt.Sprint("delete refused: ", a, err))
			}
			deleted[e] = true
			st.Deleted++
			continue
		case x == 1:
			// must be dropped: unknown entity, foreign entity, no pose
			tag := d.NewTag()
			switch r.Intn(3) {
			case 0:
				must(owner.Send(&hagallpb.EntityUpdatePose{Type: d.TPoseUpdate, Timestamp: tag, EntityId: 99999, Pose: &hagallpb.Pose{Px: -1}}))
				badTags[d.TagID(tag)] = "unknown entity"
			case 1:
				must(owner.Send(&hagallpb.EntityUpdatePose{Type: d.TPoseUpdate, Timestamp: tag, EntityId: foreign, Pose: &hagallpb.Pose{Px: -2}}))
				badTags[d.TagID(tag)] = "foreign entity"
			default:
				must(owner.Send(&hagallpb.EntityUpdatePose{Type: d.TPoseUpdate, Timestamp: tag, EntityId: 99998}))
				badTags[d.TagID(tag)] = "no pose"
			}
			continue
		}
		seq[e]++
		// the message timestamp is the client's business (its clock may step back,
		// stand still or be unset): the order of the updates is the order sent
		var ts *timestamppb.Timestamp
		switch tsMode {
		case 0:
			ts = d.NewTag()
		case 1:
			ts = &timestamppb.Timestamp{Seconds: 1_000_000 - int64(i)} // going backwards
		case 2:
			ts = &timestamppb.Timestamp{Seconds: 1_000_000} // standing still
		case 3:
			// (an absent timestamp is a malformed message, answered by ending the
			// connection - C08's catalogue; the epoch is the nearest well-formed value)
			ts = &timestamppb.Timestamp{}
		case 4:
			ts = &timestamppb.Timestamp{Seconds: []int64{4_000_000_000, 1, 2_000_000_000, 0}[i%4], Nanos: int32(i)} // jumping
		default:
			ts = &timestamppb.Timestamp{Seconds: 1_000_000 + int64(r.Intn(1000)), Nanos: int32(r.Intn(1_000_000_000))}
		}
		if err := owner.Send(&hagallpb.EntityUpdatePose{Type: d.TPoseUpdate, Timestamp: ts, EntityId: e, Pose: &hagallpb.Pose{Px: seq[e], Rw: 1}}); err != nil {
			panic(err)
		}
		st.Sent++
		if !deleted[e] {
			lastSent[e] = seq[e]
		}
		// gaps of 0-3 frames
		if g := r.Intn(8); g >= 5 {
			time.Sleep(time.Duration(g-4) * frame)
		}
	}
	// frame barrier: everything sent has been stored, two whole ticks, then handled
	owner.Barrier()
	if ok, reason, err := p.WaitTicks(owner.SID, 3, 10*time.Second); err != nil || !ok {
		st.Inconclusive = fmt.Sprintf("frame barrier: ticks did not come (%s %v)", reason, err)
		return
	}
	owner.Barrier()
	for oi, o := range obs {
		win, err := o.Barrier()
		must(err)
		last := map[uint32]float32{}
		delSeen := map[uint32]bool{}
		for _, e := range win {
			switch m := e.M.(type) {
			case *hagallpb.EntityDeleteBroadcast:
				delSeen[m.EntityId] = true
			case *hagallpb.EntityUpdatePoseBroadcast:
				if why, bad := badTags[d.TagID(m.OriginTimestamp)]; bad {
					st.Findings = append(st.Findings, pf("pose/invalid-update-relayed", why, "observer %d received a relay of an update that must be dropped (%s): %s", oi, why, e))
					continue
				}
				px := m.Pose.GetPx()
				if prev, ok := last[m.EntityId]; ok && px <= prev {
					clause := "pose/reordered"
					if px == prev {
						clause = "pose/repeated"
					}
					st.Findings = append(st.Findings, pf(clause, "stream", "observer %d: entity %d relayed sequence number %v after %v", oi, m.EntityId, px, prev))
				}
				if delSeen[m.EntityId] {
					st.Findings = append(st.Findings, pf("pose/relayed-after-delete", "stream", "observer %d received a pose relay for entity %d after its delete relay: %s", oi, m.EntityId, e))
				}
				last[m.EntityId] = px
				st.Relayed++
			}
		}
		for e, want := range lastSent {
			if deleted[e] {
				continue
			}
			st.FinalChecked++
			if last[e] != want {
				st.Findings = append(st.Findings, pf("pose/latest-not-relayed", "stream", "observer %d: the last update sent for entity %d has sequence number %v, the last relayed one %v (after a frame barrier of 3 ticks)", oi, e, want, last[e]))
			}
		}
	}
	st.Dropped = len(badTags)
	st.Coalesced = st.Sent*len(obs) - st.Relayed
	// the pose handed to a newcomer
	snap, err := scen.Probe(p, owner.SID, "vod")
	must(err)
	if snap.State != nil {
		got := map[uint32]float32{}
		for _, en := range snap.State.Entities {
			got[en.Id] = en.Pose.GetPx()
		}
		for e, want := range lastSent {
			if deleted[e] {
				continue
			}
			if got[e] != want {
				st.Findings = append(st.Findings, pf("pose/newcomer-handed-stale-pose", "stream", "a newcomer is handed sequence number %v for entity %d, the last one sent is %v", got[e], e, want))
			}
		}
		if px, ok := got[foreign]; ok && px != 0 {
			st.Findings = append(st.Findings, pf("pose/foreign-update-applied", "foreign entity", "the foreign entity %d now has px=%v", foreign, px))
		}
	}
	st.Desc = fmt.Sprintf("frame=%v observers=%d entities=%d updates_sent=%d relayed=%d deleted=%d invalid=%d", frame, len(obs), nEnt, st.Sent, st.Relayed, st.Deleted, st.Dropped)
	return
}

// G9: the frame tick is held; the owner sends u1, u2 (and optionally deletes
// the entity), then the tick is released: exactly u2 is relayed - or nothing
// after the delete relay.
func G9HeldTick(p *sut.Proc, withDelete bool) *Result {
	name := "G9 held tick: u1 u2"
	if withDelete {
		name += " delete"
	}
	return run(name, func(r *Result) {
		const site = "models.Session.StartDispatchFrames%23case2"
		owner := scen.MustDial(p, "vod")
		defer owner.Close()
		_, _, err := owner.Join("")
		must(err)
		ob := scen.MustDial(p, "vod")
		defer ob.Close()
		_, _, err = ob.Join(owner.SID)
		must(err)
		e, err := owner.AddEntity(false, 0)
		must(err)
		ob.Barrier()
		rt(p, "op=hold&site="+site)
		defer p.RT("op=reset")
		if !gateWait(p, site, 1) {
			r.Inconclusive = "G9: the frame worker never reached the tick case"
			return
		}
		r.GateReached = true
		owner.Pose(e, 1)
		owner.Pose(e, 2)
		if withDelete {
			a, err := owner.DeleteEntity(e)
			must(err)
			if a == nil || a.Type != d.TEntityDelResp {
				panic("delete refused")
			}
		} else {
			owner.Barrier()
		}
		rt(p, "op=release&site="+site)
		if ok, _, _ := p.WaitTicks(owner.SID, 3, 5*time.Second); !ok {
			r.Inconclusive = "G9: no ticks after the release"
			return
		}
		owner.Barrier()
		win, err := ob.Barrier()
		must(err)
		var poses []float32
		delSeen := false
		for _, ev := range win {
			switch m := ev.M.(type) {
			case *hagallpb.EntityDeleteBroadcast:
				delSeen = true
			case *hagallpb.EntityUpdatePoseBroadcast:
				poses = append(poses, m.Pose.GetPx())
				if delSeen {
					r.Findings = append(r.Findings, pf("pose/relayed-after-delete", "held tick", "pose relay %v after the delete relay", m.Pose.GetPx()))
				}
			}
		}
		r.Signature = fmt.Sprintf("store(u1) < store(u2) %s< tick: relayed %v", map[bool]string{true: "< delete ", false: ""}[withDelete], poses)
		if withDelete {
			if len(poses) != 0 {
				r.Findings = append(r.Findings, pf("pose/relayed-for-deleted-entity", "held tick", "the entity was deleted before the tick, yet poses %v were relayed", poses))
			}
		} else if len(poses) != 1 || poses[0] != 2 {
			r.Findings = append(r.Findings, pf("pose/coalescing", "held tick", "u1 and u2 were stored before one tick: exactly u2 must be relayed, got %v", poses))
		}
	})
}
