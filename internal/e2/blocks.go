package e2

import (
	"fmt"
	"math/rand"
	"sort"
	"strings"
	"sync"
	"time"

	"github.com/aukilabs/hagall-common/messages/hagallpb"
	"github.com/aukilabs/hagall-common/messages/odalpb"
	"github.com/aukilabs/hagall-common/messages/vikjapb"
	"google.golang.org/protobuf/proto"
	"google.golang.org/protobuf/types/known/timestamppb"

	"verif/internal/check"
	d "verif/internal/driver"
	"verif/internal/e1"
	"verif/internal/model"
	"verif/internal/scen"
	"verif/internal/sut"
)

// BlockResult is what one concurrent block observed.
type BlockResult struct {
	Findings      []*check.Finding
	Inconclusive  string
	Class         string // conflict class of the block
	Senders       int
	Requests      int
	Relays        int
	Members       int
	ViewsCompared int
	OrderSig      string // order of the senders' first relays at a witness (interleaving signature)
	Desc          []string
	StepReached   bool     // stepped block: a goroutine was parked at the chosen site while the others ran
	SitesHit      []string // stepped block: scheduling points passed during the concurrent part
}

// Step makes a block "stepped": the Skip+1-th goroutine to arrive at Site
// during the concurrent part is parked there while everything else runs, and
// released a little later. Any such schedule is one the Go scheduler may
// produce by itself; the gate only makes it certain.
type Step struct {
	Site string
	Skip int
	Hold time.Duration
}

type blockReq struct {
	conn   int
	kind   string
	msg    proto.Message
	tag    int64
	id     uint32
	relays bool    // a relay is owed to every other member if accepted
	entity uint32  // pose: entity
	px     float32 // pose: sequence number
	req    *model.Req
}

func bf(props []string, clause, class, format string, a ...any) *check.Finding {
	return &check.Finding{Props: props, Clause: clause, Trigger: class, Detail: fmt.Sprintf(format, a...), Engine: "E2 concurrent block"}
}

// Block runs a sequential prefix (judged by the reference model), then lets
// 2-3 members of one session fire 1-4 requests each at once, possibly while a
// newcomer joins and a member leaves; after quiescence the order-free oracles
// are applied: exactly-once / no-echo / per-sender order (C02) and view
// convergence against a probe (C01).
func Block(ws *sut.Workspace, p *sut.Proc, cfg e1.Config, class string) (res *BlockResult) {
	return BlockStepped(ws, p, cfg, class, nil)
}

// BlockStepped is Block with an optional Step; with step.Site == "" the block
// runs in sched mode only to learn which points the concurrent part passes.
func BlockStepped(ws *sut.Workspace, p *sut.Proc, cfg e1.Config, class string, step *Step) (res *BlockResult) {
	res = &BlockResult{Class: class}
	r := e1.NewRunner(p, cfg)
	defer r.CloseAll()
	defer func() {
		if x := recover(); x != nil {
			if !p.Alive() {
				res.Findings = append(res.Findings, bf([]string{"C09", "C08", "C01", "C02"}, "process/exited", class, "the server process ended: %s\n%s", p.ExitInfo(), p.CrashHead(4000)))
				return
			}
			res.Inconclusive = fmt.Sprint("block: ", x)
		}
	}()
	r.RunPrefix()
	if r.Fail != nil {
		// a sequential failure is reported by the sequential engine; not this block's business
		res.Inconclusive = "prefix failed: " + r.Fail.Clause
		return
	}
	if r.Inconclusive != "" {
		res.Inconclusive = r.Inconclusive
		return
	}
	rng := rand.New(rand.NewSource(cfg.Seed ^ 0x5eed))
	// pick the session with most members
	var sess *model.Session
	for _, s := range r.M.Sessions {
		if sess == nil || len(s.Members) > len(sess.Members) || len(s.Members) == len(sess.Members) && s.SID < sess.SID {
			sess = s
		}
	}
	if sess == nil || len(sess.Members) < 2 {
		res.Inconclusive = "prefix left no session with two members"
		return
	}
	var members []int
	for _, c := range sess.Members {
		members = append(members, c)
	}
	sort.Ints(members)
	res.Members = len(members)
	nSend := 2 + rng.Intn(2)
	if nSend > len(members) {
		nSend = len(members)
	}
	rng.Shuffle(len(members), func(i, j int) { members[i], members[j] = members[j], members[i] })
	senders := append([]int(nil), members[:nSend]...)
	sort.Ints(senders)
	res.Senders = len(senders)
	var leaver = -1
	if (class == "leave-x-mutation" || class == "join-and-leave-x-mutation") && len(members) > nSend {
		leaver = members[nSend]
	}
	joinerWanted := class == "join-x-mutation" || class == "join-and-leave-x-mutation"

	// shared keys for the same-key classes
	var sharedEntity uint32
	for id := range sess.Entities {
		if sharedEntity == 0 || id < sharedEntity {
			sharedEntity = id
		}
	}
	// build each sender's request list from the model state
	reqs := map[int][]*blockReq{}
	counter := 0
	for _, c := range senders {
		mc := r.M.Conns[c]
		var own []uint32
		for id, e := range sess.Entities {
			if e.Owner == mc.PID {
				own = append(own, id)
			}
		}
		sort.Slice(own, func(i, j int) bool { return own[i] < own[j] })
		n := 1 + rng.Intn(4)
		seq := map[uint32]float32{}
		for k := 0; k < n; k++ {
			counter++
			tag := d.NewTag()
			cl := r.Clients[c]
			br := &blockReq{conn: c, tag: d.TagID(tag)}
			kinds := []string{"entity_add", "custom", "custom", "entity_add"}
			if len(own) > 0 {
				kinds = append(kinds, "pose", "pose", "action", "asset_add", "entity_del")
			}
			if class == "same-key-writers(action)" && sharedEntity != 0 && strings.Contains(cfg.Mods, "v") {
				kinds = []string{"shared_action", "shared_action", "custom"}
			}
			switch kind := kinds[rng.Intn(len(kinds))]; kind {
			case "entity_add":
				br.kind, br.id, br.relays = kind, cl.NextReqID(), true
				br.msg = &hagallpb.EntityAddRequest{Type: d.TEntityAddReq, Timestamp: tag, RequestId: br.id, Persist: rng.Intn(2) == 0, Pose: &hagallpb.Pose{Px: float32(counter)}}
			case "custom":
				br.kind, br.relays = kind, true
				br.msg = &hagallpb.CustomMessage{Type: d.TCustom, Timestamp: tag, Body: []byte(fmt.Sprintf("blk-%d-%d", c, counter))}
			case "pose":
				e := own[rng.Intn(len(own))]
				seq[e]++
				br.kind, br.entity, br.px = kind, e, 1000+seq[e]
				br.msg = &hagallpb.EntityUpdatePose{Type: d.TPoseUpdate, Timestamp: tag, EntityId: e, Pose: &hagallpb.Pose{Px: br.px}}
			case "action":
				e := own[rng.Intn(len(own))]
				br.kind, br.id, br.relays = kind, cl.NextReqID(), true
				br.msg = &vikjapb.EntityActionRequest{Type: d.TActionReq, Timestamp: tag, RequestId: br.id,
					EntityAction: &vikjapb.EntityAction{EntityId: e, Name: fmt.Sprintf("n%d", c), Timestamp: &timestamppb.Timestamp{Seconds: 1_800_000_000 + int64(counter)}, Data: []byte(fmt.Sprint(counter))}}
				if !strings.Contains(cfg.Mods, "v") {
					br.relays, br.id = false, 0
				}
			case "shared_action":
				br.kind, br.id, br.relays = "action", cl.NextReqID(), true
				br.msg = &vikjapb.EntityActionRequest{Type: d.TActionReq, Timestamp: tag, RequestId: br.id,
					EntityAction: &vikjapb.EntityAction{EntityId: sharedEntity, Name: "shared", Timestamp: &timestamppb.Timestamp{Seconds: 1_900_000_000}, Data: []byte(fmt.Sprintf("w%d-%d", c, counter))}}
			case "asset_add":
				e := own[rng.Intn(len(own))]
				br.kind, br.id, br.relays = kind, cl.NextReqID(), true
				br.msg = &odalpb.AssetInstanceAddRequest{Type: d.TAssetAddReq, Timestamp: tag, RequestId: br.id, EntityId: e, AssetId: fmt.Sprintf("as-%d", counter)}
				if !strings.Contains(cfg.Mods, "o") {
					br.relays, br.id = false, 0
				}
			case "entity_del":
				i := rng.Intn(len(own))
				e := own[i]
				own = append(own[:i], own[i+1:]...)
				br.kind, br.id, br.relays, br.entity = kind, cl.NextReqID(), true, e
				br.msg = &hagallpb.EntityDeleteRequest{Type: d.TEntityDelReq, Timestamp: tag, RequestId: br.id, EntityId: e}
				delete(seq, e)
			}
			reqs[c] = append(reqs[c], br)
			res.Desc = append(res.Desc, fmt.Sprintf("c%d %s tag=%d", c, br.kind, br.tag))
			res.Requests++
		}
	}
	// --- fire
	var joiner *scen.C
	if joinerWanted {
		j, err := scen.Dial(p, cfg.Mods, "")
		must(err)
		// the next block on this process must not start while this departure is still in progress
		defer func() {
			j.Close()
			scen.Departed(p, j, 8*time.Second)
		}()
		joiner = j
	}
	start := make(chan struct{})
	var wg sync.WaitGroup
	windows := map[int][]*d.Event{}
	var wmu sync.Mutex
	errs := map[int]error{}
	for _, c := range senders {
		wg.Add(1)
		go func(c int) {
			defer wg.Done()
			cl := r.Clients[c]
			<-start
			for _, br := range reqs[c] {
				cl.Send(br.msg)
			}
			win, err := cl.Barrier()
			wmu.Lock()
			windows[c], errs[c] = win, err
			wmu.Unlock()
		}(c)
	}
	var joinErr error
	if joiner != nil {
		wg.Add(1)
		go func() {
			defer wg.Done()
			<-start
			_, _, joinErr = joiner.Join(sess.SID)
		}()
		res.Desc = append(res.Desc, "newcomer joins")
	}
	if leaver >= 0 {
		wg.Add(1)
		go func() {
			defer wg.Done()
			<-start
			r.Clients[leaver].Close()
		}()
		res.Desc = append(res.Desc, fmt.Sprintf("c%d leaves", leaver))
	}
	stepDone := make(chan struct{})
	if step != nil {
		p.RT("op=reset")
		p.RT("op=mode&v=2")
		if step.Site != "" {
			p.RT(fmt.Sprintf("op=hold&site=%s&skip=%d&max=1", strings.ReplaceAll(step.Site, "#", "%23"), step.Skip))
			res.Desc = append(res.Desc, fmt.Sprintf("stepped: arrival %d at %s parked", step.Skip+1, step.Site))
		}
		go func() {
			defer close(stepDone)
			if step.Site == "" {
				return
			}
			site := strings.ReplaceAll(step.Site, "#", "%23")
			if _, err := p.RT(fmt.Sprintf("op=wait&site=%s&n=1&ms=400", site)); err == nil {
				res.StepReached = true
				time.Sleep(step.Hold)
			}
			p.RT("op=release&site=" + site)
		}()
	} else {
		close(stepDone)
	}
	close(start)
	wg.Wait()
	<-stepDone
	if step != nil {
		if h, err := p.RTHits(); err == nil {
			for s, n := range h.Hits {
				if n > 0 {
					res.SitesHit = append(res.SitesHit, s)
				}
			}
			sort.Strings(res.SitesHit)
		}
		p.RT("op=reset")
		p.RT("op=mode&v=0")
	}
	for c, err := range errs {
		if err != nil {
			res.Findings = append(res.Findings, bf([]string{"C09", "C08"}, "block/sender-connection-failed", class, "sender %d: %v (requests %v)", c, err, res.Desc))
			return
		}
	}
	if joinErr != nil {
		panic(joinErr)
	}
	if leaver >= 0 {
		if ok, _ := scen.Departed(p, &scen.C{Client: r.Clients[leaver]}, 8*time.Second); !ok {
			res.Findings = append(res.Findings, bf([]string{"C09", "C08"}, "liveness/handler-never-returned", class, "the leaver's handler never returned"))
			return
		}
	}
	// --- quiescence: frame barrier, then a barrier on everybody
	for _, c := range senders {
		w, err := r.Clients[c].Barrier()
		must(err)
		windows[c] = append(windows[c], w...)
	}
	if ok, reason, err := p.WaitTicks(sess.SID, 3, 10*time.Second); err != nil || !ok {
		res.Inconclusive = fmt.Sprintf("frame barrier failed: %s %v", reason, err)
		return
	}
	for _, c := range senders {
		w, err := r.Clients[c].Barrier()
		must(err)
		windows[c] = append(windows[c], w...)
	}
	for _, c := range members {
		if c == leaver {
			continue
		}
		w, err := r.Clients[c].Barrier()
		must(err)
		windows[c] = append(windows[c], w...)
	}
	var joinerWin []*d.Event
	if joiner != nil {
		joinerWin = append(joiner.Extra, func() []*d.Event { w, _ := joiner.Barrier(); return w }()...)
	}

	// --- C02: attribution by origin tag
	isSender := map[int]bool{}
	for _, c := range senders {
		isSender[c] = true
	}
	answered := map[int64]*d.Event{}
	for _, c := range senders {
		for _, br := range reqs[c] {
			if br.id == 0 {
				continue
			}
			n := 0
			for _, e := range windows[c] {
				if e.M == nil || e.Type == d.TPingResp || e.Type == d.TPingReq {
					continue
				}
				f := e.M.ProtoReflect().Descriptor().Fields().ByName("request_id")
				if f != nil && uint32(e.M.ProtoReflect().Get(f).Uint()) == br.id {
					n++
					answered[br.tag] = e
				}
			}
			if n != 1 {
				res.Findings = append(res.Findings, bf([]string{"C04", "C02"}, "block/answer-exactly-once", class, "request %s of c%d got %d answers", br.kind, c, n))
			}
		}
	}
	tagOf := func(e *d.Event) int64 {
		if e.M == nil {
			return -1
		}
		f := e.M.ProtoReflect().Descriptor().Fields().ByName("origin_timestamp")
		if f == nil || !e.M.ProtoReflect().Has(f) {
			return -1
		}
		ts := e.M.ProtoReflect().Get(f).Message()
		sec := ts.Get(ts.Descriptor().Fields().ByName("seconds")).Int()
		if sec >= 1_650_000_000 {
			return -1 // the server's clock: a departure-caused relay, not attributable to a request
		}
		return (sec-1_600_000_000)*1_000_000_000 + ts.Get(ts.Descriptor().Fields().ByName("nanos")).Int()
	}
	for _, q := range members {
		if q == leaver {
			continue
		}
		count := map[int64]int{}
		var order []int64
		for _, e := range windows[q] {
			if t := tagOf(e); t >= 0 {
				count[t]++
				order = append(order, t)
				res.Relays++
			}
		}
		for _, c := range senders {
			lastIdx := -1
			posePx := map[uint32]float32{}
			for _, br := range reqs[c] {
				n := count[br.tag]
				accepted := br.relays
				if br.id != 0 {
					if a := answered[br.tag]; a == nil || a.Type == d.TError {
						accepted = false
					}
				}
				switch {
				case q == c && n > 0:
					res.Findings = append(res.Findings, bf([]string{"C02"}, "relay/echoed-to-sender", class, "c%d received %d relays of its own %s", c, n, br.kind))
				case q == c:
				case br.kind == "pose":
					if n > 1 {
						res.Findings = append(res.Findings, bf([]string{"C02", "C11"}, "relay/duplicate", class, "member c%d received %d relays of one pose update of c%d", q, n, c))
					}
				case accepted && n != 1:
					res.Findings = append(res.Findings, bf([]string{"C02"}, "relay/not-exactly-once", class, "member c%d (present throughout the block) received %d relays of the accepted %s (tag %d) of c%d; block: %v", q, n, br.kind, br.tag, c, res.Desc))
				case !accepted && n != 0:
					res.Findings = append(res.Findings, bf([]string{"C02", "C04"}, "relay/of-refused-request", class, "member c%d received %d relays of the refused %s of c%d", q, n, br.kind, c))
				}
				if q != c && n >= 1 && br.kind != "pose" {
					// per-sender order at this recipient
					idx := -1
					for i, t := range order {
						if t == br.tag {
							idx = i
							break
						}
					}
					if idx < lastIdx {
						res.Findings = append(res.Findings, bf([]string{"C02"}, "relay/sender-order-violated", class, "member c%d received the relays of c%d's requests out of request order (%s before an earlier one); block: %v", q, c, br.kind, res.Desc))
					}
					lastIdx = idx
				}
				_ = posePx
			}
		}
		if q == senders[0] || !isSender[q] {
			// interleaving signature at one witness: order of the first relays per sender
			seenS := map[int]bool{}
			var sig []string
			for _, t := range order {
				for _, c := range senders {
					for _, br := range reqs[c] {
						if br.tag == t && !seenS[c] {
							seenS[c] = true
							sig = append(sig, fmt.Sprint("c", c))
						}
					}
				}
			}
			if res.OrderSig == "" && len(sig) > 1 {
				res.OrderSig = strings.Join(sig, "<")
			}
		}
	}
	if joiner != nil {
		// at most once for a member that joined inside the block
		count := map[int64]int{}
		for _, e := range joinerWin {
			if t := tagOf(e); t >= 0 {
				count[t]++
			}
		}
		for t, n := range count {
			if n > 1 {
				res.Findings = append(res.Findings, bf([]string{"C02"}, "relay/duplicate", class, "the newcomer received %d relays of request tag %d", n, t))
			}
		}
	}
	if len(res.Findings) > 0 {
		return
	}

	// --- C01: fold the windows into the views and compare with a probe
	for _, c := range members {
		if c == leaver {
			continue
		}
		v := r.Views[c]
		own := map[uint32]*blockReq{}
		for _, br := range reqs[c] {
			if br.id != 0 {
				own[br.id] = br
			}
		}
		for _, e := range windows[c] {
			if e.M == nil {
				continue
			}
			if f := e.M.ProtoReflect().Descriptor().Fields().ByName("request_id"); f != nil && e.Type != d.TPingResp && e.Type != d.TPingReq {
				if br := own[uint32(e.M.ProtoReflect().Get(f).Uint())]; br != nil && e.Type != d.TError {
					applyOwn(v, br, e)
				}
				continue
			}
			v.Apply(e, false)
		}
		// own accepted pose updates: the last one sent per still-existing entity
		for _, br := range reqs[c] {
			if br.kind == "pose" {
				if en, ok := v.Entities[br.entity]; ok {
					en.Pose = model.Pose{br.px, 0, 0, 0, 0, 0, 1}
					en.Pose[6] = 0
					en.Pose = model.PoseFromPB(br.msg.(*hagallpb.EntityUpdatePose).Pose)
					v.Entities[br.entity] = en
				}
			}
		}
	}
	snap, err := scen.Probe(p, sess.SID, cfg.Mods)
	must(err)
	if !snap.Found || snap.State == nil {
		res.Findings = append(res.Findings, bf([]string{"C01", "C07"}, "block/session-lost", class, "the session cannot be joined after the block (code %d)", snap.Code))
		return
	}
	server := model.NewState()
	for _, pp := range snap.State.Participants {
		if pp.Id != snap.Join.ParticipantId {
			server.Participants[pp.Id] = true
		}
	}
	for _, en := range snap.State.Entities {
		server.Entities[en.Id] = model.Entity{ID: en.Id, Owner: en.ParticipantId, Flag: int32(en.Flag), Pose: model.PoseFromPB(en.Pose)}
	}
	for _, cc := range snap.State.EntityComponents {
		server.Comps[model.CompKey{Type: cc.EntityComponentTypeId, Entity: cc.EntityId}] = cc.Data
	}
	for _, a := range snap.Vikja.GetEntityActions() {
		act := model.Action{Entity: a.EntityId, Name: a.Name, Data: a.Data}
		if a.Timestamp != nil {
			act.HasTS, act.Sec, act.Nanos = true, a.Timestamp.Seconds, a.Timestamp.Nanos
		}
		server.Actions[model.ActKey{Entity: a.EntityId, Name: a.Name}] = act
	}
	for _, as := range snap.Odal.GetAssetInstances() {
		server.Assets[as.EntityId] = model.Asset{ID: as.Id, AssetID: as.AssetId, Participant: as.ParticipantId, Entity: as.EntityId}
	}
	for _, c := range members {
		if c == leaver {
			continue
		}
		// the probe's own join / leave relays are not part of the state
		r.Clients[c].Barrier()
		v := r.Views[c]
		res.ViewsCompared++
		if diff := v.Diff(server, cfg.Mods); len(diff) > 0 {
			res.Findings = append(res.Findings, bf([]string{"C01"}, "view/diverged-after-concurrent-block", class,
				"after a concurrent block (%v) and full quiescence the view of member c%d differs from the state handed to a probe: %s", res.Desc, c, strings.Join(diff, "; ")))
			return
		}
	}
	if joiner != nil {
		// the newcomer: snapshot + later relays (applied on top, idempotently) must converge too
		jv := model.NewView(-1)
		jv.Mods = cfg.Mods
		jv.Reset(joiner.PID)
		for _, e := range joinerWin {
			if e.M != nil {
				jv.Apply(e, false)
			}
		}
		res.ViewsCompared++
		if diff := jv.Diff(server, cfg.Mods); len(diff) > 0 {
			res.Findings = append(res.Findings, bf([]string{"C01"}, "view/newcomer-diverged", class,
				"a newcomer that joined during the block (%v) ends with a view that differs from the state handed to a later probe: %s\n   newcomer's stream: %v", res.Desc, strings.Join(diff, "; "), joinerWin))
		}
	}
	return
}

func applyOwn(v *model.View, br *blockReq, ans *d.Event) {
	switch m := br.msg.(type) {
	case *hagallpb.EntityAddRequest:
		if a, ok := ans.M.(*hagallpb.EntityAddResponse); ok {
			v.Entities[a.EntityId] = model.Entity{ID: a.EntityId, Owner: v.PID, Persist: m.Persist, Flag: int32(m.Flag), Pose: model.PoseFromPB(m.Pose)}
		}
	case *hagallpb.EntityDeleteRequest:
		v.RemoveEntity(m.EntityId)
	case *vikjapb.EntityActionRequest:
		a := m.EntityAction
		v.Actions[model.ActKey{Entity: a.EntityId, Name: a.Name}] = model.Action{Entity: a.EntityId, Name: a.Name, Sec: a.Timestamp.Seconds, Nanos: a.Timestamp.Nanos, Data: a.Data, HasTS: true}
	case *odalpb.AssetInstanceAddRequest:
		if a, ok := ans.M.(*odalpb.AssetInstanceAddResponse); ok {
			v.Assets[m.EntityId] = model.Asset{ID: a.AssetInstanceId, AssetID: m.AssetId, Participant: v.PID, Entity: m.EntityId}
		}
	}
}
