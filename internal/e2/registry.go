// Package e2 holds the concurrent-block scenarios: gated interleavings
// (verifrt "sched" mode) that make the known dangerous windows certain, and
// free-running / jittered blocks judged by order-free oracles at quiescence.
package e2

import (
	"fmt"
	"strings"
	"sync"
	"time"

	"github.com/aukilabs/hagall-common/messages/hagallpb"
	"github.com/aukilabs/hagall-common/messages/vikjapb"
	"google.golang.org/protobuf/types/known/timestamppb"

	"verif/internal/check"
	d "verif/internal/driver"
	"verif/internal/scen"
	"verif/internal/sut"
)

// Result of one gated scenario.
type Result struct {
	Name         string
	Findings     []*check.Finding
	Inconclusive string
	GateReached  bool
	Signature    string // observed interleaving signature (order of critical sites)
}

func f(props []string, clause, trigger, format string, a ...any) *check.Finding {
	return &check.Finding{Props: props, Clause: clause, Trigger: trigger, Detail: fmt.Sprintf(format, a...), Engine: "E2 gated interleaving"}
}

func run(name string, body func(r *Result)) (res *Result) {
	res = &Result{Name: name}
	defer func() {
		if x := recover(); x != nil {
			res.Inconclusive = fmt.Sprint(name, ": ", x)
		}
	}()
	body(res)
	return
}

func must(err error) {
	if err != nil {
		panic(err)
	}
}

func rt(p *sut.Proc, q string) string {
	s, err := p.RT(q)
	if err != nil {
		panic(fmt.Errorf("gate %s: %w", q, err))
	}
	return s
}

// gateWait waits until n goroutines are parked at site; false = never reached.
func gateWait(p *sut.Proc, site string, n int) bool {
	_, err := p.RT(fmt.Sprintf("op=wait&site=%s&n=%d&ms=4000", site, n))
	return err == nil
}

// registryQuiescent checks the registry invariants of C07 at a quiescent
// moment: gauge == live sessions == frame workers.
func registryQuiescent(p *sut.Proc, baseGauge float64, live int, trigger string) []*check.Finding {
	var out []*check.Finding
	ms, err := p.Metrics()
	must(err)
	if got := ms["session_count"] - baseGauge; got != float64(live) {
		out = append(out, f([]string{"C07"}, "registry/session-gauge", trigger, "the session gauge changed by %v but %d sessions are live", got, live))
	}
	// the frame worker ends asynchronously after Close: bounded wait in rounds
	var n int
	for round := 0; round < 200; round++ {
		dump, err := p.Goroutines()
		must(err)
		n = sut.CountGoroutines(dump, "models.(*Session).StartDispatchFrames")
		if n == live {
			break
		}
		time.Sleep(5 * time.Millisecond)
	}
	if n != live {
		out = append(out, f([]string{"C07"}, "registry/frame-workers", trigger, "%d frame-worker goroutines run but %d sessions are live", n, live))
	}
	return out
}

// G1: a join by id overlaps the last departure. J is held after it looked the
// session up (at Session.NewParticipantID, which lies between the registry
// lookup and the add), the last member leaves completely,
// then J is released. A join answered with success must leave J in a live
// session that others can find under the returned id.
func G1JoinVsLastLeave(p *sut.Proc) *Result {
	return run("G1 join x last departure", func(r *Result) {
		const trig = "join-by-id x last departure"
		ms, err := p.Metrics()
		must(err)
		base := ms["session_count"]
		l := scen.MustDial(p, "vod")
		defer l.Close()
		_, _, err = l.Join("")
		must(err)
		j := scen.MustDial(p, "vod")
		defer j.Close()
		rt(p, "op=hold&site=models.Session.NewParticipantID")
		defer p.RT("op=reset")
		id := j.NextReqID()
		must(j.Send(&hagallpb.ParticipantJoinRequest{Type: d.TJoinReq, Timestamp: d.NewTag(), RequestId: id, SessionId: l.SID}))
		if !gateWait(p, "models.Session.NewParticipantID", 1) {
			r.Inconclusive = "G1: the joiner never reached Session.NewParticipantID (between the registry lookup and the add)"
			return
		}
		r.GateReached = true
		l.Close()
		ok, err := scen.Departed(p, l, 8*time.Second)
		must(err)
		if !ok {
			r.Inconclusive = "G1: the leaver's handler did not return while the joiner was held"
			return
		}
		rt(p, "op=release&site=models.Session.NewParticipantID")
		win, err := j.Barrier()
		must(err)
		var jr *hagallpb.ParticipantJoinResponse
		code := int32(-1)
		for _, e := range win {
			if m, ok := e.M.(*hagallpb.ParticipantJoinResponse); ok && m.RequestId == id {
				jr = m
			}
			if m, ok := e.M.(*hagallpb.ErrorResponse); ok && m.RequestId == id {
				code = int32(m.Code)
			}
		}
		r.Signature = "lookup(J) < remove+unregister(L) < add(J)"
		live := 0
		if jr == nil {
			// refused: acceptable (the session ended) - J must then be in no session
			if code < 0 {
				r.Findings = append(r.Findings, f([]string{"C07", "C04"}, "join/not-answered", trig, "the overlapped join got no answer: %v", win))
			}
		} else {
			live = 1
			snap, err := scen.Probe(p, jr.SessionId, "vod")
			must(err)
			switch {
			case !snap.Found:
				r.Findings = append(r.Findings, f([]string{"C07"}, "join/orphaned", trig,
					"J was answered with success (session %s uuid %s participant %d) but a probe joining by that id gets error %d: the session was unregistered under J", jr.SessionId, jr.SessionUuid, jr.ParticipantId, snap.Code))
			case snap.Join.SessionUuid != jr.SessionUuid:
				r.Findings = append(r.Findings, f([]string{"C07", "C10"}, "join/orphaned", trig,
					"J was answered with success for session %s uuid %s but that id now names uuid %s", jr.SessionId, jr.SessionUuid, snap.Join.SessionUuid))
			default:
				found := false
				for _, pp := range snap.State.GetParticipants() {
					if pp.Id == jr.ParticipantId {
						found = true
					}
				}
				if !found {
					r.Findings = append(r.Findings, f([]string{"C07"}, "join/participant-missing", trig, "J (participant %d) is not among the participants handed to a probe: %v", jr.ParticipantId, snap.State))
				}
			}
			j.Barrier()
		}
		if len(r.Findings) == 0 {
			r.Findings = append(r.Findings, registryQuiescent(p, base, live, trig)...)
		}
		j.Close()
		scen.Departed(p, j, 8*time.Second)
	})
}

// G2: the two only members leave at once; both are held after they removed
// themselves (at Session.Broadcast (the leave relay: after the removal, before the emptiness check)) so that both see an empty session.
func G2TwoLastLeaves(p *sut.Proc) *Result {
	return run("G2 last departure x last departure", func(r *Result) {
		const trig = "two last departures"
		ms, err := p.Metrics()
		must(err)
		base := ms["session_count"]
		l1 := scen.MustDial(p, "vod")
		defer l1.Close()
		_, _, err = l1.Join("")
		must(err)
		l2 := scen.MustDial(p, "vod")
		defer l2.Close()
		_, _, err = l2.Join(l1.SID)
		must(err)
		l1.Barrier()
		rt(p, "op=hold&site=models.Session.Broadcast")
		defer p.RT("op=reset")
		l1.Close()
		l2.Close()
		if !gateWait(p, "models.Session.Broadcast", 2) {
			r.Inconclusive = "G2: the two leavers never met at Session.Broadcast (the leave relay: after the removal, before the emptiness check)"
			return
		}
		r.GateReached = true
		r.Signature = "remove(L1) < remove(L2) < count(L1)=0, count(L2)=0"
		rt(p, "op=release&site=models.Session.Broadcast")
		for _, c := range []*scen.C{l1, l2} {
			ok, err := scen.Departed(p, c, 8*time.Second)
			must(err)
			if !ok {
				r.Findings = append(r.Findings, f([]string{"C07", "C09"}, "liveness/handler-never-returned", trig, "a leaver's handler never returned"))
				return
			}
		}
		r.Findings = append(r.Findings, registryQuiescent(p, base, 0, trig)...)
	})
}

// G3: as G2, but the second leaver is held before SessionStore.Remove until a
// new session has been created under the id the first leaver freed.
func G3LateUnregister(p *sut.Proc) *Result {
	return run("G3 late unregister x creation", func(r *Result) {
		const trig = "two last departures with a creation in between"
		ms, err := p.Metrics()
		must(err)
		base := ms["session_count"]
		l1 := scen.MustDial(p, "vod")
		defer l1.Close()
		_, _, err = l1.Join("")
		must(err)
		l2 := scen.MustDial(p, "vod")
		defer l2.Close()
		_, _, err = l2.Join(l1.SID)
		must(err)
		l1.Barrier()
		rt(p, "op=hold&site=models.Session.Broadcast")
		rt(p, "op=hold&site=models.SessionStore.Remove&skip=1")
		defer p.RT("op=reset")
		l1.Close()
		l2.Close()
		if !gateWait(p, "models.Session.Broadcast", 2) {
			r.Inconclusive = "G3: the two leavers never met at Session.Broadcast (the leave relay: after the removal, before the emptiness check)"
			return
		}
		rt(p, "op=release&site=models.Session.Broadcast")
		if !gateWait(p, "models.SessionStore.Remove", 1) {
			// only one leaver unregisters: the window does not exist in this tree
			r.GateReached = false
			r.Signature = "only one leaver reached SessionStore.Remove"
			rt(p, "op=reset")
			for _, c := range []*scen.C{l1, l2} {
				scen.Departed(p, c, 8*time.Second)
			}
			r.Findings = append(r.Findings, registryQuiescent(p, base, 0, trig)...)
			return
		}
		r.GateReached = true
		// one leaver has unregistered the session; the other is parked before doing it again
		cr := scen.MustDial(p, "vod")
		defer cr.Close()
		jr, _, err := cr.Join("")
		must(err)
		r.Signature = fmt.Sprintf("unregister(L1) < create(%s) < unregister(L2)", jr.SessionId)
		rt(p, "op=release&site=models.SessionStore.Remove")
		for _, c := range []*scen.C{l1, l2} {
			ok, err := scen.Departed(p, c, 8*time.Second)
			must(err)
			if !ok {
				r.Findings = append(r.Findings, f([]string{"C07", "C09"}, "liveness/handler-never-returned", trig, "a leaver's handler never returned"))
				return
			}
		}
		snap, err := scen.Probe(p, jr.SessionId, "vod")
		must(err)
		cr.Barrier()
		if !snap.Found || snap.Join.SessionUuid != jr.SessionUuid {
			r.Findings = append(r.Findings, f([]string{"C07", "C10", "C03"}, "registry/live-session-unregistered", trig,
				"a session created while a second, late unregistration of the ended session was pending (id %s, uuid %s) cannot be found afterwards (found=%v code=%d): the late unregistration removed the wrong session", jr.SessionId, jr.SessionUuid, snap.Found, snap.Code))
		}
		// a further creation must not be given the id of the live session
		cr2 := scen.MustDial(p, "vod")
		defer cr2.Close()
		jr2, _, err := cr2.Join("")
		must(err)
		if jr2.SessionId == jr.SessionId {
			r.Findings = append(r.Findings, f([]string{"C10", "C07"}, "id/session-shared", trig, "two live sessions share id %s (uuids %s and %s)", jr.SessionId, jr.SessionUuid, jr2.SessionUuid))
		}
		if len(r.Findings) == 0 {
			r.Findings = append(r.Findings, registryQuiescent(p, base, 2, trig)...)
		}
		for _, c := range []*scen.C{cr, cr2} {
			c.Close()
			scen.Departed(p, c, 8*time.Second)
		}
	})
}

// Sites lists the gate sites the scenarios rely on; a site that the
// instrumenter did not find makes its scenario inconclusive, never a pass.
func Sites() []string {
	return []string{"models.Session.NewParticipantID", "models.Session.Broadcast", "models.SessionStore.Remove"}
}

func HasSite(all []string, site string) bool {
	for _, s := range all {
		if s == site {
			return true
		}
	}
	return false
}

var _ = strings.Contains

// G6: two participants write the same (entity, action name) with equal
// timestamps; the first writer is held after it stored its action, before it
// relays it (at Session.Broadcast), the second stores and relays, then the
// first is released. Members apply the relays in the opposite order to the
// store: deterministic reproducer of the listed finding
// view/diverged-after-concurrent-block/same-key-writers.
func G6SameKeyActionWriters(p *sut.Proc) *Result {
	return run("G6 same-key action writers", func(r *Result) {
		const class = "same-key-writers(action)"
		p1 := scen.MustDial(p, "vod")
		defer p1.Close()
		_, _, err := p1.Join("")
		must(err)
		p2 := scen.MustDial(p, "vod")
		defer p2.Close()
		_, _, err = p2.Join(p1.SID)
		must(err)
		w := scen.MustDial(p, "vod")
		defer w.Close()
		_, _, err = w.Join(p1.SID)
		must(err)
		e, err := p1.AddEntity(true, 1)
		must(err)
		p1.Barrier()
		p2.Barrier()
		w.Barrier()
		rt(p, "op=hold&site=models.Session.Broadcast&max=1")
		defer p.RT("op=reset")
		mk := func(c *scen.C, data string) *vikjapb.EntityActionRequest {
			return &vikjapb.EntityActionRequest{Type: d.TActionReq, Timestamp: d.NewTag(), RequestId: c.NextReqID(),
				EntityAction: &vikjapb.EntityAction{EntityId: e, Name: "shared", Timestamp: &timestamppb.Timestamp{Seconds: 1_900_000_000}, Data: []byte(data)}}
		}
		must(p1.Send(mk(p1, "first-writer")))
		if !gateWait(p, "models.Session.Broadcast", 1) {
			r.Inconclusive = "G6: the first writer never reached Session.Broadcast"
			return
		}
		r.GateReached = true
		a, _, err := p2.Do(mk(p2, "second-writer"))
		must(err)
		if a == nil || a.Type == d.TError {
			r.Inconclusive = fmt.Sprint("G6: the second writer was refused: ", a)
			return
		}
		rt(p, "op=release&site=models.Session.Broadcast")
		p1.Barrier()
		win, err := w.Barrier()
		must(err)
		var order []string
		for _, ev := range win {
			if m, ok := ev.M.(*vikjapb.EntityActionBroadcast); ok {
				order = append(order, string(m.EntityAction.Data))
			}
		}
		r.Signature = fmt.Sprintf("store(first) < store(second) < relay(second) < relay(first): witness saw %v", order)
		snap, err := scen.Probe(p, p1.SID, "vod")
		must(err)
		server := ""
		for _, ac := range snap.Vikja.GetEntityActions() {
			if ac.EntityId == e && ac.Name == "shared" {
				server = string(ac.Data)
			}
		}
		if len(order) == 2 && order[len(order)-1] != server {
			r.Findings = append(r.Findings, &check.Finding{Props: []string{"C01"}, Clause: "view/diverged-after-concurrent-block", Trigger: class, Engine: "E2 gated interleaving",
				Detail: fmt.Sprintf("two accepted writes to one (entity, action name) from different connections: the witness received the relays in the order %v, so its view ends with %q, while the server (state handed to a probe) holds %q", order, order[len(order)-1], server)})
		}
	})
}

// G5: the component analogue of G6. Any member may add, update and delete the
// component of any entity; the store is written first and the relay is sent
// afterwards. P1's add is held between the two (at EntityComponentStore.Notify),
// P2 deletes the same (type, entity) - stored and relayed - then P1 is
// released: a subscribed witness receives "delete" then "add" and keeps a
// component the server no longer has.
func G5SameKeyComponentWriters(p *sut.Proc) *Result {
	return run("G5 same-key component writers", func(r *Result) {
		const class = "same-key-writers(component)"
		p1 := scen.MustDial(p, "vod")
		defer p1.Close()
		_, _, err := p1.Join("")
		must(err)
		p2 := scen.MustDial(p, "vod")
		defer p2.Close()
		_, _, err = p2.Join(p1.SID)
		must(err)
		w := scen.MustDial(p, "vod")
		defer w.Close()
		_, _, err = w.Join(p1.SID)
		must(err)
		e, err := p1.AddEntity(true, 1)
		must(err)
		t, err := p1.AddType("g5-type")
		must(err)
		_, err = w.Subscribe(t)
		must(err)
		p1.Barrier()
		p2.Barrier()
		w.Barrier()
		rt(p, "op=hold&site=models.EntityComponentStore.Notify&max=1")
		defer p.RT("op=reset")
		must(p1.Send(&hagallpb.EntityComponentAddRequest{Type: d.TCompAddReq, Timestamp: d.NewTag(), RequestId: p1.NextReqID(), EntityComponentTypeId: t, EntityId: e, Data: []byte("first-writer")}))
		if !gateWait(p, "models.EntityComponentStore.Notify", 1) {
			r.Inconclusive = "G5: the first writer never reached EntityComponentStore.Notify"
			return
		}
		r.GateReached = true
		a, err := p2.DelComp(t, e)
		must(err)
		if a == nil || a.Type == d.TError {
			r.Inconclusive = fmt.Sprint("G5: the second writer's delete was refused: ", a)
			return
		}
		rt(p, "op=release&site=models.EntityComponentStore.Notify")
		p1.Barrier()
		win, err := w.Barrier()
		must(err)
		var order []string
		has := false
		for _, ev := range win {
			switch ev.M.(type) {
			case *hagallpb.EntityComponentAddBroadcast:
				order = append(order, "add")
				has = true
			case *hagallpb.EntityComponentDeleteBroadcast:
				order = append(order, "delete")
				has = false
			}
		}
		r.Signature = fmt.Sprintf("store(add) < store(delete) < relay(delete) < relay(add): witness saw %v", order)
		snap, err := scen.Probe(p, p1.SID, "vod")
		must(err)
		server := false
		for _, cc := range snap.State.GetEntityComponents() {
			if cc.EntityComponentTypeId == t && cc.EntityId == e {
				server = true
			}
		}
		if len(order) == 2 && has != server {
			r.Findings = append(r.Findings, &check.Finding{Props: []string{"C01", "C12"}, Clause: "view/diverged-after-concurrent-block", Trigger: class, Engine: "E2 gated interleaving",
				Detail: fmt.Sprintf("an accepted component add and an accepted delete of the same (type, entity) from different connections: the subscribed witness received the relays in the order %v, so its view ends with component present=%v, while the server (state handed to a probe) has present=%v", order, has, server)})
		}
	})
}

// G4: the creator of a session is held inside its first module's Init, just
// before it registers the module state it created (Session.SetModuleState);
// its join response has already been sent, so a second client can join by id
// and run its own Init meanwhile. If get-or-create of the module state is not
// atomic, the two connections end up with two different states.
func G4ModuleStateRace(p *sut.Proc) *Result {
	return run("G4 module state get-or-create", func(r *Result) {
		const trig = "creator Init x joiner Init"
		// the creator is held where its module state is about to be registered:
		// SetModuleState (lookup and registration in two steps) or the entry of
		// an atomic get-or-create, whichever this tree has
		sites := []string{"models.Session.SetModuleState", "models.Session.ModuleStateOrSet"}
		for _, s := range sites {
			rt(p, "op=hold&site="+s+"&max=1")
		}
		defer p.RT("op=reset")
		cr := scen.MustDial(p, "vod")
		defer cr.Close()
		id := cr.NextReqID()
		must(cr.Send(&hagallpb.ParticipantJoinRequest{Type: d.TJoinReq, Timestamp: d.NewTag(), RequestId: id}))
		reached := ""
		for round := 0; round < 400 && reached == ""; round++ {
			h, err := p.RTHits()
			must(err)
			for _, s := range sites {
				if h.Parked[s] >= 1 {
					reached = s
				}
			}
			if reached == "" {
				time.Sleep(5 * time.Millisecond)
			}
		}
		if reached == "" {
			r.Inconclusive = "G4: the creator never reached the registration of its module state"
			return
		}
		r.GateReached = true
		// the join response was sent before Init: read it without a barrier
		ev, _, err := func() (*d.Event, []*d.Event, error) {
			var hit *d.Event
			before, err := cr.WaitFor(func(e *d.Event) bool {
				if e.Type == d.TJoinResp {
					hit = e
					return true
				}
				return false
			})
			return hit, before, err
		}()
		must(err)
		sid := ev.M.(*hagallpb.ParticipantJoinResponse).SessionId
		j := scen.MustDial(p, "vod")
		defer j.Close()
		jr, _, err := j.Join(sid)
		must(err)
		if jr == nil {
			r.Inconclusive = "G4: the second client could not join by id"
			return
		}
		for _, s := range sites {
			rt(p, "op=release&site="+s)
		}
		cr.Barrier()
		r.Signature = "creator held at " + reached + " < joiner's Init complete < creator released"
		// both write module state on their own entities
		ce, err := cr.AddEntity(true, 1)
		must(err)
		je, err := j.AddEntity(true, 2)
		must(err)
		a1, err := cr.Action(ce, "by-creator", 1_700_000_001, "c")
		must(err)
		a2, err := j.Action(je, "by-joiner", 1_700_000_002, "j")
		must(err)
		if a1 == nil || a1.Type == d.TError || a2 == nil || a2.Type == d.TError {
			r.Inconclusive = fmt.Sprint("G4: an action was refused: ", a1, a2)
			return
		}
		b1, err := cr.AddAsset(ce, "asset-c")
		must(err)
		b2, err := j.AddAsset(je, "asset-j")
		must(err)
		_, _ = b1, b2
		snap, err := scen.Probe(p, sid, "vod")
		must(err)
		acts := map[string]bool{}
		for _, a := range snap.Vikja.GetEntityActions() {
			acts[a.Name] = true
		}
		assets := map[string]bool{}
		for _, a := range snap.Odal.GetAssetInstances() {
			assets[a.AssetId] = true
		}
		if !acts["by-creator"] || !acts["by-joiner"] {
			r.Findings = append(r.Findings, f([]string{"C16", "C01"}, "module-state/split", trig,
				"both participants' entity actions were accepted, but a newcomer is handed only %v: the two connections hold different module states", acts))
		}
		if !assets["asset-c"] || !assets["asset-j"] {
			r.Findings = append(r.Findings, f([]string{"C16", "C01"}, "module-state/split", trig,
				"both participants' asset instances were accepted, but a newcomer is handed only %v", assets))
		}
	})
}

// G3c: the last departure of one session overlaps the creation of another. The
// leaver is held just before SessionStore.Remove takes the store lock; a new
// session is created meanwhile; then the leaver is released. The new session
// must still be findable under its id afterwards.
func G3cLastLeaveVsCreate(p *sut.Proc) *Result {
	return run("G3c last departure x creation", func(r *Result) {
		const trig = "last departure x creation"
		const site = "models.SessionStore.Remove%23lock1"
		ms, err := p.Metrics()
		must(err)
		base := ms["session_count"]
		l := scen.MustDial(p, "vod")
		defer l.Close()
		_, _, err = l.Join("")
		must(err)
		rt(p, "op=hold&site="+site)
		defer p.RT("op=reset")
		l.Close()
		if !gateWait(p, site, 1) {
			r.Inconclusive = "G3c: the leaver never reached the lock of SessionStore.Remove"
			return
		}
		r.GateReached = true
		cr := scen.MustDial(p, "vod")
		defer cr.Close()
		// the creation must not need the held lock before the leaver took it: it is issued without waiting
		id := cr.NextReqID()
		must(cr.Send(&hagallpb.ParticipantJoinRequest{Type: d.TJoinReq, Timestamp: d.NewTag(), RequestId: id}))
		time.Sleep(20 * time.Millisecond) // let the creator run as far as it can (no verdict depends on it)
		rt(p, "op=release&site="+site)
		win, err := cr.Barrier()
		must(err)
		var jr *hagallpb.ParticipantJoinResponse
		for _, e := range win {
			if m, ok := e.M.(*hagallpb.ParticipantJoinResponse); ok && m.RequestId == id {
				jr = m
			}
		}
		if jr == nil {
			r.Findings = append(r.Findings, f([]string{"C07", "C04"}, "join/not-answered", trig, "the creation that overlapped a last departure was not answered with success: %v", win))
			return
		}
		ok, err := scen.Departed(p, l, 8*time.Second)
		must(err)
		if !ok {
			r.Findings = append(r.Findings, f([]string{"C07", "C09"}, "liveness/handler-never-returned", trig, "the leaver's handler never returned"))
			return
		}
		r.Signature = fmt.Sprintf("leaver before store lock < create(%s) < unregister(old %s)", jr.SessionId, l.SID)
		snap, err := scen.Probe(p, jr.SessionId, "vod")
		must(err)
		cr.Barrier()
		if !snap.Found || snap.Join.SessionUuid != jr.SessionUuid {
			r.Findings = append(r.Findings, f([]string{"C07", "C10", "C03"}, "registry/live-session-unregistered", trig,
				"a session created while the last departure of another session (id %s) was in progress got id %s uuid %s and cannot be found afterwards (found=%v code=%d)", l.SID, jr.SessionId, jr.SessionUuid, snap.Found, snap.Code))
			return
		}
		r.Findings = append(r.Findings, registryQuiescent(p, base, 1, trig)...)
	})
}

// RegistryStorm: connections create sessions, have a second connection join
// each by id right away, and end them, all at once (free-running or
// jittered). A session that has a member must be findable under its id.
func RegistryStorm(p *sut.Proc, pairs, rounds int) (created int, findings []*check.Finding, inconclusive []string) {
	var mu sync.Mutex
	var wg sync.WaitGroup
	start := make(chan struct{})
	ms, err := p.Metrics()
	if err != nil {
		return 0, nil, []string{err.Error()}
	}
	base := ms["session_count"]
	for i := 0; i < pairs; i++ {
		wg.Add(1)
		go func(i int) {
			defer wg.Done()
			defer func() {
				if x := recover(); x != nil {
					mu.Lock()
					inconclusive = append(inconclusive, fmt.Sprint("registry storm: ", x))
					mu.Unlock()
				}
			}()
			<-start
			for k := 0; k < rounds; k++ {
				a := scen.MustDial(p, "")
				b := scen.MustDial(p, "")
				jr, _, err := a.Join("")
				must(err)
				if jr == nil {
					panic("creation refused")
				}
				jb, ev, err := b.Join(jr.SessionId)
				must(err)
				mu.Lock()
				created++
				if jb == nil {
					code, _ := scen.IsErr(ev)
					findings = append(findings, f([]string{"C07"}, "registry/live-session-not-findable", "create-join-end storm",
						"a session that was just created (id %s uuid %s) and whose creator is still a member could not be joined by id (error %d)", jr.SessionId, jr.SessionUuid, code))
				} else if jb.SessionUuid != jr.SessionUuid {
					findings = append(findings, f([]string{"C07", "C10"}, "registry/id-names-another-session", "create-join-end storm",
						"joining id %s right after creating it (uuid %s) landed in uuid %s", jr.SessionId, jr.SessionUuid, jb.SessionUuid))
				}
				mu.Unlock()
				a.Close()
				b.Close()
				scen.Departed(p, a, 8*time.Second)
				scen.Departed(p, b, 8*time.Second)
			}
		}(i)
	}
	close(start)
	wg.Wait()
	if len(findings) == 0 {
		findings = append(findings, registryQuiescent(p, base, 0, "create-join-end storm")...)
	}
	return
}

// JoinLeaveRaceStorm: free-running races between a join by id and the
// departure of the session's last member (released together, with a random
// skew of up to 300 us either way). The oracle is G1's: a join answered with
// success leaves the joiner in a live session that a probe finds under the
// same id and uuid, listing the joiner; a refused join leaves nothing behind.
func JoinLeaveRaceStorm(p *sut.Proc, pairs, rounds int, seed int64) (races, accepted int, findings []*check.Finding, inconclusive []string) {
	var mu sync.Mutex
	var wg sync.WaitGroup
	ms, err := p.Metrics()
	if err != nil {
		return 0, 0, nil, []string{err.Error()}
	}
	base := ms["session_count"]
	for i := 0; i < pairs; i++ {
		wg.Add(1)
		go func(i int) {
			defer wg.Done()
			defer func() {
				if x := recover(); x != nil {
					mu.Lock()
					inconclusive = append(inconclusive, fmt.Sprint("join-leave race storm: ", x))
					mu.Unlock()
				}
			}()
			h := uint64(seed)*0x9E3779B97F4A7C15 + uint64(i)*0xBF58476D1CE4E5B9
			for k := 0; k < rounds; k++ {
				h = h*6364136223846793005 + 1442695040888963407
				skew := time.Duration(int64(h>>33)%600-300) * time.Microsecond
				a := scen.MustDial(p, "")
				b := scen.MustDial(p, "")
				jr, _, err := a.Join("")
				must(err)
				if jr == nil {
					panic("creation refused")
				}
				_, err = b.Barrier()
				must(err)
				id := b.NextReqID()
				var inner sync.WaitGroup
				inner.Add(2)
				go func() {
					defer inner.Done()
					if skew > 0 {
						time.Sleep(skew)
					}
					a.Close()
				}()
				go func() {
					defer inner.Done()
					if skew < 0 {
						time.Sleep(-skew)
					}
					b.Send(&hagallpb.ParticipantJoinRequest{Type: d.TJoinReq, Timestamp: d.NewTag(), RequestId: id, SessionId: jr.SessionId})
				}()
				inner.Wait()
				if ok, _ := scen.Departed(p, a, 8*time.Second); !ok {
					panic("the last member's handler never returned")
				}
				win, err := b.Barrier()
				must(err)
				var got *hagallpb.ParticipantJoinResponse
				for _, e := range win {
					if m, ok := e.M.(*hagallpb.ParticipantJoinResponse); ok && m.RequestId == id {
						got = m
					}
				}
				mu.Lock()
				races++
				mu.Unlock()
				if got != nil {
					snap, err := scen.Probe(p, got.SessionId, "")
					must(err)
					mu.Lock()
					accepted++
					switch {
					case !snap.Found:
						findings = append(findings, f([]string{"C07"}, "join/orphaned", "join-by-id x last departure (free-running)",
							"a join by id racing the departure of the last member was answered with success (session %s uuid %s participant %d) but a probe joining by that id gets error %d: the session was unregistered under the joiner", got.SessionId, got.SessionUuid, got.ParticipantId, snap.Code))
					case snap.Join.SessionUuid != got.SessionUuid:
						findings = append(findings, f([]string{"C07", "C10"}, "join/orphaned", "join-by-id x last departure (free-running)",
							"a join by id racing the departure of the last member was answered with success for session %s uuid %s, but that id now names uuid %s", got.SessionId, got.SessionUuid, snap.Join.SessionUuid))
					}
					mu.Unlock()
				}
				b.Close()
				scen.Departed(p, b, 8*time.Second)
			}
		}(i)
	}
	wg.Wait()
	if len(findings) == 0 {
		findings = append(findings, registryQuiescent(p, base, 0, "join-by-id x last departure (free-running)")...)
	}
	return
}

// G13: the frame worker and a departing member deadlock on the member's full
// request queue. X has a pose update pending and starts leaving (session
// switch); its main loop is held at the entry of leaveSession (standing for a
// main loop blocked in the departure's relays towards a stalled peer, which
// the free-running stall+leave trial of C08 reaches without gates); X's
// client writes 300 more requests, which fill X's queue (256); a frame tick
// then blocks pushing X's pending update into that queue while holding the
// frame read lock; released, X needs the frame write lock to stop its frame
// handling. Deterministic reproducer of the listed finding
// liveness/wedged/stall/leave-with-full-queue-while-peer-stalls.
func G13FrameWorkerVsLeaver(p *sut.Proc) *Result {
	return run("G13 frame worker x departing member with a full queue", func(r *Result) {
		const site = "websocket.RealtimeHandler.leaveSession"
		w := scen.MustDial(p, "")
		defer w.Close()
		_, _, err := w.Join("")
		must(err)
		x := scen.MustDial(p, "")
		defer x.Close()
		_, _, err = x.Join(w.SID)
		must(err)
		xe, err := x.AddEntity(false, 1)
		must(err)
		we, err := w.AddEntity(false, 2)
		must(err)
		w.Barrier()
		x.Barrier()
		rt(p, "op=hold&site="+site)
		defer p.RT("op=reset")
		joinID := x.NextReqID()
		must(x.Send(&hagallpb.ParticipantJoinRequest{Type: d.TJoinReq, Timestamp: d.NewTag(), RequestId: joinID}))
		if !gateWait(p, site, 1) {
			r.Inconclusive = "G13: the leaver never reached leaveSession"
			return
		}
		r.GateReached = true
		x.Timeout = 3 * time.Second
		// 250 requests (the queue holds 256), then the pose update (stored as
		// pending by the receiver), then enough requests to fill the queue
		for i := 0; i < 310; i++ {
			if i == 250 {
				x.Pose(xe, 99)
			}
			if err := x.Send(&hagallpb.Request{Type: d.TPingReq, Timestamp: d.NewTag(), RequestId: x.NextReqID()}); err != nil {
				break
			}
		}
		// a few frame ticks: the worker reaches X's handler and finds the queue full
		time.Sleep(60 * time.Millisecond)
		rt(p, "op=release&site="+site)
		answered := false
		x.Timeout = 6 * time.Second
		x.WaitFor(func(e *d.Event) bool {
			if m, ok := e.M.(*hagallpb.ParticipantJoinResponse); ok && m.RequestId == joinID {
				answered = true
				return true
			}
			return false
		})
		r.Signature = fmt.Sprintf("leaver held in leaveSession < queue full < frame tick blocked on the queue < leaver released: switch answered=%v", answered)
		d1, e1 := p.Goroutines()
		time.Sleep(500 * time.Millisecond)
		d2, e2 := p.Goroutines()
		if !answered && e1 == nil && e2 == nil {
			stuck := stuckIn(d1, d2)
			if len(stuck) >= 2 {
				r.Findings = append(r.Findings, &check.Finding{Props: []string{"C08", "C09"}, Clause: "liveness/wedged", Trigger: "stall/leave-with-full-queue-while-peer-stalls", Engine: "E2 gated interleaving",
					Detail: "a member that leaves with a pending pose update and a full request queue deadlocks against the session's frame worker: its session switch is never answered and the session relays no pose update any more; goroutines parked across two dumps:\n" + strings.Join(stuck, "\n---\n")})
			} else {
				r.Inconclusive = "G13: the switch was not answered but no pair of parked goroutines was found"
			}
		}
		_ = we
	})
}

// stuckIn returns goroutines blocked at the same hagall place in both dumps.
func stuckIn(d1, d2 string) []string {
	parse := func(dump string) map[string]string {
		out := map[string]string{}
		for _, g := range strings.Split(dump, "\n\n") {
			head, _, _ := strings.Cut(g, "\n")
			if !strings.HasPrefix(head, "goroutine ") || !(strings.Contains(head, "[chan send") || strings.Contains(head, "RWMutex.Lock") || strings.Contains(head, "Mutex.Lock")) {
				continue
			}
			if !strings.Contains(g, "aukilabs/hagall") || strings.Contains(g, "verifrt.P") {
				continue
			}
			out[strings.Fields(head)[1]] = g
		}
		return out
	}
	a, b := parse(d1), parse(d2)
	var out []string
	for id, g := range a {
		if _, ok := b[id]; ok {
			if len(g) > 1200 {
				g = g[:1200] + "…"
			}
			out = append(out, g)
		}
	}
	return out
}
