package e2

import (
	"fmt"
	"sync"
	"time"

	"github.com/aukilabs/hagall-common/messages/hagallpb"

	"verif/internal/check"
	d "verif/internal/driver"
	"verif/internal/scen"
	"verif/internal/sut"
)

// AddStormStats is what one entity-add storm observed.
type AddStormStats struct {
	Findings     []*check.Finding
	Inconclusive string
	Conns        int
	Adds         int // adds answered with an id
	DistinctIDs  int
}

// EntityAddStorm: `conns` members of one session pipeline `perConn` entity
// adds each, all at once (the connections carry DISABLE_ENTITY_ADD_BROADCAST,
// so that the storm is made of id allocations rather than of relays).
// Ownership rests on ids: every add must be answered exactly once with an id
// nobody else in the session was given (C05, C10), and afterwards a newcomer
// is handed every entity with the participant that was told it created it.
func EntityAddStorm(p *sut.Proc, conns, perConn int) (st *AddStormStats) {
	st = &AddStormStats{Conns: conns}
	af := func(props []string, clause, format string, a ...any) *check.Finding {
		return &check.Finding{Props: props, Clause: clause, Trigger: "entity-add-storm", Detail: fmt.Sprintf(format, a...), Engine: "E2 entity-add storm"}
	}
	defer func() {
		if x := recover(); x != nil {
			if !p.Alive() {
				st.Findings = append(st.Findings, af([]string{"C09", "C08"}, "process/exited", "the server process ended during an entity-add storm: %s\n%s", p.ExitInfo(), p.CrashHead(4000)))
				return
			}
			st.Inconclusive = fmt.Sprint("entity-add storm: ", x)
		}
	}()
	var cs []*scen.C
	defer func() {
		for _, c := range cs {
			c.Close()
		}
		for _, c := range cs {
			scen.Departed(p, c, 8*time.Second)
		}
	}()
	sid := ""
	for i := 0; i < conns; i++ {
		c, err := scen.Dial(p, "", "DISABLE_ENTITY_ADD_BROADCAST")
		must(err)
		c.Timeout = 60 * time.Second
		cs = append(cs, c)
		jr, _, err := c.Join(sid)
		must(err)
		if jr == nil {
			panic("join refused during the setup of an entity-add storm")
		}
		sid = jr.SessionId
	}
	for _, c := range cs {
		_, err := c.Barrier()
		must(err)
	}
	start := make(chan struct{})
	var wg sync.WaitGroup
	errs := make([]error, conns)
	first := make([]uint32, conns)
	for i, c := range cs {
		wg.Add(1)
		go func(i int, c *scen.C) {
			defer wg.Done()
			<-start
			for k := 0; k < perConn; k++ {
				id := c.NextReqID()
				if k == 0 {
					first[i] = id
				}
				if err := c.Send(&hagallpb.EntityAddRequest{Type: d.TEntityAddReq, Timestamp: d.NewTag(), RequestId: id, Persist: true, Pose: &hagallpb.Pose{Px: float32(i), Py: float32(k), Rw: 1}}); err != nil {
					errs[i] = err
					return
				}
			}
		}(i, c)
	}
	close(start)
	wg.Wait()
	for _, err := range errs {
		must(err)
	}
	owner := map[uint32]int{} // entity id -> connection that was told it created it
	pidOf := map[int]uint32{}
	for i, c := range cs {
		pidOf[i] = c.PID
		if _, err := c.Barrier(); err != nil {
			panic(fmt.Errorf("barrier after the storm: %w", err))
		}
		answered := map[uint32]int{}
		for _, e := range c.LogCopy() {
			r, ok := e.M.(*hagallpb.EntityAddResponse)
			if !ok || r.RequestId < first[i] {
				continue
			}
			answered[r.RequestId]++
			st.Adds++
			if prev, dup := owner[r.EntityId]; dup {
				st.Findings = append(st.Findings, af([]string{"C05", "C10"}, "entity-id/issued-twice", "%d members of one session pipelined %d entity adds each at the same time: entity id %d was given to participant %d and to participant %d - each was told it created that entity, so each can delete, move and attach assets to what the other believes it owns", conns, perConn, r.EntityId, pidOf[prev], c.PID))
				if len(st.Findings) > 3 {
					return
				}
				continue
			}
			owner[r.EntityId] = i
		}
		if len(answered) != perConn {
			st.Findings = append(st.Findings, af([]string{"C04", "C05"}, "entity-add/not-answered-exactly-once", "participant %d pipelined %d entity adds and got answers to %d of them", c.PID, perConn, len(answered)))
		}
		for id, n := range answered {
			if n != 1 {
				st.Findings = append(st.Findings, af([]string{"C04"}, "entity-add/not-answered-exactly-once", "participant %d: entity add %d was answered %d times", c.PID, id, n))
				break
			}
		}
	}
	st.DistinctIDs = len(owner)
	if len(st.Findings) > 0 {
		return
	}
	snap, err := scen.Probe(p, sid, "")
	must(err)
	if !snap.Found {
		panic("the session cannot be probed after the storm")
	}
	handed := map[uint32]uint32{}
	for _, e := range snap.State.GetEntities() {
		if _, dup := handed[e.Id]; dup {
			st.Findings = append(st.Findings, af([]string{"C05", "C10", "C01"}, "entity-id/issued-twice", "a newcomer is handed two entities with id %d", e.Id))
		}
		handed[e.Id] = e.ParticipantId
	}
	bad := 0
	for id, i := range owner {
		if got, ok := handed[id]; !ok || got != pidOf[i] {
			bad++
			if bad <= 3 {
				st.Findings = append(st.Findings, af([]string{"C05", "C01"}, "entity/owner-differs-from-creator", "participant %d was told it created entity %d; a newcomer is handed that entity with participant %d (present: %v)", pidOf[i], id, got, ok))
			}
		}
	}
	return
}
