package e2

import (
	"fmt"
	"sync"
	"time"

	"github.com/aukilabs/hagall-common/messages/dagazpb"

	"verif/internal/check"
	d "verif/internal/driver"
	"verif/internal/scen"
	"verif/internal/sut"
)

// DagazStats is what one concurrent grid storm observed.
type DagazStats struct {
	Inserted, Queries int
	Findings          []*check.Finding
	Inconclusive      string
}

// DagazStorm: `members` connections of one session insert unit quads on a 3 m
// lattice at the same time (each its own positions, spread so that the grid
// grows in all four directions while others insert and query), pipelined,
// while every second member also issues region and ground-plane queries. The
// samples never overlap, so they are never merged: at quiescence the plane
// count equals the number of samples sent, a whole-grid region query lists
// each exactly once, and a vertical ray through each sample's centre hits it
// (index complete: the plane is registered in the cell its centre lies in).
func DagazStorm(p *sut.Proc, members, perConn int, seed int64) (st *DagazStats) {
	st = &DagazStats{}
	defer func() {
		if x := recover(); x != nil {
			if !p.Alive() {
				st.Findings = append(st.Findings, &check.Finding{Props: []string{"C09", "C08", "C20"}, Clause: "process/exited", Trigger: "dagaz-storm", Engine: "E2 dagaz storm",
					Detail: fmt.Sprintf("the server process ended during a concurrent grid storm: %s\n%s", p.ExitInfo(), p.CrashHead(4000))})
				return
			}
			st.Inconclusive = fmt.Sprint("dagaz storm: ", x)
		}
	}()
	var conns []*scen.C
	defer func() {
		for _, c := range conns {
			c.Close()
		}
		for _, c := range conns {
			scen.Departed(p, c, 8*time.Second)
		}
	}()
	sid := ""
	for i := 0; i < members; i++ {
		c := scen.MustDial(p, "d")
		c.Timeout = 90 * time.Second
		conns = append(conns, c)
		jr, _, err := c.Join(sid)
		must(err)
		if jr == nil {
			panic("join refused")
		}
		sid = jr.SessionId
	}
	type pos struct{ x, z float32 }
	all := map[pos]bool{}
	start := make(chan struct{})
	var wg sync.WaitGroup
	errs := make([]error, members)
	for i, c := range conns {
		// member i owns column block i: x = 3*(i*perConn + k) alternating sign, z spreads too
		var mine []pos
		for k := 0; k < perConn; k++ {
			n := i*perConn + k
			q := pos{float32(3 * (n%24 - 12)), float32(3 * (n/24 - 6))}
			if (int64(n)+seed)%2 == 0 {
				q.x, q.z = -q.x, -q.z
			}
			for all[q] {
				q.z += 3 * 40
			}
			all[q] = true
			mine = append(mine, q)
		}
		wg.Add(1)
		go func(i int, c *scen.C, mine []pos) {
			defer wg.Done()
			<-start
			for k, q := range mine {
				if err := c.Send(&dagazpb.DagazQuadSample{Type: d.TQuadSample, Timestamp: d.NewTag(), Samples: []*dagazpb.Quad{{Center: &dagazpb.Point{X: q.x, Z: q.z}, Extents: &dagazpb.Point{X: 1, Z: 1}}}}); err != nil {
					errs[i] = err
					return
				}
				if i%2 == 0 && k%3 == 0 {
					c.Send(&dagazpb.DagazGetRegionRequest{Type: d.TRegionReq, Timestamp: d.NewTag(), RequestId: c.NextReqID(), Min: &dagazpb.Point{X: -500, Z: -500}, Max: &dagazpb.Point{X: 500, Z: 500}})
					c.Send(&dagazpb.DagazGetGroundPlaneRequest{Type: d.TGroundPlaneReq, Timestamp: d.NewTag(), RequestId: c.NextReqID(),
						Ray: &dagazpb.Ray{From: &dagazpb.Point{X: q.x, Y: 1, Z: q.z}, To: &dagazpb.Point{X: q.x, Y: -1, Z: q.z}}})
				}
			}
			_, errs[i] = c.Barrier()
		}(i, c, mine)
	}
	close(start)
	wg.Wait()
	for i, err := range errs {
		if err != nil {
			st.Findings = append(st.Findings, &check.Finding{Props: []string{"C09", "C08"}, Clause: "storm/connection-failed", Trigger: "dagaz-storm", Engine: "E2 dagaz storm",
				Detail: fmt.Sprintf("connection %d of a concurrent grid storm: %v", i, err)})
			return
		}
	}
	st.Inserted = len(all)
	df := func(clause, format string, a ...any) {
		st.Findings = append(st.Findings, &check.Finding{Props: []string{"C20", "C09"}, Clause: clause, Trigger: "dagaz-storm", Engine: "E2 dagaz storm", Detail: fmt.Sprintf(format, a...)})
	}
	q := conns[len(conns)-1]
	a, _, err := q.Do(&dagazpb.DagazGetDebugInfoRequest{Type: d.TDebugInfoReq, Timestamp: d.NewTag(), RequestId: q.NextReqID()})
	must(err)
	info, ok := a.M.(*dagazpb.DagazGetDebugInfoResponse)
	if !ok {
		panic(fmt.Sprint("debug info answered with ", a))
	}
	if int(info.GridPlaneCount) != len(all) || info.GridMergeCount != 0 {
		df("dagaz/plane-count", "%d non-overlapping samples were inserted concurrently by %d connections; the grid reports %d planes and %d merges", len(all), members, info.GridPlaneCount, info.GridMergeCount)
	}
	a, _, err = q.Do(&dagazpb.DagazGetRegionRequest{Type: d.TRegionReq, Timestamp: d.NewTag(), RequestId: q.NextReqID(), Min: &dagazpb.Point{X: -1000, Z: -1000}, Max: &dagazpb.Point{X: 1000, Z: 1000}})
	must(err)
	reg, ok := a.M.(*dagazpb.DagazGetRegionResponse)
	if !ok {
		panic(fmt.Sprint("region answered with ", a))
	}
	got := map[pos]int{}
	for _, qd := range reg.Quads {
		got[pos{qd.GetCenter().GetX(), qd.GetCenter().GetZ()}]++
	}
	missing, dup := 0, 0
	for k := range all {
		if got[k] == 0 {
			missing++
		} else if got[k] > 1 {
			dup++
		}
	}
	if missing > 0 || dup > 0 || len(got) != len(all) {
		df("dagaz/region-contents", "after %d concurrent insertions a whole-grid region query lists %d distinct planes: %d samples missing, %d listed more than once", len(all), len(got), missing, dup)
	}
	// during the storm: a region answer lists no plane twice and nothing that was never sent
	checkRegion := func(who int, reg *dagazpb.DagazGetRegionResponse, exact bool) {
		seen := map[pos]int{}
		for _, qd := range reg.Quads {
			k := pos{qd.GetCenter().GetX(), qd.GetCenter().GetZ()}
			seen[k]++
			if !all[k] {
				df("dagaz/region-contents", "a region answer to connection %d lists a plane at (%v, %v) that nobody sent", who, k.x, k.z)
				return
			}
		}
		for k, n := range seen {
			if n > 1 {
				df("dagaz/region-contents", "a region answer to connection %d (queries running concurrently on several connections) lists the plane at (%v, %v) %d times; %d entries for %d stored planes", who, k.x, k.z, n, len(reg.Quads), len(all))
				return
			}
		}
		if exact && len(seen) != len(all) {
			df("dagaz/region-contents", "a whole-grid region answer to connection %d lists %d of the %d stored planes", who, len(seen), len(all))
		}
	}
	for i, c := range conns {
		for _, e := range c.LogCopy() {
			if reg, ok := e.M.(*dagazpb.DagazGetRegionResponse); ok {
				st.Queries++
				checkRegion(i, reg, false)
			}
		}
		if len(st.Findings) > 0 {
			return
		}
	}
	// concurrent query phase: nothing is inserted any more, every member asks for the whole grid 30 times at once
	marks := make([]int, len(conns))
	for i, c := range conns {
		marks[i] = len(c.LogCopy())
	}
	start2 := make(chan struct{})
	var wg2 sync.WaitGroup
	for i, c := range conns {
		wg2.Add(1)
		go func(i int, c *scen.C) {
			defer wg2.Done()
			<-start2
			for k := 0; k < 30; k++ {
				c.Send(&dagazpb.DagazGetRegionRequest{Type: d.TRegionReq, Timestamp: d.NewTag(), RequestId: c.NextReqID(), Min: &dagazpb.Point{X: -1000, Z: -1000}, Max: &dagazpb.Point{X: 1000, Z: 1000}})
			}
			_, errs[i] = c.Barrier()
		}(i, c)
	}
	close(start2)
	wg2.Wait()
	for i, c := range conns {
		if errs[i] != nil {
			panic(errs[i])
		}
		n := 0
		for _, e := range c.LogCopy()[marks[i]:] {
			if reg, ok := e.M.(*dagazpb.DagazGetRegionResponse); ok {
				n++
				st.Queries++
				checkRegion(i, reg, true)
			}
		}
		if n != 30 {
			df("dagaz/query-not-answered", "connection %d pipelined 30 region queries and got %d answers", i, n)
		}
		if len(st.Findings) > 0 {
			return
		}
	}
	// a vertical ray through every sample
	miss := 0
	n := 0
	for k := range all {
		n++
		if n > 80 {
			break
		}
		a, _, err := q.Do(&dagazpb.DagazGetGroundPlaneRequest{Type: d.TGroundPlaneReq, Timestamp: d.NewTag(), RequestId: q.NextReqID(),
			Ray: &dagazpb.Ray{From: &dagazpb.Point{X: k.x, Y: 1, Z: k.z}, To: &dagazpb.Point{X: k.x, Y: -1, Z: k.z}}})
		must(err)
		st.Queries++
		gp, ok := a.M.(*dagazpb.DagazGetGroundPlaneResponse)
		if !ok || gp.GetGround() == nil || gp.GetGround().GetCenter().GetX() != k.x || gp.GetGround().GetCenter().GetZ() != k.z {
			miss++
			if miss == 1 {
				df("dagaz/plane-missing-from-its-cell", "a vertical ray through the centre (%v, %v) of a sample inserted during the storm does not hit it: answered %s", k.x, k.z, a)
			}
		}
	}
	return
}
