// Package fakes holds the harness-owned stand-ins for the services the relay
// talks to: the network credit service (NCS) and the discovery service (HDS).
package fakes

import (
	"encoding/json"
	"io"
	"net"
	"net/http"
	"strings"
	"sync"
	"time"
)

// Post is one request received by the fake credit service.
type Post struct {
	Path      string
	Receipt   string `json:"receipt"`
	Hash      []byte `json:"hash"`
	Signature []byte `json:"signature"`
	Raw       []byte
}

// NCS is a fake network credit service.
type NCS struct {
	mu    sync.Mutex
	posts []Post
	Mode  string // "ok" | "slow" | "500"
	ln    net.Listener
	srv   *http.Server
}

func NewNCS(mode string) (*NCS, error) {
	ln, err := net.Listen("tcp", "127.0.0.1:0")
	if err != nil {
		return nil, err
	}
	n := &NCS{Mode: mode, ln: ln}
	n.srv = &http.Server{Handler: http.HandlerFunc(n.handle)}
	go n.srv.Serve(ln)
	return n, nil
}

func (n *NCS) URL() string { return "http://" + n.ln.Addr().String() }

func (n *NCS) Close() { n.srv.Close() }

func (n *NCS) handle(w http.ResponseWriter, r *http.Request) {
	b, _ := io.ReadAll(r.Body)
	p := Post{Path: r.URL.Path, Raw: b}
	json.Unmarshal(b, &p)
	n.mu.Lock()
	n.posts = append(n.posts, p)
	mode := n.Mode
	n.mu.Unlock()
	switch mode {
	case "slow":
		time.Sleep(300 * time.Millisecond)
		w.WriteHeader(http.StatusOK)
	case "hang":
		// answers, but only after several seconds
		time.Sleep(3 * time.Second)
		w.WriteHeader(http.StatusOK)
	case "drop":
		// reads the request, then drops the connection without answering
		if hj, ok := w.(http.Hijacker); ok {
			if conn, _, err := hj.Hijack(); err == nil {
				conn.Close()
				return
			}
		}
		w.WriteHeader(http.StatusBadGateway)
	case "500":
		w.WriteHeader(http.StatusInternalServerError)
		w.Write([]byte(`{"error":"internal"}`))
	default:
		// like a real service: an answer with a body (a client that never reads or
		// closes response bodies keeps the connection busy)
		w.Header().Set("Content-Type", "application/json")
		w.WriteHeader(http.StatusOK)
		w.Write([]byte(`{"status":"accepted","id":"` + p.Receipt[:min(len(p.Receipt), 24)] + `","note":"` + strings.Repeat("x", 600) + `"}`))
	}
}

// Posts returns a copy of what was received so far.
func (n *NCS) Posts() []Post {
	n.mu.Lock()
	defer n.mu.Unlock()
	return append([]Post(nil), n.posts...)
}

// ClosedPortURL returns a URL on which nothing listens.
func ClosedPortURL() string {
	ln, err := net.Listen("tcp", "127.0.0.1:0")
	if err != nil {
		return "http://127.0.0.1:9"
	}
	addr := ln.Addr().String()
	ln.Close()
	return "http://" + addr
}
