package fakes

import (
	"encoding/json"
	"fmt"
	"io"
	"net"
	"net/http"
	"sync"
	"time"
)

// HDS is a fake discovery service: it answers POST /servers and calls the
// registering server back on /registrations with an id and a JWT secret; it
// performs health checks (which keep the registration alive) unless told to
// withhold them, which forces a re-registration = a secret rotation.
type HDS struct {
	mu            sync.Mutex
	ln            net.Listener
	srv           *http.Server
	secrets       []string      // every secret issued, in order
	endpoint      string        // the registering server's public endpoint
	Delay         time.Duration // delay before the registration callback
	health        bool
	stop          chan struct{}
	SmokeResults  [][]byte
	Registrations int
	CallbackErrs  []string
}

func NewHDS() (*HDS, error) {
	ln, err := net.Listen("tcp", "127.0.0.1:0")
	if err != nil {
		return nil, err
	}
	h := &HDS{ln: ln, health: true, stop: make(chan struct{})}
	mux := http.NewServeMux()
	mux.HandleFunc("/servers", h.servers)
	mux.HandleFunc("/smoke-test-results", func(w http.ResponseWriter, r *http.Request) {
		b, _ := io.ReadAll(r.Body)
		h.mu.Lock()
		h.SmokeResults = append(h.SmokeResults, b)
		h.mu.Unlock()
		w.WriteHeader(200)
	})
	mux.HandleFunc("/", func(w http.ResponseWriter, r *http.Request) { w.WriteHeader(200) })
	h.srv = &http.Server{Handler: mux}
	go h.srv.Serve(ln)
	go h.healthLoop()
	return h, nil
}

func (h *HDS) URL() string { return "http://" + h.ln.Addr().String() }

func (h *HDS) Close() {
	close(h.stop)
	h.srv.Close()
}

// Secret returns the secret issued most recently ("" if none).
func (h *HDS) Secret() string {
	h.mu.Lock()
	defer h.mu.Unlock()
	if len(h.secrets) == 0 {
		return ""
	}
	return h.secrets[len(h.secrets)-1]
}

func (h *HDS) Secrets() []string {
	h.mu.Lock()
	defer h.mu.Unlock()
	return append([]string(nil), h.secrets...)
}

// SetHealthChecks turns the periodic health checks on or off.
func (h *HDS) SetHealthChecks(on bool) {
	h.mu.Lock()
	h.health = on
	h.mu.Unlock()
}

func (h *HDS) servers(w http.ResponseWriter, r *http.Request) {
	if r.Method != http.MethodPost {
		w.WriteHeader(200)
		return
	}
	b, _ := io.ReadAll(r.Body)
	var in struct {
		Endpoint string `json:"endpoint"`
		State    string `json:"state"`
	}
	json.Unmarshal(b, &in)
	h.mu.Lock()
	h.Registrations++
	n := h.Registrations
	h.endpoint = in.Endpoint
	delay := h.Delay
	h.mu.Unlock()
	secret := fmt.Sprintf("secret-%d-%d", n, time.Now().UnixNano())
	go func() {
		time.Sleep(delay)
		req, _ := http.NewRequest(http.MethodPost, in.Endpoint+"/registrations", nil)
		req.Header.Set("Hagall-Id", fmt.Sprintf("srv%d", n))
		req.Header.Set("Hagall-Jwt-Secret", secret)
		req.Header.Set("Hagall-Registration-State", in.State)
		resp, err := http.DefaultClient.Do(req)
		h.mu.Lock()
		defer h.mu.Unlock()
		if err != nil {
			h.CallbackErrs = append(h.CallbackErrs, err.Error())
			return
		}
		resp.Body.Close()
		if resp.StatusCode == 200 {
			h.secrets = append(h.secrets, secret)
		} else {
			h.CallbackErrs = append(h.CallbackErrs, resp.Status)
		}
	}()
	w.WriteHeader(200)
}

func (h *HDS) healthLoop() {
	t := time.NewTicker(100 * time.Millisecond)
	defer t.Stop()
	for {
		select {
		case <-h.stop:
			return
		case <-t.C:
			h.mu.Lock()
			ep, on := h.endpoint, h.health && len(h.secrets) > 0
			h.mu.Unlock()
			if !on || ep == "" {
				continue
			}
			req, _ := http.NewRequest(http.MethodGet, ep+"/health", nil)
			req.Header.Set("User-Agent", "HDS v0.0.0-verif")
			if resp, err := http.DefaultClient.Do(req); err == nil {
				resp.Body.Close()
			}
		}
	}
}

// SmokeResultsCopy returns the smoke-test results received so far.
func (h *HDS) SmokeResultsCopy() [][]byte {
	h.mu.Lock()
	defer h.mu.Unlock()
	return append([][]byte(nil), h.SmokeResults...)
}
