// Package sut builds systems under test from /repo's current working tree
// (through a build overlay) and supervises them as child processes.
package sut

import (
	"encoding/json"
	"fmt"
	"io"
	"net"
	"net/http"
	"net/url"
	"os"
	"os/exec"
	"path/filepath"
	"regexp"
	"sort"
	"strconv"
	"strings"
	"sync"
	"syscall"
	"time"

	"verif/internal/instr"
)

const Repo = "/repo"

// VerifDir is the root of the verification framework.
var VerifDir = func() string {
	if d := os.Getenv("VERIF_DIR"); d != "" {
		return d
	}
	return "/verif"
}()

const TestKeyHex = "4c0883a69102937d6231471b5dbb6204fe5129617082792ae468d01a3f362318"

func goEnv() []string {
	env := os.Environ()
	env = append(env, "GOFLAGS=-mod=mod", "GOPROXY=off", "GOSUMDB=off", "GOTOOLCHAIN=local")
	return env
}

// Workspace is a scratch directory holding overlay and binaries of one check.
type Workspace struct {
	Dir     string
	Overlay *instr.Result
	mu      sync.Mutex
	bins    map[string]string

	lockEdges map[string]*LockEdge
	lockAcqs  uint64
}

func NewWorkspace() (*Workspace, error) {
	base := os.Getenv("VERIF_SCRATCH")
	if base == "" {
		base = os.TempDir()
	}
	dir, err := os.MkdirTemp(base, "vcheck-")
	if err != nil {
		return nil, err
	}
	w := &Workspace{Dir: dir, bins: map[string]string{}}
	// VERIF_REPO_SHADOW (development only: seeded-change trials that must not touch
	// /repo): sources are read from that copy, the build still happens in /repo
	ov, err := instr.BuildShadow(Repo, os.Getenv("VERIF_REPO_SHADOW"), filepath.Join(dir, "ov"), map[string]string{
		"verifrt/verifrt.go": filepath.Join(VerifDir, "overlaysrc/verifrt/verifrt.go"),
		"cmd/verif_init.go":  filepath.Join(VerifDir, "overlaysrc/cmd/verif_init.go"),
	}, true)
	if err != nil {
		os.RemoveAll(dir)
		return nil, err
	}
	w.Overlay = ov
	return w, nil
}

func (w *Workspace) Close() { os.RemoveAll(w.Dir) }

// Build builds kind ("lab" or "real") in variant ("plain", "race", "asan").
func (w *Workspace) Build(kind, variant string) (string, error) {
	w.mu.Lock()
	defer w.mu.Unlock()
	key := kind + "-" + variant
	if b, ok := w.bins[key]; ok {
		return b, nil
	}
	out := filepath.Join(w.Dir, key)
	args := []string{"build", "-tags", "verif", "-overlay", w.Overlay.OverlayJSON, "-o", out}
	switch variant {
	case "race":
		args = append(args, "-race")
	case "asan":
		args = append(args, "-asan")
	}
	var dir string
	switch kind {
	case "lab":
		dir = VerifDir
		args = append(args, "./sut/labsut")
	case "real":
		dir = Repo
		args = append(args, "./cmd")
	default:
		return "", fmt.Errorf("unknown SUT kind %q", kind)
	}
	cmd := exec.Command("go", args...)
	cmd.Dir = dir
	cmd.Env = goEnv()
	if b, err := cmd.CombinedOutput(); err != nil {
		return "", fmt.Errorf("building %s failed: %v\n%s", key, err, b)
	}
	w.bins[key] = out
	return out, nil
}

// BuildMain builds a harness-owned main package of /verif (e.g. ./sut/e6grid)
// against /repo with the overlay.
func (w *Workspace) BuildMain(pkg, variant string) (string, error) {
	w.mu.Lock()
	defer w.mu.Unlock()
	key := "main-" + strings.ReplaceAll(strings.Trim(pkg, "./"), "/", "_") + "-" + variant
	if b, ok := w.bins[key]; ok {
		return b, nil
	}
	out := filepath.Join(w.Dir, key)
	args := []string{"build", "-tags", "verif", "-overlay", w.Overlay.OverlayJSON, "-o", out}
	if variant == "race" {
		args = append(args, "-race")
	}
	args = append(args, pkg)
	cmd := exec.Command("go", args...)
	cmd.Dir = VerifDir
	cmd.Env = goEnv()
	if b, err := cmd.CombinedOutput(); err != nil {
		return "", fmt.Errorf("building %s failed: %v\n%s", key, err, b)
	}
	w.bins[key] = out
	return out, nil
}

// GoTestBinary builds a test binary of a /verif package against /repo (E6).
func (w *Workspace) GoTestBinary(pkg, variant string) (string, error) {
	w.mu.Lock()
	defer w.mu.Unlock()
	key := "test-" + strings.ReplaceAll(strings.Trim(pkg, "./"), "/", "_") + "-" + variant
	if b, ok := w.bins[key]; ok {
		return b, nil
	}
	out := filepath.Join(w.Dir, key)
	args := []string{"test", "-c", "-tags", "verif", "-overlay", w.Overlay.OverlayJSON, "-o", out}
	if variant == "race" {
		args = append(args, "-race")
	}
	args = append(args, pkg)
	cmd := exec.Command("go", args...)
	cmd.Dir = VerifDir
	cmd.Env = goEnv()
	if b, err := cmd.CombinedOutput(); err != nil {
		return "", fmt.Errorf("building %s failed: %v\n%s", key, err, b)
	}
	w.bins[key] = out
	return out, nil
}

// Proc is a running SUT child.
type Proc struct {
	Cmd     *exec.Cmd
	Addr    string // host:port of the relay
	Admin   string // host:port of the admin endpoints
	LogPath string
	RaceLog string // prefix of race-detector log files ("" when not a race build)
	done    chan struct{}
	waitErr error
	HTTP    *http.Client
	RTBase  string // host:port of the verifrt control listener of a real SUT
	// RealToken: the process is the real binary; harness connections present
	// this access token (minted with the secret of the fake discovery service)
	RealToken string
	locks     bool // lock-order monitor on: the edges are collected into the workspace when the process is killed
	ws        *Workspace
}

// LockEdge: some goroutine asked for lock class To while holding class From.
type LockEdge struct {
	From     string `json:"from"`
	To       string `json:"to"`
	FromSite string `json:"from_site"`
	ToSite   string `json:"to_site"`
	Count    int    `json:"count"`
}

// LockGraph returns the lock-order edges collected from all processes that
// ran with LabOpts.Locks, and the number of acquisitions they reported.
func (w *Workspace) LockGraph() ([]LockEdge, uint64) {
	w.mu.Lock()
	defer w.mu.Unlock()
	var out []LockEdge
	for _, e := range w.lockEdges {
		out = append(out, *e)
	}
	sort.Slice(out, func(i, j int) bool { return out[i].From+out[i].To < out[j].From+out[j].To })
	return out, w.lockAcqs
}

func (p *Proc) collectLocks() {
	if !p.locks || p.ws == nil || !p.Alive() {
		return
	}
	s, err := p.RT("op=locks")
	if err != nil {
		return
	}
	var g struct {
		Acquisitions uint64     `json:"acquisitions"`
		Edges        []LockEdge `json:"edges"`
	}
	if json.Unmarshal([]byte(s), &g) != nil {
		return
	}
	w := p.ws
	w.mu.Lock()
	defer w.mu.Unlock()
	if w.lockEdges == nil {
		w.lockEdges = map[string]*LockEdge{}
	}
	w.lockAcqs += g.Acquisitions
	for _, e := range g.Edges {
		k := e.From + " -> " + e.To
		if old := w.lockEdges[k]; old != nil {
			old.Count += e.Count
		} else {
			c := e
			w.lockEdges[k] = &c
		}
	}
	p.locks = false
}

type LabOpts struct {
	Frame, Idle, Sync time.Duration
	LogSum            time.Duration // interval of the per-connection log summary worker (0 = one hour)
	NCS               string
	Auth              bool
	RT                string // initial verifrt mode: "", "jitter", "sched"
	Env               []string
	Race              bool
	Locks             bool // lock-order monitor (plain builds: its bookkeeping would add happens-before edges)
	Name              string
	VLimitKB          int // address-space limit of the child (plain builds only; 0 = none)
}

var listenRe = regexp.MustCompile(`LISTEN addr=(\S+) admin=(\S+)`)

// StartLab starts a lab SUT binary.
func (w *Workspace) StartLab(bin string, o LabOpts) (*Proc, error) {
	if o.Frame == 0 {
		o.Frame = 5 * time.Millisecond
	}
	if o.Idle == 0 {
		o.Idle = 10 * time.Minute
	}
	if o.Sync == 0 {
		o.Sync = time.Hour
	}
	args := []string{"-key", TestKeyHex, "-frame", o.Frame.String(), "-idle", o.Idle.String(), "-sync", o.Sync.String()}
	if o.LogSum > 0 {
		args = append(args, "-logsum", o.LogSum.String())
	}
	if o.NCS != "" {
		args = append(args, "-ncs", o.NCS)
	}
	if o.Auth {
		args = append(args, "-auth")
	}
	name := o.Name
	if name == "" {
		name = "lab"
	}
	f, err := os.CreateTemp(w.Dir, name+"-*.log")
	if err != nil {
		return nil, err
	}
	p := &Proc{LogPath: f.Name(), done: make(chan struct{}), HTTP: &http.Client{Timeout: 30 * time.Second}}
	cmd := exec.Command(bin, args...)
	if o.VLimitKB > 0 && !o.Race {
		sh := fmt.Sprintf("ulimit -v %d; exec \"$0\" \"$@\"", o.VLimitKB)
		cmd = exec.Command("/bin/sh", append([]string{"-c", sh, bin}, args...)...)
	}
	cmd.Env = append(os.Environ(), "GOMEMLIMIT=4GiB", "GOTRACEBACK=all")
	if o.Race {
		p.RaceLog = f.Name() + ".race"
		cmd.Env = append(cmd.Env, "GORACE=halt_on_error=0 log_path="+p.RaceLog)
	}
	cmd.Env = append(cmd.Env, o.Env...)
	cmd.Stdout = f
	cmd.Stderr = f
	if err := cmd.Start(); err != nil {
		return nil, err
	}
	p.Cmd = cmd
	go func() {
		p.waitErr = cmd.Wait()
		f.Close()
		close(p.done)
	}()
	// the child prints its addresses first: poll its log for them
	deadline := time.Now().Add(30 * time.Second)
	for p.Addr == "" {
		b, _ := os.ReadFile(p.LogPath)
		if len(b) > 4096 {
			b = b[:4096]
		}
		if m := listenRe.FindSubmatch(b); m != nil {
			p.Addr, p.Admin = string(m[1]), string(m[2])
			break
		}
		select {
		case <-p.done:
			b, _ := os.ReadFile(p.LogPath)
			return nil, fmt.Errorf("SUT exited at start: %v\n%s", p.waitErr, b)
		default:
		}
		if time.Now().After(deadline) {
			p.Kill()
			return nil, fmt.Errorf("SUT did not print its addresses")
		}
		time.Sleep(2 * time.Millisecond)
	}
	switch o.RT {
	case "jitter":
		p.RT("op=mode&v=1")
	case "sched":
		p.RT("op=mode&v=2")
	}
	if o.Locks {
		p.RT("op=locktrack&v=1")
		p.locks, p.ws = true, w
	}
	return p, nil
}

func (p *Proc) Alive() bool {
	select {
	case <-p.done:
		return false
	default:
		return true
	}
}

// ExitInfo describes how the child ended ("" while alive).
func (p *Proc) ExitInfo() string {
	select {
	case <-p.done:
		if p.waitErr == nil {
			return "exit 0"
		}
		return p.waitErr.Error()
	default:
		return ""
	}
}

func (p *Proc) Kill() {
	p.collectLocks()
	if p.Cmd != nil && p.Cmd.Process != nil {
		p.Cmd.Process.Kill()
		<-p.done
	}
}

// Quit sends SIGQUIT (goroutine dump into the log) and waits.
func (p *Proc) Quit() {
	if p.Cmd != nil && p.Cmd.Process != nil && p.Alive() {
		p.Cmd.Process.Signal(syscall.SIGQUIT)
		select {
		case <-p.done:
		case <-time.After(5 * time.Second):
			p.Kill()
		}
	}
}

func (p *Proc) LogTail(n int) string {
	b, _ := os.ReadFile(p.LogPath)
	if len(b) > n {
		b = b[len(b)-n:]
	}
	return string(b)
}

// CrashHead returns the beginning of the Go runtime's crash report (panic or
// fatal error) in the child's log, or its tail if there is none.
func (p *Proc) CrashHead(n int) string {
	b, _ := os.ReadFile(p.LogPath)
	s := string(b)
	idx := -1
	for _, marker := range []string{"\npanic: ", "\nfatal error: ", "\nWARNING: DATA RACE"} {
		if i := strings.Index(s, marker); i >= 0 && (idx < 0 || i < idx) && marker != "\nWARNING: DATA RACE" {
			idx = i
		}
	}
	if idx < 0 {
		return p.LogTail(n)
	}
	s = s[idx:]
	if len(s) > n {
		s = s[:n]
	}
	return s
}

func (p *Proc) get(path string) ([]byte, int, error) {
	resp, err := p.HTTP.Get("http://" + p.Admin + path)
	if err != nil {
		return nil, 0, err
	}
	defer resp.Body.Close()
	b, err := io.ReadAll(resp.Body)
	return b, resp.StatusCode, err
}

// RT sends a verifrt control operation.
func (p *Proc) RT(query string) (string, error) {
	b, code, err := p.get("/verif/rt?" + query)
	if err != nil {
		return "", err
	}
	if code != 200 {
		return string(b), fmt.Errorf("rt %s: status %d: %s", query, code, b)
	}
	return string(b), nil
}

type RTHits struct {
	Hits   map[string]uint64 `json:"hits"`
	Parked map[string]int    `json:"parked"`
}

func (p *Proc) RTHits() (*RTHits, error) {
	s, err := p.RT("op=hits")
	if err != nil {
		return nil, err
	}
	var h RTHits
	err = json.Unmarshal([]byte(s), &h)
	return &h, err
}

type ConnInfo struct {
	Live  int `json:"live"`
	Inner int `json:"inner"`
	By    map[string]struct{ Entered, Returned int }
}

func (p *Proc) Conns(cid string) (*ConnInfo, error) {
	b, _, err := p.get("/verif/conns?cid=" + url.QueryEscape(cid))
	if err != nil {
		return nil, err
	}
	var ci ConnInfo
	err = json.Unmarshal(b, &ci)
	return &ci, err
}

// WaitTicks waits until n whole frame ticks of session sid have elapsed.
// ok=false with err==nil means the session does not exist (any more) or the
// ticks did not come within the bound.
func (p *Proc) WaitTicks(sid string, n int, bound time.Duration) (ok bool, reason string, err error) {
	b, _, err := p.get(fmt.Sprintf("/verif/ticks?sid=%s&wait=%d&ms=%d", url.QueryEscape(sid), n, bound.Milliseconds()))
	if err != nil {
		return false, "", err
	}
	var r struct {
		OK  bool   `json:"ok"`
		Err string `json:"err"`
	}
	if err := json.Unmarshal(b, &r); err != nil {
		return false, "", err
	}
	return r.OK, r.Err, nil
}

// Metrics scrapes /metrics and returns the summed value per metric name.
func (p *Proc) Metrics() (map[string]float64, error) {
	b, _, err := p.get("/metrics")
	if err != nil {
		return nil, err
	}
	out := map[string]float64{}
	for _, line := range strings.Split(string(b), "\n") {
		if line == "" || line[0] == '#' {
			continue
		}
		i := strings.LastIndexByte(line, ' ')
		if i < 0 {
			continue
		}
		name := line[:i]
		if j := strings.IndexByte(name, '{'); j >= 0 {
			name = name[:j]
		}
		v, err := strconv.ParseFloat(line[i+1:], 64)
		if err == nil {
			out[name] += v
		}
	}
	return out, nil
}

// Goroutines returns the debug=2 goroutine dump.
func (p *Proc) Goroutines() (string, error) {
	b, _, err := p.get("/debug/pprof/goroutine?debug=2")
	return string(b), err
}

// CountGoroutines counts goroutines whose stack mentions the given function.
func CountGoroutines(dump, fn string) int {
	n := 0
	for _, g := range strings.Split(dump, "\n\n") {
		if strings.Contains(g, fn) {
			n++
		}
	}
	return n
}

// RaceReports returns the text of all race-detector log files of p.
func (p *Proc) RaceReports() string {
	if p.RaceLog == "" {
		return ""
	}
	m, _ := filepath.Glob(p.RaceLog + "*")
	var sb strings.Builder
	for _, f := range m {
		b, _ := os.ReadFile(f)
		sb.Write(b)
	}
	return sb.String()
}

// RealOpts configures the real binary (cmd/main.go).
type RealOpts struct {
	HDS, NCS    string
	Flags       []string // HAGALL_FEATURE_FLAGS (JSON list, as cmd's option parser expects)
	Frame, Idle time.Duration
	HealthTTL   time.Duration
	RegInterval time.Duration
	Race        bool
	Name        string
	RTAddr      bool // start the verifrt control listener
	// Defaults: leave frame duration, idle timeout, sync-clock interval and log
	// summary interval to cmd/main.go's own defaults (15 ms, 5 min, 5 s, 1 min)
	// except for the ones set explicitly in Env
	Defaults bool
	Env      []string
}

func freePort() string {
	ln, err := net.Listen("tcp", "127.0.0.1:0")
	if err != nil {
		return "127.0.0.1:0"
	}
	defer ln.Close()
	return ln.Addr().String()
}

// StartReal starts the real binary against fake services. RT (verifrt control)
// is served on its own port when requested (Proc.RTBase).
func (w *Workspace) StartReal(bin string, o RealOpts) (*Proc, error) {
	if o.Frame == 0 {
		o.Frame = 5 * time.Millisecond
	}
	if o.Idle == 0 {
		o.Idle = 10 * time.Minute
	}
	if o.HealthTTL == 0 {
		o.HealthTTL = time.Hour
	}
	if o.RegInterval == 0 {
		o.RegInterval = 200 * time.Millisecond
	}
	name := o.Name
	if name == "" {
		name = "real"
	}
	f, err := os.CreateTemp(w.Dir, name+"-*.log")
	if err != nil {
		return nil, err
	}
	p := &Proc{LogPath: f.Name(), done: make(chan struct{}), HTTP: &http.Client{Timeout: 30 * time.Second}}
	p.Addr, p.Admin = freePort(), freePort()
	flagsJSON, _ := json.Marshal(o.Flags)
	cmd := exec.Command(bin)
	cmd.Env = append(os.Environ(), "GOTRACEBACK=all",
		"HAGALL_ADDR="+p.Addr, "HAGALL_ADMIN_ADDR="+p.Admin, "HAGALL_PUBLIC_ENDPOINT=http://"+p.Addr,
		"HAGALL_PRIVATE_KEY="+TestKeyHex, "HAGALL_LOG_LEVEL=warning",
		"HAGALL_HDS_ENDPOINT="+o.HDS, "HAGALL_NCS_ENDPOINT="+o.NCS, "HAGALL_EVENTS_ENDPOINT=",
		"HAGALL_HDS_REGISTRATION_INTERVAL="+o.RegInterval.String(), "HAGALL_HDS_HEALTHCHECK_TTL="+o.HealthTTL.String(),
		"HAGALL_CLOCK_CHECKER_INITIAL_DELAY=24h")
	if !o.Defaults {
		cmd.Env = append(cmd.Env, "HAGALL_FRAME_DURATION="+o.Frame.String(), "HAGALL_CLIENT_IDLE_TIMEOUT="+o.Idle.String(),
			"HAGALL_SYNC_CLOCK_INTERVAL=1h", "HAGALL_LOG_SUMMARY_INTERVAL=1h")
	}
	cmd.Env = append(cmd.Env, o.Env...)
	if len(o.Flags) > 0 {
		cmd.Env = append(cmd.Env, "HAGALL_FEATURE_FLAGS="+string(flagsJSON))
	}
	if o.RTAddr {
		p.RTBase = freePort()
		cmd.Env = append(cmd.Env, "VERIF_RT_ADDR="+p.RTBase)
	}
	if o.Race {
		p.RaceLog = f.Name() + ".race"
		cmd.Env = append(cmd.Env, "GORACE=halt_on_error=0 log_path="+p.RaceLog)
	}
	cmd.Stdout, cmd.Stderr = f, f
	if err := cmd.Start(); err != nil {
		return nil, err
	}
	p.Cmd = cmd
	go func() {
		p.waitErr = cmd.Wait()
		f.Close()
		close(p.done)
	}()
	// wait for the admin port
	deadline := time.Now().Add(30 * time.Second)
	for {
		if c, err := net.DialTimeout("tcp", p.Admin, time.Second); err == nil {
			c.Close()
			if c2, err := net.DialTimeout("tcp", p.Addr, time.Second); err == nil {
				c2.Close()
				break
			}
		}
		select {
		case <-p.done:
			b, _ := os.ReadFile(p.LogPath)
			return nil, fmt.Errorf("real SUT exited at start: %v\n%s", p.waitErr, b)
		default:
		}
		if time.Now().After(deadline) {
			p.Kill()
			return nil, fmt.Errorf("real SUT did not open its ports")
		}
		time.Sleep(5 * time.Millisecond)
	}
	return p, nil
}
