// Package model is the executable reference model of the relay protocol: a
// small deterministic specification of what the *properties* demand. Where a
// property leaves a choice open the model accepts every member of a set.
// Server-issued ids are opaque: the model learns them from answers and only
// demands freshness/consistency (C10), never particular values.
package model

import (
	"bytes"
	"fmt"
	"sort"
	"strings"

	"github.com/aukilabs/hagall-common/messages/dagazpb"
	"github.com/aukilabs/hagall-common/messages/hagallpb"
	"github.com/aukilabs/hagall-common/messages/odalpb"
	"github.com/aukilabs/hagall-common/messages/vikjapb"
	"google.golang.org/protobuf/proto"
	"google.golang.org/protobuf/types/known/timestamppb"

	d "verif/internal/driver"
)

type Pose [7]float32

func PoseFromPB(p *hagallpb.Pose) Pose {
	if p == nil {
		return Pose{}
	}
	return Pose{p.Px, p.Py, p.Pz, p.Rx, p.Ry, p.Rz, p.Rw}
}
func (p Pose) PB() *hagallpb.Pose {
	return &hagallpb.Pose{Px: p[0], Py: p[1], Pz: p[2], Rx: p[3], Ry: p[4], Rz: p[5], Rw: p[6]}
}

type Entity struct {
	ID, Owner uint32
	Persist   bool
	Flag      int32
	Pose      Pose
}

type CompKey struct{ Type, Entity uint32 }
type ActKey struct {
	Entity uint32
	Name   string
}
type Action struct {
	Entity uint32
	Name   string
	Sec    int64
	Nanos  int32
	Data   []byte
	HasTS  bool
}
type Asset struct {
	ID          uint32
	AssetID     string
	Participant uint32
	Entity      uint32
}

// State is the replicated part of a session: what C01 compares.
type State struct {
	Participants map[uint32]bool
	Entities     map[uint32]Entity
	Comps        map[CompKey][]byte
	Actions      map[ActKey]Action
	Assets       map[uint32]Asset // by entity id
}

func NewState() *State {
	return &State{map[uint32]bool{}, map[uint32]Entity{}, map[CompKey][]byte{}, map[ActKey]Action{}, map[uint32]Asset{}}
}

func (s *State) Clone() *State {
	c := NewState()
	for k, v := range s.Participants {
		c.Participants[k] = v
	}
	for k, v := range s.Entities {
		c.Entities[k] = v
	}
	for k, v := range s.Comps {
		c.Comps[k] = v
	}
	for k, v := range s.Actions {
		c.Actions[k] = v
	}
	for k, v := range s.Assets {
		c.Assets[k] = v
	}
	return c
}

// RemoveEntity removes an entity with everything attached to it.
func (s *State) RemoveEntity(e uint32) {
	delete(s.Entities, e)
	for k := range s.Comps {
		if k.Entity == e {
			delete(s.Comps, k)
		}
	}
	for k := range s.Actions {
		if k.Entity == e {
			delete(s.Actions, k)
		}
	}
	delete(s.Assets, e)
}

// Session is the model of one live session.
type Session struct {
	SID, UUID string
	*State
	Members   map[uint32]int // participant id -> connection
	Types     map[string]uint32
	TypeNames map[uint32]string
	Subs      map[uint32]map[uint32]bool // type -> participant set
	// dagaz: centres of the ground-plane samples accepted so far. The generator
	// only sends unit quads on a 3 m lattice, which never overlap and therefore
	// never merge: the plane count and the whole-region listing are exact.
	Planes map[[3]float32]bool
	// id ledgers (C10): everything ever issued under this uuid
	IssuedPIDs, IssuedEIDs, IssuedAIDs map[uint32]bool
}

func (s *Session) subscribers(t uint32) []uint32 {
	var out []uint32
	for p := range s.Subs[t] {
		out = append(out, p)
	}
	sort.Slice(out, func(i, j int) bool { return out[i] < out[j] })
	return out
}

// Conn is the model of one connection.
type Conn struct {
	ID    int
	Sess  *Session
	PID   uint32
	Dead  bool
	Mods  string // module letters loaded for this connection
	Flags map[string]bool
}

// Model is the whole server.
type Model struct {
	Sessions  map[string]*Session // live, by session id
	Conns     map[int]*Conn
	SeenUUIDs map[string]bool
	// statistics for evidence
	Ended   int // sessions ended
	Reused  int // session ids reused
	everSID map[string]bool
	// the last few ended sessions (for attributing cross-session leaks)
	EndedStates []*Session
}

func New() *Model {
	return &Model{Sessions: map[string]*Session{}, Conns: map[int]*Conn{}, SeenUUIDs: map[string]bool{}, everSID: map[string]bool{}}
}

func (m *Model) AddConn(id int, mods string, flags []string) *Conn {
	c := &Conn{ID: id, Mods: mods, Flags: map[string]bool{}}
	for _, f := range flags {
		c.Flags[f] = true
	}
	m.Conns[id] = c
	return c
}

func has(mods string, c byte) bool {
	for i := 0; i < len(mods); i++ {
		if mods[i] == c {
			return true
		}
	}
	return false
}

// Req is one request as issued by the driver.
type Req struct {
	Kind string
	Tag  *timestamppb.Timestamp
	ID   uint32 // request id

	SID        string
	Entity     uint32
	TypeID     uint32
	Name       string
	Data       []byte
	Persist    bool
	Flag       int32
	Pose       *Pose
	Recipients []uint32
	// action
	ActNil bool
	ActTS  *timestamppb.Timestamp
	// signed latency
	Count  uint32
	Wallet string
	// receipt
	Receipt   string
	Hash, Sig []byte
	// close
	How string
	// dagaz
	Quads    [][6]float32
	Ray      [6]float32
	Min, Max [3]float32
}

func (r *Req) String() string {
	s := fmt.Sprintf("%s id=%d tag=%d", r.Kind, r.ID, d.TagID(r.Tag))
	switch r.Kind {
	case "join":
		s += fmt.Sprintf(" sid=%q", r.SID)
	case "entity_add":
		s += fmt.Sprintf(" persist=%v flag=%d pose=%v", r.Persist, r.Flag, r.Pose)
	case "entity_del":
		s += fmt.Sprintf(" e=%d", r.Entity)
	case "pose":
		s += fmt.Sprintf(" e=%d pose=%v", r.Entity, r.Pose)
	case "custom":
		s += fmt.Sprintf(" to=%v len=%d", r.Recipients, len(r.Data))
	case "type_add", "get_id":
		s += fmt.Sprintf(" name=%q", r.Name)
	case "get_name", "comp_list", "sub", "unsub":
		s += fmt.Sprintf(" t=%d", r.TypeID)
	case "comp_add", "comp_del", "comp_upd":
		s += fmt.Sprintf(" t=%d e=%d data=%q", r.TypeID, r.Entity, r.Data)
	case "action":
		s += fmt.Sprintf(" e=%d name=%q ts=%v nil=%v", r.Entity, r.Name, r.ActTS, r.ActNil)
	case "asset_add":
		s += fmt.Sprintf(" e=%d asset=%q", r.Entity, r.Name)
	case "dz_quad":
		s += fmt.Sprintf(" quads=%v", r.Quads)
	case "signed_latency":
		s += fmt.Sprintf(" n=%d wallet=%q", r.Count, r.Wallet)
	case "receipt":
		s += fmt.Sprintf(" r=%q h=%x s=%x", r.Receipt, r.Hash, r.Sig)
	case "close":
		s += " how=" + r.How
	}
	return s
}

// Deferred reports whether the request waits for the next frame.
func (r *Req) Deferred() bool { return r.Kind == "pose" || r.Kind == "comp_upd" }

// Proto builds the wire message.
func (r *Req) Proto() proto.Message {
	switch r.Kind {
	case "join":
		return &hagallpb.ParticipantJoinRequest{Type: d.TJoinReq, Timestamp: r.Tag, RequestId: r.ID, SessionId: r.SID}
	case "entity_add":
		m := &hagallpb.EntityAddRequest{Type: d.TEntityAddReq, Timestamp: r.Tag, RequestId: r.ID, Persist: r.Persist, Flag: hagallpb.EntityFlag(r.Flag)}
		if r.Pose != nil {
			m.Pose = r.Pose.PB()
		}
		return m
	case "entity_del":
		return &hagallpb.EntityDeleteRequest{Type: d.TEntityDelReq, Timestamp: r.Tag, RequestId: r.ID, EntityId: r.Entity}
	case "pose":
		m := &hagallpb.EntityUpdatePose{Type: d.TPoseUpdate, Timestamp: r.Tag, EntityId: r.Entity}
		if r.Pose != nil {
			m.Pose = r.Pose.PB()
		}
		return m
	case "custom":
		return &hagallpb.CustomMessage{Type: d.TCustom, Timestamp: r.Tag, ParticipantIds: r.Recipients, Body: r.Data}
	case "type_add":
		return &hagallpb.EntityComponentTypeAddRequest{Type: d.TTypeAddReq, Timestamp: r.Tag, RequestId: r.ID, EntityComponentTypeName: r.Name}
	case "get_name":
		return &hagallpb.EntityComponentTypeGetNameRequest{Type: d.TGetNameReq, Timestamp: r.Tag, RequestId: r.ID, EntityComponentTypeId: r.TypeID}
	case "get_id":
		return &hagallpb.EntityComponentTypeGetIdRequest{Type: d.TGetIDReq, Timestamp: r.Tag, RequestId: r.ID, EntityComponentTypeName: r.Name}
	case "comp_add":
		return &hagallpb.EntityComponentAddRequest{Type: d.TCompAddReq, Timestamp: r.Tag, RequestId: r.ID, EntityComponentTypeId: r.TypeID, EntityId: r.Entity, Data: r.Data}
	case "comp_del":
		return &hagallpb.EntityComponentDeleteRequest{Type: d.TCompDelReq, Timestamp: r.Tag, RequestId: r.ID, EntityComponentTypeId: r.TypeID, EntityId: r.Entity}
	case "comp_upd":
		return &hagallpb.EntityComponentUpdate{Type: d.TCompUpdate, Timestamp: r.Tag, EntityComponentTypeId: r.TypeID, EntityId: r.Entity, Data: r.Data}
	case "comp_list":
		return &hagallpb.EntityComponentListRequest{Type: d.TCompListReq, Timestamp: r.Tag, RequestId: r.ID, EntityComponentTypeId: r.TypeID}
	case "sub":
		return &hagallpb.EntityComponentTypeSubscribeRequest{Type: d.TSubReq, Timestamp: r.Tag, RequestId: r.ID, EntityComponentTypeId: r.TypeID}
	case "unsub":
		return &hagallpb.EntityComponentTypeUnsubscribeRequest{Type: d.TUnsubReq, Timestamp: r.Tag, RequestId: r.ID, EntityComponentTypeId: r.TypeID}
	case "ping":
		return &hagallpb.Request{Type: d.TPingReq, Timestamp: r.Tag, RequestId: r.ID}
	case "pong":
		return &hagallpb.Response{Type: d.TPingResp, Timestamp: r.Tag, RequestId: r.ID}
	case "signed_latency":
		return &hagallpb.SignedLatencyRequest{Type: d.TSignedLatReq, Timestamp: r.Tag, RequestId: r.ID, IterationCount: r.Count, WalletAddress: r.Wallet}
	case "receipt":
		return &hagallpb.ReceiptRequest{Type: d.TReceiptReq, Timestamp: r.Tag, RequestId: r.ID, Receipt: r.Receipt, Hash: r.Hash, Signature: r.Sig}
	case "action":
		m := &vikjapb.EntityActionRequest{Type: d.TActionReq, Timestamp: r.Tag, RequestId: r.ID}
		if !r.ActNil {
			m.EntityAction = &vikjapb.EntityAction{EntityId: r.Entity, Name: r.Name, Timestamp: r.ActTS, Data: r.Data}
		}
		return m
	case "asset_add":
		return &odalpb.AssetInstanceAddRequest{Type: d.TAssetAddReq, Timestamp: r.Tag, RequestId: r.ID, EntityId: r.Entity, AssetId: r.Name}
	case "dz_quad":
		m := &dagazpb.DagazQuadSample{Type: d.TQuadSample, Timestamp: r.Tag}
		for _, q := range r.Quads {
			m.Samples = append(m.Samples, &dagazpb.Quad{Center: &dagazpb.Point{X: q[0], Y: q[1], Z: q[2]}, Extents: &dagazpb.Point{X: q[3], Y: q[4], Z: q[5]}})
		}
		return m
	case "dz_info":
		return &dagazpb.DagazGetDebugInfoRequest{Type: d.TDebugInfoReq, Timestamp: r.Tag, RequestId: r.ID}
	case "dz_region":
		return &dagazpb.DagazGetRegionRequest{Type: d.TRegionReq, Timestamp: r.Tag, RequestId: r.ID,
			Min: &dagazpb.Point{X: r.Min[0], Y: r.Min[1], Z: r.Min[2]}, Max: &dagazpb.Point{X: r.Max[0], Y: r.Max[1], Z: r.Max[2]}}
	}
	return nil
}

// Pat is one expected message.
type Pat struct {
	M         proto.Message // Timestamp unset; OriginTimestamp unset when AnyOrigin
	AnyOrigin bool
	Desc      string
	Props     []string // properties blamed when the pattern is missing or duplicated
}

// Violation is one failed oracle clause.
type Violation struct {
	Props  []string
	Clause string
	Detail string
}

func (v Violation) String() string {
	return fmt.Sprintf("%v %s: %s", v.Props, v.Clause, v.Detail)
}

// Outcome is what the model says about one executed request.
type Outcome struct {
	Viol     []Violation
	Must     map[int][]Pat // relays each other connection must receive exactly once
	May      map[int][]Pat // relays another connection may receive at most once
	Closed   bool          // the requester's connection ended (model updated)
	Accepted bool
	Refused  bool
	Reason   string
	// learned ids
	NewEntity uint32
	NewType   uint32
	NewAsset  uint32
	Joined    *Session
}

func (o *Outcome) viol(props []string, clause, format string, a ...any) {
	o.Viol = append(o.Viol, Violation{props, clause, fmt.Sprintf(format, a...)})
}

func (o *Outcome) must(conn int, p Pat) {
	if o.Must == nil {
		o.Must = map[int][]Pat{}
	}
	o.Must[conn] = append(o.Must[conn], p)
}
func (o *Outcome) may(conn int, p Pat) {
	if o.May == nil {
		o.May = map[int][]Pat{}
	}
	o.May[conn] = append(o.May[conn], p)
}

var allErrCodes = []int32{400, 401, 404, 409, 413, 461, 503}

func errCode(e *d.Event) (int32, uint32, bool) {
	if e.Type != d.TError {
		return 0, 0, false
	}
	er, ok := e.M.(*hagallpb.ErrorResponse)
	if !ok {
		return 0, 0, false
	}
	return int32(er.Code), er.RequestId, true
}

func contains(set []int32, v int32) bool {
	for _, x := range set {
		if x == v {
			return true
		}
	}
	return false
}

// reqIDOf extracts the request id echoed by a response event (0, false if the
// message type has none).
func reqIDOf(e *d.Event) (uint32, bool) {
	if e.M == nil {
		return 0, false
	}
	f := e.M.ProtoReflect().Descriptor().Fields().ByName("request_id")
	if f == nil {
		return 0, false
	}
	return uint32(e.M.ProtoReflect().Get(f).Uint()), true
}

// splitWindow separates the requester's window into: events echoing the
// request id (answers), state messages, and everything else.
func splitWindow(win []*d.Event, id uint32) (answers, rest []*d.Event, closed bool) {
	for _, e := range win {
		if e.Type == d.TClosed {
			closed = true
			continue
		}
		if rid, ok := reqIDOf(e); ok && rid == id && id != 0 && e.Type != d.TPingReq {
			answers = append(answers, e)
			continue
		}
		rest = append(rest, e)
	}
	return
}

func describe(evs []*d.Event) string {
	s := "["
	for i, e := range evs {
		if i > 0 {
			s += "; "
		}
		s += e.String()
	}
	return s + "]"
}

// Step applies request r issued by connection c given the requester's window
// win (everything c received between sending r and the pong of the following
// connection barrier, or the end of the connection).
func (m *Model) Step(cid int, r *Req, win []*d.Event) *Outcome {
	o := &Outcome{}
	c := m.Conns[cid]
	answers, rest, closed := splitWindow(win, r.ID)

	if r.Kind == "close" {
		// a departure by fault: nothing is owed to the leaver
		m.depart(c, o)
		c.Dead = true
		o.Closed = true
		return o
	}

	// --- requests that need a session, from a connection that is in none
	needsSession := r.Kind != "join" && r.Kind != "ping" && r.Kind != "receipt"
	if needsSession && c.Sess == nil {
		o.Refused = true
		o.Reason = "unjoined"
		// C04: answered with an error, dropped, or the connection ends; never executed
		for _, a := range answers {
			if _, _, ok := errCode(a); !ok {
				o.viol([]string{"C04", "C03"}, "unjoined/executed", "unjoined %s answered with %s", r, a)
			}
		}
		if len(answers) > 1 {
			o.viol([]string{"C04"}, "answer/exactly-once", "unjoined %s got %d answers: %s", r, len(answers), describe(answers))
		}
		m.unexplained(o, c, rest, r)
		if closed {
			c.Dead = true
			o.Closed = true
		}
		return o
	}

	expectErr := func(codes []int32, reason string, extraProps ...string) {
		o.Refused = true
		o.Reason = reason
		props := append([]string{"C04"}, extraProps...)
		if len(answers) != 1 {
			o.viol(props, "answer/exactly-once", "%s (refusal: %s) got %d answers: %s; window %s", r, reason, len(answers), describe(answers), describe(win))
			return
		}
		code, _, ok := errCode(answers[0])
		if !ok {
			// relays that reached the requester itself in the same window: its own
			// request was relayed, and back to it (C02: a refused request is relayed
			// to no one, and nothing is relayed back to the participant that caused it)
			echoed := []*d.Event{}
			for _, e := range rest {
				if e.M != nil && strings.HasSuffix(string(e.M.ProtoReflect().Descriptor().Name()), "Broadcast") {
					echoed = append(echoed, e)
				}
			}
			if len(echoed) > 0 {
				o.viol(append(append([]string{}, props...), "C02"), "answer/refusal-expected", "%s must be refused (%s) but was answered with %s, and the requester itself was relayed %s in the same window", r, reason, answers[0], describe(echoed))
				return
			}
			o.viol(props, "answer/refusal-expected", "%s must be refused (%s) but was answered with %s", r, reason, answers[0])
			return
		}
		if codes != nil && !contains(codes, code) {
			o.viol(props, "answer/error-code", "%s refused with code %d, acceptable %v (%s)", r, code, codes, reason)
		}
	}
	// expectOK returns the single success answer of the wanted type, or nil.
	expectOK := func(typ int32, extraProps ...string) *d.Event {
		props := append([]string{"C04"}, extraProps...)
		if len(answers) != 1 {
			o.viol(props, "answer/exactly-once", "%s got %d answers: %s; window %s", r, len(answers), describe(answers), describe(win))
			if len(answers) == 0 {
				return nil
			}
		}
		a := answers[0]
		if a.Type != typ {
			o.viol(props, "answer/success-type", "%s answered with %s, expected %s", r, a, d.TypeName(typ))
			return nil
		}
		o.Accepted = true
		return a
	}

	s := c.Sess
	switch r.Kind {
	case "ping":
		if a := expectOK(d.TPingResp); a != nil {
			o.Accepted = true
		}
		m.unexplained(o, c, rest, r)

	case "join":
		m.stepJoin(c, r, answers, rest, closed, o, expectErr, expectOK)
		return o

	case "entity_add":
		a := expectOK(d.TEntityAddResp)
		m.unexplained(o, c, rest, r)
		if a == nil {
			break
		}
		eid := a.M.(*hagallpb.EntityAddResponse).EntityId
		if s.IssuedEIDs[eid] || eid == 0 {
			o.viol([]string{"C10", "C05"}, "id/entity-reissued", "entity id %d issued twice in session %s", eid, s.UUID)
		}
		s.IssuedEIDs[eid] = true
		ent := Entity{ID: eid, Owner: c.PID, Persist: r.Persist, Flag: r.Flag}
		if r.Pose != nil {
			ent.Pose = *r.Pose
		}
		s.Entities[eid] = ent
		o.NewEntity = eid
		for _, q := range s.Members {
			if q != c.ID {
				o.must(q, Pat{M: &hagallpb.EntityAddBroadcast{Type: d.TEntityAddBcast, OriginTimestamp: r.Tag,
					Entity: &hagallpb.Entity{Id: eid, ParticipantId: c.PID, Pose: ent.Pose.PB(), Flag: hagallpb.EntityFlag(r.Flag)}},
					Desc: "entity add relay", Props: []string{"C02", "C01"}})
			}
		}

	case "entity_del":
		ent, ok := s.Entities[r.Entity]
		switch {
		case !ok:
			expectErr([]int32{404}, "unknown entity", "C05")
		case ent.Owner != c.PID:
			expectErr([]int32{401}, "foreign entity", "C05")
		default:
			if expectOK(d.TEntityDelResp, "C05") != nil {
				s.RemoveEntity(r.Entity)
				for _, q := range s.Members {
					if q != c.ID {
						o.must(q, Pat{M: &hagallpb.EntityDeleteBroadcast{Type: d.TEntityDelBcast, OriginTimestamp: r.Tag, EntityId: r.Entity},
							Desc: "entity delete relay", Props: []string{"C02", "C01"}})
					}
				}
			}
		}
		m.unexplained(o, c, rest, r)

	case "pose":
		m.unexplained(o, c, append(answers, rest...), r)
		ent, ok := s.Entities[r.Entity]
		if !ok || ent.Owner != c.PID || r.Pose == nil {
			o.Refused = true
			o.Reason = "dropped pose update"
			break
		}
		o.Accepted = true
		ent.Pose = *r.Pose
		s.Entities[r.Entity] = ent
		for _, q := range s.Members {
			if q != c.ID {
				o.must(q, Pat{M: &hagallpb.EntityUpdatePoseBroadcast{Type: d.TPoseBcast, OriginTimestamp: r.Tag, EntityId: r.Entity, Pose: r.Pose.PB()},
					Desc: "pose relay", Props: []string{"C02", "C11", "C01"}})
			}
		}

	case "custom":
		if len(r.Data) > 10240 {
			o.Refused = true
			o.Reason = "too large"
			// the request has no id: the error echoes id 0
			n := 0
			var others []*d.Event
			for _, e := range rest {
				if code, _, ok := errCode(e); ok && code == 413 {
					n++
					continue
				}
				others = append(others, e)
			}
			if n != 1 {
				o.viol([]string{"C14", "C04"}, "custom/too-large-error", "%s: %d too-large errors at the sender; window %s", r, n, describe(win))
			}
			m.unexplained(o, c, others, r)
			break
		}
		o.Accepted = true
		m.unexplained(o, c, append(answers, rest...), r)
		to := map[int]bool{}
		if len(r.Recipients) == 0 {
			for _, q := range s.Members {
				to[q] = true
			}
		} else {
			for _, pid := range r.Recipients {
				if q, ok := s.Members[pid]; ok {
					to[q] = true
				}
			}
		}
		delete(to, c.ID)
		for q := range to {
			o.must(q, Pat{M: &hagallpb.CustomMessageBroadcast{Type: d.TCustomBcast, OriginTimestamp: r.Tag, ParticipantId: c.PID, Body: r.Data},
				Desc: "custom message", Props: []string{"C14", "C02"}})
		}

	case "type_add":
		if r.Name == "" {
			expectErr([]int32{400}, "empty type name", "C12")
		} else if a := expectOK(d.TTypeAddResp, "C12"); a != nil {
			id := a.M.(*hagallpb.EntityComponentTypeAddResponse).EntityComponentTypeId
			if known, ok := s.Types[r.Name]; ok {
				if known != id {
					o.viol([]string{"C12", "C10"}, "type/not-idempotent", "type %q registered as %d and now as %d", r.Name, known, id)
				}
			} else {
				if n, dup := s.TypeNames[id]; dup || id == 0 {
					o.viol([]string{"C10", "C12"}, "id/type-collision", "type id %d given to %q and %q", id, n, r.Name)
				}
				s.Types[r.Name] = id
				s.TypeNames[id] = r.Name
				o.NewType = id
			}
		}
		m.unexplained(o, c, rest, r)

	case "get_name":
		name, ok := s.TypeNames[r.TypeID]
		switch {
		case r.TypeID == 0:
			expectErr([]int32{400}, "zero type id", "C12")
		case !ok:
			expectErr([]int32{404}, "unknown type", "C12")
		default:
			if a := expectOK(d.TGetNameResp, "C12"); a != nil {
				if got := a.M.(*hagallpb.EntityComponentTypeGetNameResponse).EntityComponentTypeName; got != name {
					o.viol([]string{"C12", "C10"}, "type/name-resolution", "type %d resolves to %q, registered as %q", r.TypeID, got, name)
				}
			}
		}
		m.unexplained(o, c, rest, r)

	case "get_id":
		id, ok := s.Types[r.Name]
		switch {
		case r.Name == "":
			expectErr([]int32{400}, "empty type name", "C12")
		case !ok:
			expectErr([]int32{404}, "unknown type name", "C12")
		default:
			if a := expectOK(d.TGetIDResp, "C12"); a != nil {
				if got := a.M.(*hagallpb.EntityComponentTypeGetIdResponse).EntityComponentTypeId; got != id {
					o.viol([]string{"C12", "C10"}, "type/id-resolution", "type %q resolves to %d, registered as %d", r.Name, got, id)
				}
			}
		}
		m.unexplained(o, c, rest, r)

	case "comp_add", "comp_del":
		var codes []int32
		reason := ""
		_, entOK := s.Entities[r.Entity]
		_, typOK := s.TypeNames[r.TypeID]
		_, present := s.Comps[CompKey{r.TypeID, r.Entity}]
		if r.TypeID == 0 || r.Entity == 0 {
			codes, reason = append(codes, 400), "zero id"
		}
		if !entOK {
			codes, reason = append(codes, 404), reason+" unknown entity"
		}
		if r.Kind == "comp_add" {
			if !typOK {
				codes, reason = append(codes, 404), reason+" unregistered type"
			}
			if present {
				codes, reason = append(codes, 409), reason+" already present"
			}
		} else if !present {
			codes, reason = append(codes, 404), reason+" no such component"
		}
		if len(codes) > 0 {
			expectErr(codes, reason, "C12")
			m.unexplained(o, c, rest, r)
			break
		}
		okType, bType := int32(d.TCompAddResp), int32(d.TCompAddBcast)
		if r.Kind == "comp_del" {
			okType, bType = d.TCompDelResp, d.TCompDelBcast
		}
		m.unexplained(o, c, rest, r)
		if expectOK(okType, "C12") == nil {
			break
		}
		var pm proto.Message
		if r.Kind == "comp_add" {
			s.Comps[CompKey{r.TypeID, r.Entity}] = r.Data
			pm = &hagallpb.EntityComponentAddBroadcast{Type: hagallpb.MsgType(bType), OriginTimestamp: r.Tag,
				EntityComponent: &hagallpb.EntityComponent{EntityComponentTypeId: r.TypeID, EntityId: r.Entity, Data: r.Data}}
		} else {
			delete(s.Comps, CompKey{r.TypeID, r.Entity})
			pm = &hagallpb.EntityComponentDeleteBroadcast{Type: hagallpb.MsgType(bType), OriginTimestamp: r.Tag,
				EntityComponent: &hagallpb.EntityComponent{EntityComponentTypeId: r.TypeID, EntityId: r.Entity}}
		}
		subs := s.Subs[r.TypeID]
		for pid, q := range s.Members {
			if q == c.ID {
				continue
			}
			p := Pat{M: pm, Desc: r.Kind + " notification", Props: []string{"C13", "C01"}}
			if subs[pid] {
				o.must(q, p)
			} else if len(subs) > 0 {
				o.may(q, p)
			}
		}

	case "comp_upd":
		m.unexplained(o, c, append(answers, rest...), r)
		_, entOK := s.Entities[r.Entity]
		_, present := s.Comps[CompKey{r.TypeID, r.Entity}]
		if r.TypeID == 0 || r.Entity == 0 || !entOK || !present {
			o.Refused = true
			o.Reason = "dropped component update"
			break
		}
		o.Accepted = true
		s.Comps[CompKey{r.TypeID, r.Entity}] = r.Data
		for pid := range s.Subs[r.TypeID] {
			if q := s.Members[pid]; q != c.ID {
				o.must(q, Pat{M: &hagallpb.EntityComponentUpdateBroadcast{Type: d.TCompUpdateBcast, OriginTimestamp: r.Tag,
					EntityComponent: &hagallpb.EntityComponent{EntityComponentTypeId: r.TypeID, EntityId: r.Entity, Data: r.Data}},
					Desc: "component update notification", Props: []string{"C13", "C01", "C12"}})
			}
		}

	case "comp_list":
		if r.TypeID == 0 {
			expectErr([]int32{400}, "zero type id", "C12")
		} else if a := expectOK(d.TCompListResp, "C12"); a != nil {
			want := &hagallpb.EntityComponentListResponse{Type: d.TCompListResp, RequestId: r.ID}
			for k, v := range s.Comps {
				if k.Type == r.TypeID {
					want.EntityComponents = append(want.EntityComponents, &hagallpb.EntityComponent{EntityComponentTypeId: k.Type, EntityId: k.Entity, Data: v})
				}
			}
			if !EqualNorm(a.M, want, false) {
				o.viol([]string{"C12"}, "list/contents", "%s answered %s, model has %s", r, a, Norm(want, false))
			}
		}
		m.unexplained(o, c, rest, r)

	case "sub":
		_, typOK := s.TypeNames[r.TypeID]
		switch {
		case r.TypeID == 0:
			expectErr([]int32{400}, "zero type id", "C13")
		case !typOK:
			expectErr([]int32{404}, "unregistered type", "C13")
		default:
			if expectOK(d.TSubResp, "C13") != nil {
				if s.Subs[r.TypeID] == nil {
					s.Subs[r.TypeID] = map[uint32]bool{}
				}
				s.Subs[r.TypeID][c.PID] = true
			}
		}
		m.unexplained(o, c, rest, r)

	case "unsub":
		if r.TypeID == 0 {
			expectErr([]int32{400}, "zero type id", "C13")
		} else if expectOK(d.TUnsubResp, "C13") != nil {
			delete(s.Subs[r.TypeID], c.PID)
		}
		m.unexplained(o, c, rest, r)

	case "pong":
		// a ping answer with no measurement in progress: refused, any code
		o.Refused = true
		o.Reason = "unknown ping id"
		if len(answers) != 1 {
			o.viol([]string{"C18", "C04"}, "pong/refused-once", "%s got %d answers: %s", r, len(answers), describe(win))
		} else if _, _, ok := errCode(answers[0]); !ok {
			o.viol([]string{"C18", "C04"}, "pong/refusal-expected", "%s answered with %s", r, answers[0])
		}
		m.unexplained(o, c, rest, r)

	case "signed_latency":
		// only refusals are issued by the sequential engine (C18 has its own)
		if r.Count < 3 || r.Count > 50 || r.Wallet == "" {
			expectErr([]int32{400}, "bad iteration count or wallet", "C18")
		}
		m.unexplained(o, c, rest, r)

	case "receipt":
		if r.Receipt == "" || len(r.Hash) == 0 || len(r.Sig) == 0 {
			expectErr([]int32{400}, "empty receipt field", "C19")
			if closed {
				m.depart(c, o)
				c.Dead = true
				o.Closed = true
				closed = false
			}
		} else {
			expectOK(d.TReceiptResp, "C19")
		}
		m.unexplained(o, c, rest, r)

	case "action":
		if !has(c.Mods, 'v') {
			m.unexplained(o, c, append(answers, rest...), r)
			break
		}
		_, entOK := s.Entities[r.Entity]
		prev, had := s.Actions[ActKey{r.Entity, r.Name}]
		switch {
		case r.ActNil || r.Name == "" || r.ActTS == nil:
			expectErr([]int32{400}, "missing action, name or timestamp", "C16")
		case !entOK:
			expectErr(allErrCodes, "unknown entity", "C16")
		case had && tsBefore(r.ActTS, prev):
			expectErr(allErrCodes, "older than stored action", "C16")
		default:
			if expectOK(d.TActionResp, "C16") != nil {
				s.Actions[ActKey{r.Entity, r.Name}] = Action{r.Entity, r.Name, r.ActTS.Seconds, r.ActTS.Nanos, r.Data, true}
				for _, q := range s.Members {
					if q != c.ID {
						o.must(q, Pat{M: &vikjapb.EntityActionBroadcast{Type: d.TActionBcast, OriginTimestamp: r.Tag,
							EntityAction: &vikjapb.EntityAction{EntityId: r.Entity, Name: r.Name, Timestamp: r.ActTS, Data: r.Data}},
							Desc: "entity action relay", Props: []string{"C16", "C02", "C01"}})
					}
				}
			}
		}
		m.unexplained(o, c, rest, r)

	case "dz_quad":
		// no answer, no relay; the samples are in the session's grid from now on
		if has(c.Mods, 'd') {
			if s.Planes == nil {
				s.Planes = map[[3]float32]bool{}
			}
			for _, q := range r.Quads {
				// (a sample that is not finite or has a negative extent is skipped)
				ok := q[3] >= 0 && q[5] >= 0
				for _, x := range q {
					if x != x || x > 3e38 || x < -3e38 {
						ok = false
					}
				}
				if ok {
					s.Planes[[3]float32{q[0], q[1], q[2]}] = true
				}
			}
			o.Accepted = true
		}
		m.unexplained(o, c, append(answers, rest...), r)

	case "dz_info":
		if !has(c.Mods, 'd') {
			m.unexplained(o, c, append(answers, rest...), r)
			break
		}
		if a := expectOK(d.TDebugInfoResp, "C20", "C03"); a != nil {
			info := a.M.(*dagazpb.DagazGetDebugInfoResponse)
			if int(info.GridPlaneCount) != len(s.Planes) || info.GridMergeCount != 0 {
				o.viol([]string{"C20", "C03"}, "dagaz/plane-count", "%s answered plane count %d merge count %d; %d non-overlapping samples were sent to this session (a sample of another session, or a lost one)", r, info.GridPlaneCount, info.GridMergeCount, len(s.Planes))
			}
		}
		m.unexplained(o, c, rest, r)

	case "dz_region":
		if !has(c.Mods, 'd') {
			m.unexplained(o, c, append(answers, rest...), r)
			break
		}
		if a := expectOK(d.TRegionResp, "C20", "C03"); a != nil {
			got := map[[3]float32]int{}
			for _, q := range a.M.(*dagazpb.DagazGetRegionResponse).Quads {
				got[[3]float32{q.GetCenter().GetX(), q.GetCenter().GetY(), q.GetCenter().GetZ()}]++
			}
			for k := range s.Planes {
				if got[k] != 1 {
					o.viol([]string{"C20", "C03"}, "dagaz/region-contents", "%s over the whole grid lists the sample at %v %d times (want once); listed: %v", r, k, got[k], got)
				}
			}
			for k := range got {
				if !s.Planes[k] {
					o.viol([]string{"C03", "C20"}, "dagaz/region-contents", "%s lists a plane at %v that was never sent to this session (sent here: %d samples)", r, k, len(s.Planes))
				}
			}
		}
		m.unexplained(o, c, rest, r)

	case "asset_add":
		if !has(c.Mods, 'o') {
			m.unexplained(o, c, append(answers, rest...), r)
			break
		}
		ent, entOK := s.Entities[r.Entity]
		switch {
		case r.Name == "":
			var codes = []int32{400}
			if !entOK {
				codes = append(codes, 404)
			} else if ent.Owner != c.PID {
				codes = append(codes, 401)
			}
			expectErr(codes, "empty asset id", "C16")
		case !entOK:
			expectErr([]int32{404}, "unknown entity", "C16", "C05")
		case ent.Owner != c.PID:
			expectErr([]int32{401}, "foreign entity", "C05", "C16")
		default:
			if a := expectOK(d.TAssetAddResp, "C16", "C05"); a != nil {
				aid := a.M.(*odalpb.AssetInstanceAddResponse).AssetInstanceId
				if s.IssuedAIDs[aid] || aid == 0 {
					o.viol([]string{"C10", "C16"}, "id/asset-reissued", "asset instance id %d issued twice in session %s", aid, s.UUID)
				}
				s.IssuedAIDs[aid] = true
				o.NewAsset = aid
				as := Asset{aid, r.Name, c.PID, r.Entity}
				s.Assets[r.Entity] = as
				for _, q := range s.Members {
					if q != c.ID {
						o.must(q, Pat{M: &odalpb.AssetInstanceAddBroadcast{Type: d.TAssetAddBcast, OriginTimestamp: r.Tag,
							AssetInstance: &odalpb.AssetInstance{Id: aid, AssetId: r.Name, ParticipantId: c.PID, EntityId: r.Entity}},
							Desc: "asset instance relay", Props: []string{"C16", "C02", "C01"}})
					}
				}
			}
		}
		m.unexplained(o, c, rest, r)

	default:
		o.viol(nil, "harness", "unknown request kind %q", r.Kind)
	}

	if closed {
		// no accepted or refused (with answer) request of a member ends its connection
		o.viol([]string{"C04", "C08"}, "connection/ended", "connection %d ended after %s; window %s", c.ID, r, describe(win))
		m.depart(c, o)
		c.Dead = true
		o.Closed = true
	}
	return o
}

func tsBefore(ts *timestamppb.Timestamp, a Action) bool {
	if ts.Seconds != a.Sec {
		return ts.Seconds < a.Sec
	}
	return ts.Nanos < a.Nanos
}

// unexplained: the requester must not receive anything the request does not explain.
func (m *Model) unexplained(o *Outcome, c *Conn, evs []*d.Event, r *Req) {
	for _, e := range evs {
		props := []string{"C02", "C04"}
		if c.Sess == nil {
			props = append(props, "C03")
		}
		o.viol(props, "requester/unexplained-message", "connection %d received %s which %s does not explain", c.ID, e, r)
	}
}

func (m *Model) stepJoin(c *Conn, r *Req, answers, rest []*d.Event, closed bool, o *Outcome,
	expectErr func([]int32, string, ...string), expectOK func(int32, ...string) *d.Event) {

	isState := func(e *d.Event) bool {
		return e.Type == d.TSessionState || e.Type == d.TVikjaState || e.Type == d.TOdalState
	}
	// already joined
	if c.Sess != nil && c.Sess.SID == r.SID {
		expectErr([]int32{461}, "already joined", "C07")
		// module state messages that accompany the refusal carry no request id,
		// change nothing and are not relays: no property speaks about them.
		var others []*d.Event
		for _, e := range rest {
			if e.Type == d.TVikjaState || e.Type == d.TOdalState {
				continue
			}
			others = append(others, e)
		}
		m.unexplained(o, c, others, r)
		if closed {
			o.viol([]string{"C04", "C08"}, "connection/ended", "connection %d ended after %s", c.ID, r)
			m.depart(c, o)
			c.Dead, o.Closed = true, true
		}
		return
	}
	target, live := m.Sessions[r.SID]
	if r.SID != "" && !live {
		// C04: a refused request changes nothing - the requester stays where it was
		expectErr([]int32{404}, "unknown session", "C07")
		var others []*d.Event
		for _, e := range rest {
			// module state messages accompanying a refusal: see above
			if c.Sess != nil && (e.Type == d.TVikjaState || e.Type == d.TOdalState) {
				continue
			}
			others = append(others, e)
		}
		m.unexplained(o, c, others, r)
		if closed {
			o.viol([]string{"C04", "C08"}, "connection/ended", "connection %d ended after %s", c.ID, r)
			m.depart(c, o)
			c.Dead, o.Closed = true, true
		}
		return
	}
	a := expectOK(d.TJoinResp, "C07")
	if a == nil {
		// cannot follow the server any further
		o.viol([]string{"C07", "C04"}, "join/not-answered", "%s (joinable: %v) not answered with success; window %s", r, live || r.SID == "", describe(append(answers, rest...)))
		return
	}
	jr := a.M.(*hagallpb.ParticipantJoinResponse)
	if c.Sess != nil {
		m.depart(c, o)
	}
	if r.SID == "" {
		if _, clash := m.Sessions[jr.SessionId]; clash {
			o.viol([]string{"C10", "C07"}, "id/session-shared", "new session got id %q which a live session (uuid %s) holds", jr.SessionId, m.Sessions[jr.SessionId].UUID)
		}
		if m.SeenUUIDs[jr.SessionUuid] || jr.SessionUuid == "" {
			o.viol([]string{"C07", "C10"}, "uuid/not-fresh", "new session has uuid %q seen before", jr.SessionUuid)
		}
		if m.everSID[jr.SessionId] {
			m.Reused++
		}
		m.everSID[jr.SessionId] = true
		m.SeenUUIDs[jr.SessionUuid] = true
		target = &Session{SID: jr.SessionId, UUID: jr.SessionUuid, State: NewState(), Members: map[uint32]int{},
			Types: map[string]uint32{}, TypeNames: map[uint32]string{}, Subs: map[uint32]map[uint32]bool{},
			IssuedPIDs: map[uint32]bool{}, IssuedEIDs: map[uint32]bool{}, IssuedAIDs: map[uint32]bool{}}
		m.Sessions[jr.SessionId] = target
	} else {
		if jr.SessionId != r.SID || jr.SessionUuid != target.UUID {
			o.viol([]string{"C07", "C03"}, "join/wrong-session", "join of %q (uuid %s) answered with id %q uuid %s", r.SID, target.UUID, jr.SessionId, jr.SessionUuid)
		}
	}
	if target.IssuedPIDs[jr.ParticipantId] || jr.ParticipantId == 0 {
		o.viol([]string{"C10", "C05"}, "id/participant-reissued", "participant id %d issued twice in session %s", jr.ParticipantId, target.UUID)
	}
	target.IssuedPIDs[jr.ParticipantId] = true
	target.Members[jr.ParticipantId] = c.ID
	target.Participants[jr.ParticipantId] = true
	c.Sess, c.PID = target, jr.ParticipantId
	o.Joined = target

	// handed state
	wantState := map[int32]proto.Message{}
	if !c.Flags["DISABLE_SESSION_STATE"] {
		wantState[d.TSessionState] = StatePB(target.State)
	}
	if has(c.Mods, 'v') {
		wantState[d.TVikjaState] = VikjaPB(target.State)
	}
	if has(c.Mods, 'o') {
		wantState[d.TOdalState] = OdalPB(target.State)
	}
	var others []*d.Event
	seen := map[int32]int{}
	for _, e := range rest {
		if !isState(e) {
			others = append(others, e)
			continue
		}
		seen[e.Type]++
		want, ok := wantState[e.Type]
		if !ok {
			o.viol([]string{"C01", "C17"}, "join/unexpected-state-message", "joiner %d was handed %s", c.ID, e)
			continue
		}
		if !EqualNorm(e.M, want, false) {
			props := []string{"C01", "C06", "C12", "C16", "C11", "C05"}
			note := ""
			if leak := m.foreignElements(e, want, target, c.Mods); leak != "" {
				// something handed to the joiner is not in this session's state
				// but is in another session's: state crossed a session boundary
				props = append(props, "C03")
				note = "\n   cross-session: " + leak
			}
			o.viol(props, "join/handed-state", "joiner %d of %s was handed %s\n   model: %s%s", c.ID, target.SID, Norm(e.M, false), Norm(want, false), note)
		}
	}
	for t := range wantState {
		if seen[t] != 1 {
			o.viol([]string{"C01"}, "join/handed-state-count", "joiner %d received %d %s messages", c.ID, seen[t], d.TypeName(t))
		}
	}
	m.unexplained(o, c, others, r)
	for pid, q := range target.Members {
		if pid != c.PID {
			o.must(q, Pat{M: &hagallpb.ParticipantJoinBroadcast{Type: d.TJoinBcast, OriginTimestamp: r.Tag, ParticipantId: c.PID},
				Desc: "join relay", Props: []string{"C02", "C01"}})
		}
	}
	if closed {
		o.viol([]string{"C04", "C08"}, "connection/ended", "connection %d ended after %s", c.ID, r)
		m.depart(c, o)
		c.Dead, o.Closed = true, true
	}
}

// depart removes connection c from its session (C06) and records the relays
// the remaining members must receive.
func (m *Model) depart(c *Conn, o *Outcome) {
	s := c.Sess
	if s == nil {
		return
	}
	var removed []uint32
	for id, e := range s.Entities {
		if e.Owner == c.PID && !e.Persist {
			removed = append(removed, id)
		}
	}
	sort.Slice(removed, func(i, j int) bool { return removed[i] < removed[j] })
	for _, id := range removed {
		s.RemoveEntity(id)
	}
	for _, set := range s.Subs {
		delete(set, c.PID)
	}
	delete(s.Members, c.PID)
	delete(s.Participants, c.PID)
	for _, q := range s.Members {
		for _, id := range removed {
			o.must(q, Pat{M: &hagallpb.EntityDeleteBroadcast{Type: d.TEntityDelBcast, EntityId: id}, AnyOrigin: true,
				Desc: "departure: entity delete relay", Props: []string{"C06", "C02", "C01", "C08"}})
		}
		o.must(q, Pat{M: &hagallpb.ParticipantLeaveBroadcast{Type: d.TLeaveBcast, ParticipantId: c.PID}, AnyOrigin: true,
			Desc: "departure: leave relay", Props: []string{"C06", "C02", "C01", "C08"}})
	}
	if len(s.Members) == 0 {
		delete(m.Sessions, s.SID)
		m.Ended++
		m.EndedStates = append(m.EndedStates, s)
		if len(m.EndedStates) > 8 {
			m.EndedStates = m.EndedStates[1:]
		}
	}
	c.Sess, c.PID = nil, 0
}

// StatePB renders the SESSION_STATE a joiner must be handed.
func StatePB(s *State) *hagallpb.SessionState {
	out := &hagallpb.SessionState{Type: d.TSessionState}
	for p := range s.Participants {
		out.Participants = append(out.Participants, &hagallpb.Participant{Id: p})
	}
	for _, e := range s.Entities {
		out.Entities = append(out.Entities, &hagallpb.Entity{Id: e.ID, ParticipantId: e.Owner, Pose: e.Pose.PB(), Flag: hagallpb.EntityFlag(e.Flag)})
	}
	for k, v := range s.Comps {
		out.EntityComponents = append(out.EntityComponents, &hagallpb.EntityComponent{EntityComponentTypeId: k.Type, EntityId: k.Entity, Data: v})
	}
	return out
}

func VikjaPB(s *State) *vikjapb.State {
	out := &vikjapb.State{Type: d.TVikjaState}
	for _, a := range s.Actions {
		ea := &vikjapb.EntityAction{EntityId: a.Entity, Name: a.Name, Data: a.Data}
		if a.HasTS {
			ea.Timestamp = &timestamppb.Timestamp{Seconds: a.Sec, Nanos: a.Nanos}
		}
		out.EntityActions = append(out.EntityActions, ea)
	}
	return out
}

func OdalPB(s *State) *odalpb.State {
	out := &odalpb.State{Type: d.TOdalState}
	for _, a := range s.Assets {
		out.AssetInstances = append(out.AssetInstances, &odalpb.AssetInstance{Id: a.ID, AssetId: a.AssetID, ParticipantId: a.Participant, EntityId: a.Entity})
	}
	return out
}

func bytesEq(a, b []byte) bool { return bytes.Equal(a, b) }

// elementKeys renders the elements of the repeated message fields of a state
// message (participants excluded: their ids coincide across sessions by design).
func elementKeys(m proto.Message) map[string]bool {
	out := map[string]bool{}
	r := m.ProtoReflect()
	fields := r.Descriptor().Fields()
	for i := 0; i < fields.Len(); i++ {
		f := fields.Get(i)
		if !f.IsList() || f.Message() == nil || f.Name() == "participants" {
			continue
		}
		l := r.Get(f).List()
		for j := 0; j < l.Len(); j++ {
			b, _ := proto.MarshalOptions{Deterministic: true}.Marshal(l.Get(j).Message().Interface())
			out[string(f.Name())+":"+string(b)] = true
		}
	}
	return out
}

// foreignElements reports elements handed to a joiner of target that the
// model does not hold for target but does hold for another (live or recently
// ended) session.
func (m *Model) foreignElements(e *d.Event, want proto.Message, target *Session, mods string) string {
	handed := elementKeys(e.M)
	for k := range elementKeys(want) {
		delete(handed, k)
	}
	if len(handed) == 0 {
		return ""
	}
	others := append([]*Session(nil), m.EndedStates...)
	for _, s := range m.Sessions {
		if s != target {
			others = append(others, s)
		}
	}
	for _, s := range others {
		if s == target {
			continue
		}
		var om proto.Message
		switch e.Type {
		case d.TSessionState:
			om = StatePB(s.State)
		case d.TVikjaState:
			om = VikjaPB(s.State)
		case d.TOdalState:
			om = OdalPB(s.State)
		default:
			return ""
		}
		for k := range elementKeys(om) {
			if handed[k] {
				return fmt.Sprintf("an element of the handed %s is not part of session %s but of session %s (uuid %s)", d.TypeName(e.Type), target.SID, s.SID, s.UUID)
			}
		}
	}
	return ""
}
