package model

import (
	"bytes"
	"fmt"
	"sort"

	"google.golang.org/protobuf/proto"
	"google.golang.org/protobuf/reflect/protoreflect"
)

// Norm returns a normalised clone of a wire message: the server timestamp is
// cleared (and the origin timestamp when anyOrigin), and top-level repeated
// message fields - which the server fills from maps - are sorted, so that
// unordered collections compare as multisets.
func Norm(m proto.Message, anyOrigin bool) proto.Message {
	c := proto.Clone(m)
	r := c.ProtoReflect()
	fields := r.Descriptor().Fields()
	if f := fields.ByName("timestamp"); f != nil && f.Number() == 2 {
		r.Clear(f)
	}
	if anyOrigin {
		if f := fields.ByName("origin_timestamp"); f != nil {
			r.Clear(f)
		}
	}
	for i := 0; i < fields.Len(); i++ {
		f := fields.Get(i)
		if !f.IsList() || f.Kind() != protoreflect.MessageKind {
			continue
		}
		l := r.Mutable(f).List()
		n := l.Len()
		if n < 2 {
			continue
		}
		type item struct {
			key []byte
			v   protoreflect.Value
		}
		items := make([]item, n)
		for j := 0; j < n; j++ {
			v := l.Get(j)
			b, _ := proto.MarshalOptions{Deterministic: true}.Marshal(v.Message().Interface())
			items[j] = item{b, v}
		}
		sort.SliceStable(items, func(a, b int) bool { return bytes.Compare(items[a].key, items[b].key) < 0 })
		vals := make([]protoreflect.Value, n)
		for j := range items {
			vals[j] = protoreflect.ValueOfMessage(proto.Clone(items[j].v.Message().Interface()).ProtoReflect())
		}
		l.Truncate(0)
		for _, v := range vals {
			l.Append(v)
		}
	}
	return c
}

// EqualNorm compares two messages after normalisation.
func EqualNorm(a, b proto.Message, anyOrigin bool) bool {
	return proto.Equal(Norm(a, anyOrigin), Norm(b, anyOrigin))
}

// Matches reports whether event message m matches pattern p.
func (p Pat) Matches(m proto.Message) bool {
	if m == nil || m.ProtoReflect().Descriptor() != p.M.ProtoReflect().Descriptor() {
		return false
	}
	return EqualNorm(m, p.M, p.AnyOrigin)
}

func (p Pat) String() string {
	return fmt.Sprintf("%s %v", p.Desc, Norm(p.M, p.AnyOrigin))
}
