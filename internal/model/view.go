package model

import (
	"fmt"
	"sort"

	"github.com/aukilabs/hagall-common/messages/hagallpb"
	"github.com/aukilabs/hagall-common/messages/odalpb"
	"github.com/aukilabs/hagall-common/messages/vikjapb"

	d "verif/internal/driver"
)

// View is the replicated view one client holds (C01): the state handed to it
// on joining, updated by every broadcast received since and by its own
// accepted requests.
type View struct {
	Conn      int
	PID       uint32
	Joined    bool
	HaveState bool // a SESSION_STATE was handed over (not the case under DISABLE_SESSION_STATE)
	*State
	Subscribed map[uint32]bool // types this client subscribed to (from its own accepted requests)
	Stale      map[uint32]bool // types for which it missed changes it was not entitled to hear
	// Inapplicable broadcasts (C01, sequential histories)
	Problems []string
	Applied  int
	// attachments in a handed module state whose entity the view does not hold
	OrphanAttachments int
	// Mods: module letters loaded for this client ("" = unknown: module relays are applied as they come).
	Mods                string
	haveVikja, haveOdal bool
	// Relays received after the join but before the corresponding state
	// message: they are applied on top of the snapshot when it arrives (the
	// server adds the joiner to the recipient set before it takes the snapshot,
	// so such relays are either already in the snapshot or newer than it).
	pendCore, pendVikja, pendOdal []*d.Event
}

func NewView(conn int) *View {
	return &View{Conn: conn, State: NewState(), Subscribed: map[uint32]bool{}, Stale: map[uint32]bool{}}
}

// Reset is called when the client is answered with a join success.
func (v *View) Reset(pid uint32) {
	v.PID = pid
	v.Joined = true
	v.HaveState = false
	v.State = NewState()
	v.Participants[pid] = true
	v.Subscribed = map[uint32]bool{}
	v.Stale = map[uint32]bool{}
	v.haveVikja, v.haveOdal = false, false
	v.pendCore, v.pendVikja, v.pendOdal = nil, nil, nil
}

func (v *View) Leave() {
	v.Joined = false
	v.State = NewState()
}

func (v *View) problem(format string, a ...any) {
	v.Problems = append(v.Problems, fmt.Sprintf("view of connection %d (participant %d): ", v.Conn, v.PID)+fmt.Sprintf(format, a...))
}

func (v *View) tracks(t uint32) bool { return v.Subscribed[t] && !v.Stale[t] }

// Apply folds one received event into the view. strict enables the
// "never sent a broadcast it cannot apply" clause.
func (v *View) Apply(e *d.Event, strict bool) {
	if !v.Joined {
		return
	}
	v.Applied++
	switch e.M.(type) {
	case *hagallpb.SessionState, *vikjapb.State, *odalpb.State, *hagallpb.EntityComponentListResponse:
	case *vikjapb.EntityActionBroadcast:
		if !v.haveVikja && has(v.Mods, 'v') {
			v.pendVikja = append(v.pendVikja, e)
			return
		}
	case *odalpb.AssetInstanceAddBroadcast:
		if !v.haveOdal && has(v.Mods, 'o') {
			v.pendOdal = append(v.pendOdal, e)
			return
		}
	default:
		if !v.HaveState && v.Mods != "-" {
			v.pendCore = append(v.pendCore, e)
			if len(v.pendCore) > 100000 {
				v.pendCore = nil
			}
			return
		}
	}
	switch m := e.M.(type) {
	case *hagallpb.SessionState:
		// state handed on joining; relays that arrived between the join
		// response and this snapshot are either in it or newer: re-apply on top
		// is not needed in sequential histories, and the snapshot is complete.
		keepSubs, keepStale := v.Subscribed, v.Stale
		st := NewState()
		for _, p := range m.Participants {
			st.Participants[p.Id] = true
		}
		for _, en := range m.Entities {
			st.Entities[en.Id] = Entity{ID: en.Id, Owner: en.ParticipantId, Flag: int32(en.Flag), Pose: PoseFromPB(en.Pose)}
		}
		for _, c := range m.EntityComponents {
			st.Comps[CompKey{c.EntityComponentTypeId, c.EntityId}] = c.Data
		}
		st.Actions, st.Assets = v.Actions, v.Assets
		v.State = st
		v.Subscribed, v.Stale = keepSubs, keepStale
		v.HaveState = true
		pend := v.pendCore
		v.pendCore = nil
		for _, pe := range pend {
			v.Apply(pe, false)
		}
	case *vikjapb.State:
		v.Actions = map[ActKey]Action{}
		for _, a := range m.EntityActions {
			// the module snapshot is not atomic with the core state: an
			// attachment to an entity the view does not hold (its delete relay
			// was received before this snapshot) is dropped
			if _, ok := v.Entities[a.EntityId]; !ok && v.HaveState {
				v.OrphanAttachments++
				continue
			}
			v.Actions[ActKey{a.EntityId, a.Name}] = actionFromPB(a)
		}
		v.haveVikja = true
		pend := v.pendVikja
		v.pendVikja = nil
		for _, pe := range pend {
			v.Apply(pe, false)
		}
	case *odalpb.State:
		v.Assets = map[uint32]Asset{}
		for _, a := range m.AssetInstances {
			if _, ok := v.Entities[a.EntityId]; !ok && v.HaveState {
				v.OrphanAttachments++
				continue
			}
			v.Assets[a.EntityId] = Asset{a.Id, a.AssetId, a.ParticipantId, a.EntityId}
		}
		v.haveOdal = true
		pend := v.pendOdal
		v.pendOdal = nil
		for _, pe := range pend {
			v.Apply(pe, false)
		}
	case *hagallpb.ParticipantJoinBroadcast:
		if strict && v.Participants[m.ParticipantId] {
			v.problem("join broadcast for participant %d it already has", m.ParticipantId)
		}
		v.Participants[m.ParticipantId] = true
	case *hagallpb.ParticipantLeaveBroadcast:
		if strict && !v.Participants[m.ParticipantId] {
			v.problem("leave broadcast for participant %d it was never told about", m.ParticipantId)
		}
		delete(v.Participants, m.ParticipantId)
	case *hagallpb.EntityAddBroadcast:
		if m.Entity == nil {
			v.problem("entity add broadcast without entity")
			return
		}
		if _, ok := v.Entities[m.Entity.Id]; ok && strict {
			v.problem("entity add broadcast for entity %d it already has", m.Entity.Id)
		}
		v.Entities[m.Entity.Id] = Entity{ID: m.Entity.Id, Owner: m.Entity.ParticipantId, Flag: int32(m.Entity.Flag), Pose: PoseFromPB(m.Entity.Pose)}
	case *hagallpb.EntityDeleteBroadcast:
		if _, ok := v.Entities[m.EntityId]; !ok && strict && v.HaveState {
			v.problem("entity delete broadcast for entity %d it was never told about", m.EntityId)
		}
		v.RemoveEntity(m.EntityId)
	case *hagallpb.EntityUpdatePoseBroadcast:
		en, ok := v.Entities[m.EntityId]
		if !ok {
			if strict && v.HaveState {
				v.problem("pose broadcast for entity %d it was never told about", m.EntityId)
			}
			return
		}
		en.Pose = PoseFromPB(m.Pose)
		v.Entities[m.EntityId] = en
	case *hagallpb.EntityComponentAddBroadcast:
		c := m.EntityComponent
		if c == nil {
			v.problem("component add broadcast without component")
			return
		}
		k := CompKey{c.EntityComponentTypeId, c.EntityId}
		if _, ok := v.Comps[k]; ok && strict && v.tracks(k.Type) && v.HaveState {
			v.problem("component add broadcast for (%d,%d) it already has", k.Type, k.Entity)
		}
		// components exist on existing entities only (C12): a relay for an entity
		// the view does not (or no longer) hold is older than that entity's
		// removal - the same rule as for actions and assets below
		if _, ok := v.Entities[k.Entity]; !ok && v.HaveState {
			return
		}
		v.Comps[k] = c.Data
	case *hagallpb.EntityComponentUpdateBroadcast:
		c := m.EntityComponent
		if c == nil {
			v.problem("component update broadcast without component")
			return
		}
		k := CompKey{c.EntityComponentTypeId, c.EntityId}
		if _, ok := v.Comps[k]; !ok && strict && v.tracks(k.Type) && v.HaveState {
			v.problem("component update broadcast for (%d,%d) it was never told about", k.Type, k.Entity)
		}
		if _, ok := v.Entities[k.Entity]; !ok && v.HaveState {
			return
		}
		v.Comps[k] = c.Data
	case *hagallpb.EntityComponentDeleteBroadcast:
		c := m.EntityComponent
		if c == nil {
			v.problem("component delete broadcast without component")
			return
		}
		k := CompKey{c.EntityComponentTypeId, c.EntityId}
		if _, ok := v.Comps[k]; !ok && strict && v.tracks(k.Type) && v.HaveState {
			v.problem("component delete broadcast for (%d,%d) it was never told about", k.Type, k.Entity)
		}
		delete(v.Comps, k)
	case *vikjapb.EntityActionBroadcast:
		// attachments exist on existing entities only: a relay for an entity the
		// view does not (or no longer) hold is older than that entity's removal
		if a := m.EntityAction; a != nil {
			if _, ok := v.Entities[a.EntityId]; ok || !v.HaveState {
				// actions carry the client timestamp that orders them (C16): like the
				// server, a view keeps the later of two actions on one (entity, name),
				// whichever relay arrives first; equal timestamps replace
				na := actionFromPB(a)
				if old, ok := v.Actions[ActKey{a.EntityId, a.Name}]; ok && old.HasTS && na.HasTS &&
					(na.Sec < old.Sec || na.Sec == old.Sec && na.Nanos < old.Nanos) {
					break
				}
				v.Actions[ActKey{a.EntityId, a.Name}] = na
			}
		}
	case *odalpb.AssetInstanceAddBroadcast:
		if a := m.AssetInstance; a != nil {
			if _, ok := v.Entities[a.EntityId]; ok || !v.HaveState {
				v.Assets[a.EntityId] = Asset{a.Id, a.AssetId, a.ParticipantId, a.EntityId}
			}
		}
	case *hagallpb.EntityComponentListResponse:
		// handled by ApplyOwn (needs the type id of the request)
	}
}

func actionFromPB(a *vikjapb.EntityAction) Action {
	out := Action{Entity: a.EntityId, Name: a.Name, Data: a.Data}
	if a.Timestamp != nil {
		out.HasTS, out.Sec, out.Nanos = true, a.Timestamp.Seconds, a.Timestamp.Nanos
	}
	return out
}

// ApplyOwn folds one of the client's own accepted requests into its view.
func (v *View) ApplyOwn(r *Req, o *Outcome, win []*d.Event) {
	if !v.Joined || !o.Accepted {
		return
	}
	switch r.Kind {
	case "entity_add":
		en := Entity{ID: o.NewEntity, Owner: v.PID, Persist: r.Persist, Flag: r.Flag}
		if r.Pose != nil {
			en.Pose = *r.Pose
		}
		v.Entities[o.NewEntity] = en
	case "entity_del":
		v.RemoveEntity(r.Entity)
	case "pose":
		if en, ok := v.Entities[r.Entity]; ok {
			en.Pose = *r.Pose
			v.Entities[r.Entity] = en
		}
	case "comp_add", "comp_upd":
		v.Comps[CompKey{r.TypeID, r.Entity}] = r.Data
	case "comp_del":
		delete(v.Comps, CompKey{r.TypeID, r.Entity})
	case "sub":
		v.Subscribed[r.TypeID] = true
	case "unsub":
		delete(v.Subscribed, r.TypeID)
	case "comp_list":
		for _, e := range win {
			if lr, ok := e.M.(*hagallpb.EntityComponentListResponse); ok && lr.RequestId == r.ID {
				for k := range v.Comps {
					if k.Type == r.TypeID {
						delete(v.Comps, k)
					}
				}
				for _, c := range lr.EntityComponents {
					v.Comps[CompKey{c.EntityComponentTypeId, c.EntityId}] = c.Data
				}
				delete(v.Stale, r.TypeID)
			}
		}
	case "action":
		v.Actions[ActKey{r.Entity, r.Name}] = Action{r.Entity, r.Name, r.ActTS.Seconds, r.ActTS.Nanos, r.Data, true}
	case "asset_add":
		v.Assets[r.Entity] = Asset{o.NewAsset, r.Name, v.PID, r.Entity}
	}
}

// Diff compares the view with the server state s (the model's, which every
// join has been checked against). mods says which module states the client has.
func (v *View) Diff(s *State, mods string) []string {
	var out []string
	add := func(f string, a ...any) { out = append(out, fmt.Sprintf(f, a...)) }
	if !v.HaveState {
		return nil // nothing was handed over (DISABLE_SESSION_STATE): no basis for a view
	}
	for p := range s.Participants {
		if !v.Participants[p] {
			add("participant %d missing from view", p)
		}
	}
	for p := range v.Participants {
		if !s.Participants[p] {
			add("participant %d in view but not in session", p)
		}
	}
	for id, e := range s.Entities {
		ve, ok := v.Entities[id]
		if !ok {
			add("entity %d missing from view", id)
			continue
		}
		if ve.Owner != e.Owner || ve.Flag != e.Flag || !poseEq(ve.Pose, e.Pose) {
			add("entity %d differs: view owner=%d flag=%d pose=%v, server owner=%d flag=%d pose=%v", id, ve.Owner, ve.Flag, ve.Pose, e.Owner, e.Flag, e.Pose)
		}
	}
	for id := range v.Entities {
		if _, ok := s.Entities[id]; !ok {
			add("entity %d in view but not in session", id)
		}
	}
	types := []uint32{}
	for t := range v.Subscribed {
		if !v.Stale[t] {
			types = append(types, t)
		}
	}
	sort.Slice(types, func(i, j int) bool { return types[i] < types[j] })
	for _, t := range types {
		for k, data := range s.Comps {
			if k.Type != t {
				continue
			}
			vd, ok := v.Comps[k]
			if !ok {
				add("component (%d,%d) missing from view", k.Type, k.Entity)
			} else if !bytesEq(vd, data) {
				add("component (%d,%d) differs: view %q server %q", k.Type, k.Entity, vd, data)
			}
		}
		for k := range v.Comps {
			if k.Type != t {
				continue
			}
			if _, ok := s.Comps[k]; !ok {
				add("component (%d,%d) in view but not in session", k.Type, k.Entity)
			}
		}
	}
	if has(mods, 'v') {
		for k, a := range s.Actions {
			va, ok := v.Actions[k]
			if !ok {
				add("action (%d,%q) missing from view", k.Entity, k.Name)
			} else if va.Sec != a.Sec || va.Nanos != a.Nanos || !bytesEq(va.Data, a.Data) {
				add("action (%d,%q) differs: view %v server %v", k.Entity, k.Name, va, a)
			}
		}
		for k := range v.Actions {
			if _, ok := s.Actions[k]; !ok {
				add("action (%d,%q) in view but not in session", k.Entity, k.Name)
			}
		}
	}
	if has(mods, 'o') {
		for e, a := range s.Assets {
			va, ok := v.Assets[e]
			if !ok {
				add("asset on entity %d missing from view", e)
			} else if va != a {
				add("asset on entity %d differs: view %v server %v", e, va, a)
			}
		}
		for e := range v.Assets {
			if _, ok := s.Assets[e]; !ok {
				add("asset on entity %d in view but not in session", e)
			}
		}
	}
	return out
}

func poseEq(a, b Pose) bool {
	for i := range a {
		if a[i] != b[i] && !(a[i] != a[i] && b[i] != b[i]) {
			return false
		}
	}
	return true
}
