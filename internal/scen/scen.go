// Package scen holds small typed helpers for scripted scenarios (gated
// interleavings, fault scripts, deterministic reproducers).
package scen

import (
	"fmt"
	"net/url"
	"sync/atomic"
	"time"

	"github.com/aukilabs/hagall-common/messages/hagallpb"
	"github.com/aukilabs/hagall-common/messages/odalpb"
	"github.com/aukilabs/hagall-common/messages/vikjapb"
	"google.golang.org/protobuf/proto"
	"google.golang.org/protobuf/types/known/timestamppb"

	d "verif/internal/driver"
	"verif/internal/sut"
)

// C wraps a harness client with request helpers. Every helper sends one
// request followed by a connection barrier and returns the answer (the event
// echoing the request id) and whatever else arrived in the window.
type C struct {
	*d.Client
	PID   uint32
	SID   string
	UUID  string
	Extra []*d.Event // events of the last window that were not the answer
}

var connSeq atomic.Int64

// DefaultFlags are the DISABLE_* flags (comma separated) given to connections
// dialled without flags of their own; probes never carry flags. Set by the
// checks that run registry scenarios under flags (C17); not concurrency-safe:
// set before a part starts, cleared after it.
var DefaultFlags string

// Dial opens a connection to a lab SUT.
func Dial(p *sut.Proc, mods string, flags string) (*C, error) {
	if flags == "" {
		flags = DefaultFlags
	}
	return dial(p, mods, flags)
}

func dial(p *sut.Proc, mods string, flags string) (*C, error) {
	if p.RealToken != "" {
		// the real binary: modules and flags are what cmd/main.go wires
		return DialReal(p, p.RealToken)
	}
	id := int(connSeq.Add(1))
	q := url.Values{"mods": {mods}}
	if flags != "" {
		q.Set("flags", flags)
	}
	cl, err := d.Dial(id, p.Addr, q, nil)
	if err != nil {
		return nil, err
	}
	return &C{Client: cl}, nil
}

// DialHeaders opens a connection to a lab SUT with further handshake headers.
func DialHeaders(p *sut.Proc, mods string, header map[string]string) (*C, error) {
	q := url.Values{"mods": {mods}}
	if p.RealToken != "" {
		q = nil
		if _, ok := header["Authorization"]; !ok {
			h := map[string]string{"Authorization": "Bearer " + p.RealToken}
			for k, v := range header {
				h[k] = v
			}
			header = h
		}
	}
	cl, err := d.Dial(int(connSeq.Add(1)), p.Addr, q, header)
	if err != nil {
		return nil, err
	}
	return &C{Client: cl}, nil
}

// DialReal opens a connection to the real binary (token in the Authorization header).
func DialReal(p *sut.Proc, token string) (*C, error) {
	cl, err := d.Dial(int(connSeq.Add(1)), p.Addr, nil, map[string]string{"Authorization": "Bearer " + token})
	if err != nil {
		return nil, err
	}
	return &C{Client: cl}, nil
}

// MustDial panics on error (scenarios recover at top level).
func MustDial(p *sut.Proc, mods string) *C {
	c, err := Dial(p, mods, "")
	if err != nil {
		panic(fmt.Errorf("dial: %w", err))
	}
	return c
}

func reqID(m proto.Message) uint32 {
	f := m.ProtoReflect().Descriptor().Fields().ByName("request_id")
	if f == nil {
		return 0
	}
	return uint32(m.ProtoReflect().Get(f).Uint())
}

// Do sends m and runs the connection barrier.
func (c *C) Do(m proto.Message) (answer *d.Event, rest []*d.Event, err error) {
	id := reqID(m)
	if err := c.Send(m); err != nil {
		return nil, nil, err
	}
	win, err := c.Barrier()
	for _, e := range win {
		if answer == nil && id != 0 && e.M != nil && e.Type != d.TPingReq {
			if rid := reqID(e.M); rid == id {
				answer = e
				continue
			}
		}
		rest = append(rest, e)
	}
	c.Extra = rest
	return answer, rest, err
}

// Join joins (sid == "" creates).
func (c *C) Join(sid string) (*hagallpb.ParticipantJoinResponse, *d.Event, error) {
	a, _, err := c.Do(&hagallpb.ParticipantJoinRequest{Type: d.TJoinReq, Timestamp: d.NewTag(), RequestId: c.NextReqID(), SessionId: sid})
	if err != nil {
		return nil, a, err
	}
	if a == nil {
		return nil, nil, fmt.Errorf("join %q: no answer", sid)
	}
	jr, ok := a.M.(*hagallpb.ParticipantJoinResponse)
	if !ok {
		return nil, a, nil
	}
	c.PID, c.SID, c.UUID = jr.ParticipantId, jr.SessionId, jr.SessionUuid
	return jr, a, nil
}

// AddEntity adds an entity and returns its id (0 if refused).
func (c *C) AddEntity(persist bool, px float32) (uint32, error) {
	a, _, err := c.Do(&hagallpb.EntityAddRequest{Type: d.TEntityAddReq, Timestamp: d.NewTag(), RequestId: c.NextReqID(), Persist: persist,
		Pose: &hagallpb.Pose{Px: px, Rw: 1}})
	if err != nil || a == nil {
		return 0, err
	}
	if r, ok := a.M.(*hagallpb.EntityAddResponse); ok {
		return r.EntityId, nil
	}
	return 0, nil
}

func (c *C) DeleteEntity(e uint32) (*d.Event, error) {
	a, _, err := c.Do(&hagallpb.EntityDeleteRequest{Type: d.TEntityDelReq, Timestamp: d.NewTag(), RequestId: c.NextReqID(), EntityId: e})
	return a, err
}

// Pose sends a pose update (no answer, no barrier).
func (c *C) Pose(e uint32, px float32) (*timestamppb.Timestamp, error) {
	tag := d.NewTag()
	return tag, c.Send(&hagallpb.EntityUpdatePose{Type: d.TPoseUpdate, Timestamp: tag, EntityId: e, Pose: &hagallpb.Pose{Px: px, Rw: 1}})
}

func (c *C) AddType(name string) (uint32, error) {
	a, _, err := c.Do(&hagallpb.EntityComponentTypeAddRequest{Type: d.TTypeAddReq, Timestamp: d.NewTag(), RequestId: c.NextReqID(), EntityComponentTypeName: name})
	if err != nil || a == nil {
		return 0, err
	}
	if r, ok := a.M.(*hagallpb.EntityComponentTypeAddResponse); ok {
		return r.EntityComponentTypeId, nil
	}
	return 0, nil
}

func (c *C) Subscribe(t uint32) (*d.Event, error) {
	a, _, err := c.Do(&hagallpb.EntityComponentTypeSubscribeRequest{Type: d.TSubReq, Timestamp: d.NewTag(), RequestId: c.NextReqID(), EntityComponentTypeId: t})
	return a, err
}

func (c *C) AddComp(t, e uint32, data string) (*d.Event, error) {
	a, _, err := c.Do(&hagallpb.EntityComponentAddRequest{Type: d.TCompAddReq, Timestamp: d.NewTag(), RequestId: c.NextReqID(), EntityComponentTypeId: t, EntityId: e, Data: []byte(data)})
	return a, err
}

func (c *C) DelComp(t, e uint32) (*d.Event, error) {
	a, _, err := c.Do(&hagallpb.EntityComponentDeleteRequest{Type: d.TCompDelReq, Timestamp: d.NewTag(), RequestId: c.NextReqID(), EntityComponentTypeId: t, EntityId: e})
	return a, err
}

func (c *C) UpdateComp(t, e uint32, data string) error {
	return c.Send(&hagallpb.EntityComponentUpdate{Type: d.TCompUpdate, Timestamp: d.NewTag(), EntityComponentTypeId: t, EntityId: e, Data: []byte(data)})
}

func (c *C) Action(e uint32, name string, sec int64, data string) (*d.Event, error) {
	a, _, err := c.Do(&vikjapb.EntityActionRequest{Type: d.TActionReq, Timestamp: d.NewTag(), RequestId: c.NextReqID(),
		EntityAction: &vikjapb.EntityAction{EntityId: e, Name: name, Timestamp: &timestamppb.Timestamp{Seconds: sec}, Data: []byte(data)}})
	return a, err
}

func (c *C) AddAsset(e uint32, asset string) (*d.Event, error) {
	a, _, err := c.Do(&odalpb.AssetInstanceAddRequest{Type: d.TAssetAddReq, Timestamp: d.NewTag(), RequestId: c.NextReqID(), EntityId: e, AssetId: asset})
	return a, err
}

func (c *C) Custom(body []byte, to ...uint32) error {
	return c.Send(&hagallpb.CustomMessage{Type: d.TCustom, Timestamp: d.NewTag(), ParticipantIds: to, Body: body})
}

// IsErr reports whether the event is an error response and its code.
func IsErr(e *d.Event) (int32, bool) {
	if e == nil || e.Type != d.TError {
		return 0, false
	}
	return int32(e.M.(*hagallpb.ErrorResponse).Code), true
}

// Departed waits until websocket.Handle has returned for c's connection
// (departure barrier). ok=false means it never did within the bound.
func Departed(p *sut.Proc, c *C, bound time.Duration) (bool, error) {
	if p.RealToken != "" {
		// the real binary has no per-connection bookkeeping endpoint: the socket is
		// seen closed, then a moment for the handler to finish (cleanup use only)
		c.WaitClosed()
		time.Sleep(20 * time.Millisecond)
		return true, nil
	}
	deadline := time.Now().Add(bound)
	for {
		ci, err := p.Conns(c.CID)
		if err != nil {
			return false, err
		}
		if b, ok := ci.By[c.CID]; ok && b.Entered > 0 && b.Returned >= b.Entered {
			return true, nil
		}
		if time.Now().After(deadline) {
			return false, nil
		}
		time.Sleep(300 * time.Microsecond)
	}
}

// Snapshot is the state handed to a probe that joins a session by id.
type Snapshot struct {
	Found bool
	Code  int32
	Join  *hagallpb.ParticipantJoinResponse
	State *hagallpb.SessionState
	Vikja *vikjapb.State
	Odal  *odalpb.State
}

// Probe joins session sid with a fresh connection, records what it is handed
// and leaves again (waiting for its departure to complete).
func Probe(p *sut.Proc, sid, mods string) (*Snapshot, error) {
	c, err := dial(p, mods, "")
	if err != nil {
		return nil, err
	}
	defer c.Close()
	jr, a, err := c.Join(sid)
	if err != nil {
		return nil, err
	}
	s := &Snapshot{}
	if jr == nil {
		if code, ok := IsErr(a); ok {
			s.Code = code
		}
		return s, nil
	}
	s.Found, s.Join = true, jr
	for _, e := range c.Extra {
		switch m := e.M.(type) {
		case *hagallpb.SessionState:
			s.State = m
		case *vikjapb.State:
			s.Vikja = m
		case *odalpb.State:
			s.Odal = m
		}
	}
	c.Close()
	if ok, err := Departed(p, c, 10*time.Second); err != nil || !ok {
		return s, fmt.Errorf("probe departure did not complete: %v", err)
	}
	return s, nil
}
