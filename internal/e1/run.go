package e1

import (
	"fmt"
	"net/url"

	"github.com/aukilabs/hagall-common/messages/hagallpb"
	"google.golang.org/protobuf/proto"
	"sort"
	"strings"
	"time"

	d "verif/internal/driver"
	"verif/internal/model"
	"verif/internal/sut"
)

// Config of one sequential history.
type Config struct {
	Seed              int64
	Steps             int
	MaxConns          int
	MaxSess           int
	Mods              string
	Profile           string
	CheckEvery        int
	Flags             []string // DISABLE_* flags for every connection of this history
	Avoid             []string
	Census            bool    // goroutine census at the end (costly)
	Groups            int     // see Gen.Groups
	ProbeAfterRefusal float64 // probability of probing the session right after a refused request (C04: a refused request changes nothing)
	Record            bool    // record actions and per-step windows (differential runs)
}

func (c Config) String() string {
	return fmt.Sprintf("seed=%d steps=%d conns=%d sess=%d mods=%q profile=%s flags=%v", c.Seed, c.Steps, c.MaxConns, c.MaxSess, c.Mods, c.Profile, c.Flags)
}

// Failure is a violation with its context.
type Failure struct {
	model.Violation
	Step    int
	History []string // the steps executed so far
	Config  string
	Extra   string
	Trigger string
}

// Stats is what one history observed (evidence).
type Stats struct {
	Steps          int
	Kinds          map[string]int
	Accepted       map[string]int
	Refused        map[string]int
	RefusalReasons map[string]int
	RelaysMatched  int
	MayMatched     int
	Checkpoints    int
	ViewCompares   int
	Joins          int
	HandedStates   int
	Departures     int
	SessionsEnded  int
	SIDsReused     int
	Inconclusive   int
	EventsByType   map[string]int
	MaxMembers     int
	ClassesChanged map[string]bool
	Marks          map[string]int // named situations that occurred and were checked (non-triviality rules)
}

func newStats() *Stats {
	return &Stats{Kinds: map[string]int{}, Accepted: map[string]int{}, Refused: map[string]int{}, RefusalReasons: map[string]int{},
		EventsByType: map[string]int{}, ClassesChanged: map[string]bool{}, Marks: map[string]int{}}
}

func (s *Stats) Merge(o *Stats) {
	s.Steps += o.Steps
	for k, v := range o.Kinds {
		s.Kinds[k] += v
	}
	for k, v := range o.Accepted {
		s.Accepted[k] += v
	}
	for k, v := range o.Refused {
		s.Refused[k] += v
	}
	for k, v := range o.RefusalReasons {
		s.RefusalReasons[k] += v
	}
	for k, v := range o.EventsByType {
		s.EventsByType[k] += v
	}
	for k := range o.ClassesChanged {
		s.ClassesChanged[k] = true
	}
	for k, v := range o.Marks {
		s.Marks[k] += v
	}
	s.RelaysMatched += o.RelaysMatched
	s.MayMatched += o.MayMatched
	s.Checkpoints += o.Checkpoints
	s.ViewCompares += o.ViewCompares
	s.Joins += o.Joins
	s.HandedStates += o.HandedStates
	s.Departures += o.Departures
	s.SessionsEnded += o.SessionsEnded
	s.SIDsReused += o.SIDsReused
	s.Inconclusive += o.Inconclusive
	if o.MaxMembers > s.MaxMembers {
		s.MaxMembers = o.MaxMembers
	}
}

// Runner executes one history against a SUT.
type Runner struct {
	P       *sut.Proc
	Cfg     Config
	M       *model.Model
	G       *Gen
	Clients map[int]*d.Client
	Views   map[int]*model.View
	Hist    []string
	Stats   *Stats
	Fail    *Failure
	// Inconclusive reason, if the history had to be abandoned without a verdict
	Inconclusive string
	baseSessions float64
	baseClients  float64
	baseWorkers  int
	cur          string // kind of the action in progress (trigger class of a failure)
	curReason    string
	tags         map[int64]tagInfo // every request issued, by its unique origin tag
	afterRefusal string            // set while the probe that follows a refused request runs
	// differential runs
	Script  []Action                 // when set, executed instead of generated actions
	Actions []Action                 // executed actions (Record)
	Rec     map[int]map[int][]string // conn -> step -> sorted normalised window (Record)
	created map[[2]int]string        // symbolic session reference -> session id in this run
	sidRef  map[string][2]int        // session id -> latest creation reference
	stepNo  int
}

type tagInfo struct {
	conn int
	kind string
	uuid string // session the sender was in when it sent the request ("" = none)
}

func NewRunner(p *sut.Proc, cfg Config) *Runner {
	m := model.New()
	prof := Profiles[cfg.Profile]
	if prof == nil {
		prof = Profiles["mixed"]
	}
	g := NewGen(cfg.Seed, m, prof, cfg.MaxConns, cfg.MaxSess, cfg.Mods)
	for _, a := range cfg.Avoid {
		g.Avoid[a] = true
	}
	return &Runner{P: p, Cfg: cfg, M: m, G: g, Clients: map[int]*d.Client{}, Views: map[int]*model.View{}, Stats: newStats()}
}

func (r *Runner) fail(v model.Violation, extra string) {
	if r.Fail != nil {
		return
	}
	h := append([]string(nil), r.Hist...)
	if r.flagged() {
		v.Props = append(append([]string(nil), v.Props...), "C17")
	}
	if r.afterRefusal != "" {
		v.Props = append(append([]string(nil), v.Props...), "C04")
		v.Detail = "right after the refused request [" + r.afterRefusal + "] (a refused request changes nothing): " + v.Detail
	}
	trig := r.cur
	if r.curReason != "" {
		trig += ":" + strings.ReplaceAll(strings.TrimSpace(r.curReason), " ", "-")
	}
	r.Fail = &Failure{Violation: v, Step: len(r.Hist), History: h, Config: r.Cfg.String(), Extra: extra, Trigger: trig}
}

func (r *Runner) note(format string, a ...any) { r.Hist = append(r.Hist, fmt.Sprintf(format, a...)) }

// Run executes the history; it returns after the first violation.
func (r *Runner) Run() {
	defer r.closeAll()
	if ms, err := r.P.Metrics(); err == nil {
		r.baseSessions = ms["session_count"]
		r.baseClients = ms["ws_connected_clients"]
	}
	every := r.Cfg.CheckEvery
	if every <= 0 {
		every = 7
	}
	r.G.Groups = r.Cfg.Groups
	r.G.NoDeadSIDs = r.Cfg.Record
	r.created = map[[2]int]string{}
	r.sidRef = map[string][2]int{}
	r.Rec = map[int]map[int][]string{}
	nSteps := r.Cfg.Steps
	if r.Script != nil {
		nSteps = len(r.Script)
	}
	for step := 0; step < nSteps && r.Fail == nil && r.Inconclusive == ""; step++ {
		if !r.P.Alive() {
			r.fail(model.Violation{Props: []string{"C08", "C09"}, Clause: "process/exited", Detail: "the server process ended: " + r.P.ExitInfo()}, r.P.CrashHead(5000))
			return
		}
		var a Action
		if r.Script != nil {
			a = r.Script[step]
			if a.Req != nil {
				rq := *a.Req
				a.Req = &rq
				if a.JoinRef != nil {
					if sid, ok := r.created[*a.JoinRef]; ok {
						a.Req.SID = sid
					}
				}
			}
			r.stepNo = a.Step
		} else {
			a = r.G.Next()
			a.Step = step
			r.stepNo = step
		}
		if r.Cfg.Record {
			r.Actions = append(r.Actions, a)
		}
		r.Stats.Steps++
		r.Stats.Kinds[a.Kind]++
		r.exec(a)
		r.maybeProbeAfterRefusal(a)
		if r.Fail == nil && r.Inconclusive == "" && (step+1)%every == 0 {
			r.checkpoint()
		}
	}
	if r.Fail == nil && r.Inconclusive == "" {
		r.checkpoint()
		r.finalChecks()
	}
	r.Stats.SessionsEnded = r.M.Ended
	r.Stats.SIDsReused = r.M.Reused
}

func (r *Runner) dial(id int, noFlags bool) (*d.Client, error) {
	q := url.Values{"mods": {r.Cfg.Mods}}
	if len(r.Cfg.Flags) > 0 && !noFlags {
		q.Set("flags", strings.Join(r.Cfg.Flags, ","))
	}
	return d.Dial(id, r.P.Addr, q, nil)
}

func (r *Runner) exec(a Action) {
	r.cur, r.curReason = a.Kind, ""
	switch a.Kind {
	case "open":
		c, err := r.dial(a.Conn, a.NoFlags)
		if err != nil {
			r.Inconclusive = "dial failed: " + err.Error()
			return
		}
		r.Clients[a.Conn] = c
		r.Views[a.Conn] = model.NewView(a.Conn)
		r.Views[a.Conn].Mods = r.Cfg.Mods
		if a.NoFlags {
			r.M.AddConn(a.Conn, r.Cfg.Mods, nil)
		} else {
			r.M.AddConn(a.Conn, r.Cfg.Mods, r.Cfg.Flags)
		}
		r.note("c%d open", a.Conn)
		// a pong proves that websocket.Handle is running for this connection
		// (HandleConnect precedes its main loop), so gauges are settled
		if _, err := c.Barrier(); err != nil {
			r.Inconclusive = "no pong on a fresh connection: " + err.Error()
		}
	case "close":
		cl := r.Clients[a.Conn]
		r.note("c%d close(%s)", a.Conn, a.Req.How)
		mc := r.M.Conns[a.Conn]
		wasJoined := mc.Sess != nil
		if wasJoined {
			r.Stats.Departures++
			r.noteGone(mc)
			r.departureMarks(mc)
		}
		switch a.Req.How {
		case "rst":
			cl.Abort()
		case "halfclose":
			cl.HalfClose()
		default:
			cl.Close()
		}
		if !r.departureBarrier(cl) {
			return
		}
		if a.Req.How == "halfclose" {
			cl.Close()
		}
		o := r.M.Step(a.Conn, a.Req, nil)
		r.Views[a.Conn].Leave()
		r.settle(a, o, nil)
	default:
		r.request(a)
	}
}

// noteGone records ids that stop existing when connection mc departs.
func (r *Runner) noteGone(mc *model.Conn) {
	s := mc.Sess
	if s == nil {
		return
	}
	for id, e := range s.Entities {
		if e.Owner == mc.PID && !e.Persist {
			r.G.NoteEntityGone(s.UUID, id)
		}
	}
	if len(s.Members) == 1 {
		r.G.NoteSessionGone(s.SID)
	}
}

func (r *Runner) request(a Action) {
	cl := r.Clients[a.Conn]
	mc := r.M.Conns[a.Conn]
	req := a.Req
	if req.ID == 0 && req.Kind != "pose" && req.Kind != "comp_upd" && req.Kind != "custom" {
		req.ID = cl.NextReqID()
	}
	r.note("c%d %s", a.Conn, req)
	prevSess := mc.Sess
	if req.Kind == "join" && prevSess != nil {
		r.noteGone(mc) // may leave (the model decides); harmless if it does not
	}
	if req.Kind == "entity_del" && prevSess != nil {
		if e, ok := prevSess.Entities[req.Entity]; ok && e.Owner == mc.PID {
			r.G.NoteEntityGone(prevSess.UUID, req.Entity)
		}
	}
	r.preMarks(mc, req)
	if r.tags == nil {
		r.tags = map[int64]tagInfo{}
	}
	ti := tagInfo{conn: a.Conn, kind: req.Kind}
	if mc.Sess != nil {
		ti.uuid = mc.Sess.UUID
	}
	r.tags[d.TagID(req.Tag)] = ti
	if err := cl.Send(req.Proto()); err != nil {
		// the peer is gone already: the barrier will tell
		r.note("  send error: %v", err)
	}
	var win []*d.Event
	var err error
	if req.Deferred() && mc.Sess != nil {
		var w1 []*d.Event
		w1, err = cl.Barrier()
		win = append(win, w1...)
		if err == nil {
			ok, reason, terr := r.P.WaitTicks(mc.Sess.SID, 3, 10*time.Second)
			if terr != nil || !ok {
				r.frameStall(mc.Sess.SID, reason, terr)
				return
			}
			w1, err = cl.Barrier()
			win = append(win, w1...)
		}
	} else {
		win, err = cl.Barrier()
	}
	// A request that needs a session, from a connection that is in none, may
	// legitimately end the connection (C04) - but the pong of the barrier can
	// overtake the close: the main loop picks at random between its message
	// queue and its disconnect queue. Keep asking: every further pong halves
	// the chance that a pending disconnect is still unserved.
	if err == nil && mc.Sess == nil && req.Kind != "join" && req.Kind != "ping" && req.Kind != "receipt" {
		for i := 0; i < 40 && err == nil; i++ {
			var w []*d.Event
			w, err = cl.Barrier()
			win = append(win, w...)
		}
	}
	if err == d.ErrTimeout {
		r.wedge(cl, "no pong on the requester's connection after "+req.String())
		return
	}
	closed := err == d.ErrClosed
	if closed {
		if !r.departureBarrier(cl) {
			return
		}
	}
	for _, e := range win {
		r.Stats.EventsByType[d.TypeName(e.Type)]++
	}
	o := r.M.Step(a.Conn, req, win)
	r.cur, r.curReason = req.Kind, ""
	if o.Refused {
		r.curReason = o.Reason
	}
	if o.Accepted {
		r.Stats.Accepted[req.Kind]++
		r.classify(req.Kind)
	}
	if o.Refused {
		r.Stats.Refused[req.Kind]++
		r.Stats.RefusalReasons[req.Kind+": "+strings.TrimSpace(o.Reason)]++
	}
	if o.Joined != nil && req.SID == "" {
		ref := r.G.NoteCreated(o.Joined.SID, r.G.Group(a.Conn))
		r.created[ref] = o.Joined.SID
		r.sidRef[o.Joined.SID] = ref
	}
	r.record(a.Conn, win)
	r.postMarks(mc, req, o)
	// fold into the requester's view
	v := r.Views[a.Conn]
	if o.Joined != nil {
		r.Stats.Joins++
		v.Reset(mc.PID)
		for _, e := range win {
			if e.Type == d.TSessionState || e.Type == d.TVikjaState || e.Type == d.TOdalState {
				v.Apply(e, true)
				r.Stats.HandedStates++
			}
		}
		if n := len(o.Joined.Members); n > r.Stats.MaxMembers {
			r.Stats.MaxMembers = n
		}
	} else if o.Closed {
		v.Leave()
	} else {
		v.ApplyOwn(req, o, win)
	}
	if req.Kind == "join" && prevSess != nil && mc.Sess != prevSess {
		r.Stats.Departures++
	}
	r.settle(a, o, prevSess)
}

func (r *Runner) classify(kind string) {
	switch kind {
	case "join", "close":
		r.Stats.ClassesChanged["participants"] = true
	case "entity_add", "entity_del":
		r.Stats.ClassesChanged["entities"] = true
	case "pose":
		r.Stats.ClassesChanged["poses"] = true
	case "comp_add", "comp_del", "comp_upd":
		r.Stats.ClassesChanged["components"] = true
	case "action":
		r.Stats.ClassesChanged["actions"] = true
	case "asset_add":
		r.Stats.ClassesChanged["assets"] = true
	}
}

// settle runs the session barrier on every other live connection and checks
// each window against what the model says it must / may contain.
func (r *Runner) settle(a Action, o *model.Outcome, prevSess *model.Session) {
	for _, v := range o.Viol {
		r.fail(v, "")
	}
	ids := make([]int, 0, len(r.Clients))
	for id := range r.Clients {
		ids = append(ids, id)
	}
	sort.Ints(ids)
	reqDesc := a.Kind
	if a.Req != nil {
		reqDesc = a.Req.String()
	}
	requester := r.M.Conns[a.Conn]
	for _, id := range ids {
		if id == a.Conn {
			continue
		}
		mc := r.M.Conns[id]
		if mc.Dead {
			continue
		}
		cl := r.Clients[id]
		win, err := cl.Barrier()
		if err == d.ErrTimeout {
			r.wedge(cl, fmt.Sprintf("witness connection %d got no pong after c%d %s", id, a.Conn, reqDesc))
			return
		}
		for _, e := range win {
			r.Stats.EventsByType[d.TypeName(e.Type)]++
		}
		r.record(id, win)
		must := r.unsuppressed(o.Must[id], requester)
		may := r.unsuppressed(o.May[id], requester)
		usedMust := make([]bool, len(must))
		usedMay := make([]bool, len(may))
		view := r.Views[id]
	events:
		for _, e := range win {
			if e.Type == d.TClosed {
				r.fail(model.Violation{Props: []string{"C08", "C03", "C09"}, Clause: "witness/connection-ended",
					Detail: fmt.Sprintf("connection %d was ended by the server although it did nothing; cause: c%d %s", id, a.Conn, reqDesc)}, r.P.LogTail(3000))
				mc.Dead = true
				continue
			}
			for i, p := range must {
				if !usedMust[i] && p.Matches(e.M) {
					usedMust[i] = true
					r.Stats.RelaysMatched++
					view.Apply(e, !r.flagged())
					continue events
				}
			}
			for i, p := range may {
				if !usedMay[i] && p.Matches(e.M) {
					usedMay[i] = true
					r.Stats.MayMatched++
					view.Apply(e, !r.flagged())
					continue events
				}
			}
			if ti, ok := r.attribute(e); ok && (ti.kind == "pose" || ti.kind == "comp_upd") && (mc.Sess == nil || ti.uuid != mc.Sess.UUID) {
				// a deferred update that was sent while its sender was not in this
				// session has been executed in it
				save := r.cur
				r.cur, r.curReason = "", ""
				r.fail(model.Violation{Props: []string{"C03", "C04"}, Clause: "isolation/deferred-update-crosses-session-boundary",
					Detail: fmt.Sprintf("connection %d (in session %s) received %s, caused by a %s that connection %d sent while it was in session %q (\"\" = none): an update still pending in the sender's scheduler was executed in the session it joined later", id, sessName(mc), e, ti.kind, ti.conn, ti.uuid)}, "")
				r.cur = save
				continue
			}
			props := r.blame(e, o, mc, requester, prevSess)
			dup := false
			for _, p := range append(must, may...) {
				if p.Matches(e.M) {
					dup = true
				}
			}
			clause := "relay/unexpected"
			if dup {
				clause = "relay/duplicate"
			}
			r.fail(model.Violation{Props: props, Clause: clause,
				Detail: fmt.Sprintf("connection %d received %s after c%d %s (accepted=%v refused=%v %s); expected must=%v may=%v", id, e, a.Conn, reqDesc, o.Accepted, o.Refused, o.Reason, must, may)}, "")
		}
		for i, p := range must {
			if !usedMust[i] {
				r.fail(model.Violation{Props: p.Props, Clause: "relay/missing",
					Detail: fmt.Sprintf("connection %d did not receive %s after c%d %s; its window: %v", id, p, a.Conn, reqDesc, win)}, "")
			}
		}
		for _, prob := range view.Problems {
			r.fail(model.Violation{Props: []string{"C01"}, Clause: "view/inapplicable-broadcast", Detail: prob + fmt.Sprintf(" (after c%d %s)", a.Conn, reqDesc)}, "")
		}
		view.Problems = nil
		if err == d.ErrClosed && !mc.Dead {
			mc.Dead = true
		}
	}
	// staleness bookkeeping for component views (C13's entitlement)
	if a.Req != nil && o.Accepted && requester != nil {
		switch a.Req.Kind {
		case "comp_add", "comp_del", "comp_upd":
			if s := requester.Sess; s != nil {
				for pid, q := range s.Members {
					if q == a.Conn {
						continue
					}
					if !s.Subs[a.Req.TypeID][pid] {
						r.Views[q].Stale[a.Req.TypeID] = true
					}
				}
			}
		}
	}
}

// blame decides which properties an unexpected relay refutes.
func (r *Runner) blame(e *d.Event, o *model.Outcome, witness, requester *model.Conn, prevSess *model.Session) []string {
	props := []string{"C02"}
	sameSession := requester != nil && witness.Sess != nil && (witness.Sess == requester.Sess || witness.Sess == prevSess)
	if !sameSession {
		props = append(props, "C03")
	}
	if o.Refused {
		props = append(props, "C04")
		if strings.Contains(o.Reason, "foreign") || strings.Contains(o.Reason, "dropped pose") {
			props = append(props, "C05")
		}
		if strings.Contains(o.Reason, "component") {
			props = append(props, "C12")
		}
		if strings.Contains(o.Reason, "older") || strings.Contains(o.Reason, "action") {
			props = append(props, "C16")
		}
	}
	switch e.Type {
	case d.TPoseBcast:
		props = append(props, "C11")
	case d.TCompAddBcast, d.TCompDelBcast, d.TCompUpdateBcast:
		props = append(props, "C13", "C12")
	case d.TCustomBcast:
		props = append(props, "C14")
	case d.TActionBcast, d.TAssetAddBcast:
		props = append(props, "C16")
	case d.TEntityDelBcast, d.TLeaveBcast:
		props = append(props, "C06")
	case d.TJoinBcast:
		props = append(props, "C07")
	}
	return props
}

// departureBarrier waits until websocket.Handle has returned for the client's
// connection: only then is its departure complete (DESIGN 2.4, barrier 4).
func (r *Runner) departureBarrier(cl *d.Client) bool {
	for round := 0; round < 4000; round++ {
		ci, err := r.P.Conns(cl.CID)
		if err != nil {
			if !r.P.Alive() {
				r.fail(model.Violation{Props: []string{"C08", "C09"}, Clause: "process/exited", Detail: "the server process ended: " + r.P.ExitInfo()}, r.P.CrashHead(5000))
				return false
			}
			r.Inconclusive = "admin endpoint failed: " + err.Error()
			return false
		}
		if b, ok := ci.By[cl.CID]; ok && b.Returned >= b.Entered && b.Entered > 0 {
			return true
		}
		if round > 20 {
			time.Sleep(time.Duration(min(round, 50)) * 100 * time.Microsecond)
		}
	}
	r.wedge(cl, "websocket.Handle never returned for a connection that ended")
	return false
}

func (r *Runner) frameStall(sid, reason string, err error) {
	if !r.P.Alive() {
		r.fail(model.Violation{Props: []string{"C08", "C09"}, Clause: "process/exited", Detail: "the server process ended: " + r.P.ExitInfo()}, r.P.CrashHead(5000))
		return
	}
	r.wedge(nil, fmt.Sprintf("frame worker of session %s made no progress (%s %v)", sid, reason, err))
}

// wedge applies the three-valued rule of DESIGN 2.4: two goroutine dumps
// 500 ms apart that show a hagall goroutine parked at the same non-idle place
// make it a violation; anything else is inconclusive.
func (r *Runner) wedge(cl *d.Client, what string) {
	if !r.P.Alive() {
		r.fail(model.Violation{Props: []string{"C08", "C09"}, Clause: "process/exited", Detail: "the server process ended: " + r.P.ExitInfo() + " (" + what + ")"}, r.P.CrashHead(5000))
		return
	}
	d1, e1 := r.P.Goroutines()
	time.Sleep(500 * time.Millisecond)
	d2, e2 := r.P.Goroutines()
	if e1 != nil || e2 != nil {
		r.Inconclusive = what + " (goroutine dump unavailable)"
		r.Stats.Inconclusive++
		return
	}
	if stuck := StuckGoroutines(d1, d2); len(stuck) > 0 {
		r.fail(model.Violation{Props: []string{"C08", "C09"}, Clause: "liveness/wedged",
			Detail: what + "; goroutines parked in hagall code across two dumps:\n" + strings.Join(stuck, "\n---\n")}, "")
		return
	}
	r.Inconclusive = what
	r.Stats.Inconclusive++
}

// StuckGoroutines returns the hagall goroutines that are blocked on a channel
// send or a mutex at the same place in both dumps.
func StuckGoroutines(d1, d2 string) []string {
	parse := func(dump string) map[string]string {
		out := map[string]string{}
		for _, g := range strings.Split(dump, "\n\n") {
			head, _, _ := strings.Cut(g, "\n")
			if !strings.HasPrefix(head, "goroutine ") {
				continue
			}
			blocked := strings.Contains(head, "[chan send") || strings.Contains(head, "[sync.Mutex.Lock") || strings.Contains(head, "[sync.RWMutex.Lock") ||
				strings.Contains(head, "[sync.RWMutex.RLock")
			// a handler that is still running the same hagall function half a
			// second later is spinning (e.g. a loop over a wrapped-around index range)
			if (strings.HasPrefix(strings.TrimPrefix(head[strings.Index(head, "["):], "["), "running") || strings.HasPrefix(strings.TrimPrefix(head[strings.Index(head, "["):], "["), "runnable")) &&
				strings.Contains(g, "websocket.(*handler).handleMessage") {
				blocked = true
			}
			if strings.Contains(head, "[semacquire") && (strings.Contains(g, "sync.(*Mutex).Lock") || strings.Contains(g, "sync.(*RWMutex).")) {
				blocked = true // a mutex wait on older runtimes; WaitGroup.Wait (idle by design) is not
			}
			if !blocked {
				continue
			}
			if !strings.Contains(g, "github.com/aukilabs/hagall/") && !strings.Contains(g, "github.com/aukilabs/hagall-common/websocket") {
				continue
			}
			if strings.Contains(g, "verifrt.P") {
				continue // parked at a harness gate
			}
			id := strings.Fields(head)[1]
			out[id] = g
		}
		return out
	}
	a, b := parse(d1), parse(d2)
	var out []string
	for id, g := range a {
		if g2, ok := b[id]; ok && stackSig(g) == stackSig(g2) {
			if len(g) > 1800 {
				g = g[:1800] + "…"
			}
			out = append(out, g)
		}
	}
	sort.Strings(out)
	return out
}

func stackSig(g string) string {
	var fns []string
	for _, l := range strings.Split(g, "\n")[1:] {
		if !strings.HasPrefix(l, "\t") {
			fns = append(fns, l)
		}
	}
	return strings.Join(fns, "|")
}

// checkpoint compares every member's view with the server state.
func (r *Runner) checkpoint() {
	r.Stats.Checkpoints++
	r.cur, r.curReason = "checkpoint", ""
	for id, mc := range r.M.Conns {
		if mc.Dead || mc.Sess == nil || r.flagged() {
			continue
		}
		v := r.Views[id]
		r.Stats.ViewCompares++
		if diff := v.Diff(mc.Sess.State, mc.Mods); len(diff) > 0 {
			r.fail(model.Violation{Props: []string{"C01"}, Clause: "view/diverged",
				Detail: fmt.Sprintf("at quiescence the view of connection %d (participant %d of %s) differs from the server state: %s", id, mc.PID, mc.Sess.SID, strings.Join(diff, "; "))}, "")
			return
		}
	}
	// registry: the session gauge equals the number of live sessions (C07)
	if ms, err := r.P.Metrics(); err == nil {
		if got, want := ms["session_count"]-r.baseSessions, float64(len(r.M.Sessions)); got != want {
			r.fail(model.Violation{Props: []string{"C07"}, Clause: "registry/session-gauge",
				Detail: fmt.Sprintf("session_count gauge changed by %v since the history began, but %v sessions are live", got, want)}, "")
		}
		live := 0
		for _, mc := range r.M.Conns {
			if !mc.Dead {
				live++
			}
		}
		if got := ms["ws_connected_clients"] - r.baseClients; got != float64(live) {
			r.fail(model.Violation{Props: []string{"C08"}, Clause: "gauge/connected-clients",
				Detail: fmt.Sprintf("ws_connected_clients changed by %v since the history began, but %d harness connections are open", got, live)}, "")
		}
	}
}

// finalChecks: probes for every live session, then everything is closed and
// the registry must be empty again.
func (r *Runner) finalChecks() {
	r.stepNo = -1
	// a probe joins every live session by id and is handed the state, which
	// Model.Step compares with the model (C01 newcomer clause, C07 findable)
	for _, sid := range r.G.liveSIDs() {
		if r.Fail != nil || r.Inconclusive != "" {
			return
		}
		r.G.nextConn++
		id := r.G.nextConn + 1000
		r.exec(Action{Kind: "open", Conn: id, NoFlags: true})
		if r.Inconclusive != "" {
			return
		}
		r.request(Action{Kind: "join", Conn: id, Req: &model.Req{Kind: "join", SID: sid, Tag: d.NewTag()}})
		if r.Fail != nil || r.Inconclusive != "" {
			return
		}
		r.exec(Action{Kind: "close", Conn: id, Req: &model.Req{Kind: "close", How: "fin"}})
	}
	if r.Fail != nil || r.Inconclusive != "" {
		return
	}
	// close everything through the model so that departures are checked
	ids := []int{}
	for id, mc := range r.M.Conns {
		if !mc.Dead {
			ids = append(ids, id)
		}
	}
	sort.Ints(ids)
	for _, id := range ids {
		if r.Fail != nil || r.Inconclusive != "" {
			return
		}
		r.Stats.Kinds["close"]++
		r.exec(Action{Kind: "close", Conn: id, Req: &model.Req{Kind: "close", How: "fin"}})
	}
	if r.Fail != nil || r.Inconclusive != "" {
		return
	}
	r.checkpoint()
	if r.Cfg.Census && r.Fail == nil {
		dump, err := r.P.Goroutines()
		if err == nil {
			if n := sut.CountGoroutines(dump, "StartDispatchFrames"); n != 0 {
				r.fail(model.Violation{Props: []string{"C07"}, Clause: "registry/frame-worker-leak",
					Detail: fmt.Sprintf("%d frame-worker goroutines remain although every session has ended", n)}, "")
			}
			if n := sut.CountGoroutines(dump, "websocket.(*handler).Handle"); n != 0 {
				r.fail(model.Violation{Props: []string{"C08"}, Clause: "liveness/handler-leak",
					Detail: fmt.Sprintf("%d connection handlers remain although every connection has ended", n)}, "")
			}
		}
	}
}

// RunPrefix executes the generated history without the final checks and
// leaves the connections open (concurrent blocks continue from there). The
// caller must call CloseAll.
func (r *Runner) RunPrefix() {
	if ms, err := r.P.Metrics(); err == nil {
		r.baseSessions = ms["session_count"]
		r.baseClients = ms["ws_connected_clients"]
	}
	r.G.Groups = r.Cfg.Groups
	r.created = map[[2]int]string{}
	r.sidRef = map[string][2]int{}
	r.Rec = map[int]map[int][]string{}
	for step := 0; step < r.Cfg.Steps && r.Fail == nil && r.Inconclusive == ""; step++ {
		if !r.P.Alive() {
			r.fail(model.Violation{Props: []string{"C08", "C09"}, Clause: "process/exited", Detail: "the server process ended: " + r.P.ExitInfo()}, r.P.CrashHead(5000))
			return
		}
		a := r.G.Next()
		a.Step, r.stepNo = step, step
		r.Stats.Steps++
		r.Stats.Kinds[a.Kind]++
		r.exec(a)
	}
	if r.Fail == nil && r.Inconclusive == "" {
		r.checkpoint()
	}
}

// CloseAll closes every connection and waits for the handlers to return.
func (r *Runner) CloseAll() { r.closeAll() }

// Checkpoint runs the quiescent-state comparison (views, gauges).
func (r *Runner) Checkpoint() { r.checkpoint() }

func (r *Runner) closeAll() {
	for _, c := range r.Clients {
		c.Close()
	}
	// wait for the handlers to return so that the next history starts clean
	for _, c := range r.Clients {
		for i := 0; i < 2000; i++ {
			ci, err := r.P.Conns(c.CID)
			if err != nil {
				return
			}
			if b, ok := ci.By[c.CID]; !ok || b.Returned >= b.Entered {
				break
			}
			time.Sleep(time.Millisecond)
		}
	}
}

func (r *Runner) mark(name string) { r.Stats.Marks[name]++ }

// departureMarks records what kind of departure is about to happen.
func (r *Runner) departureMarks(mc *model.Conn) {
	s := mc.Sess
	if s == nil {
		return
	}
	persist, volatile, attached, cascade := 0, 0, 0, false
	for id, e := range s.Entities {
		if e.Owner != mc.PID {
			continue
		}
		if e.Persist {
			persist++
		} else {
			volatile++
		}
		has := false
		for k := range s.Comps {
			if k.Entity == id {
				has = true
				if !e.Persist {
					cascade = true
				}
			}
		}
		for k := range s.Actions {
			if k.Entity == id {
				has = true
			}
		}
		if _, ok := s.Assets[id]; ok {
			has = true
		}
		if has {
			attached++
		}
	}
	if len(s.Members) >= 2 {
		r.mark("departure:witnessed")
		if persist > 0 && volatile > 0 && attached > 0 {
			r.mark("departure:rich")
		}
	}
	if cascade {
		r.mark("cascade:departure")
	}
	if len(s.Members) == 1 {
		r.mark("departure:last-member")
	}
	subs := 0
	for _, set := range s.Subs {
		if set[mc.PID] {
			subs++
			if len(set) == 1 {
				r.mark("departure:sole-subscriber")
			}
		}
	}
}

func (r *Runner) preMarks(mc *model.Conn, req *model.Req) {
	s := mc.Sess
	if s == nil {
		return
	}
	if req.Kind == "join" && s.SID != req.SID {
		if _, live := r.M.Sessions[req.SID]; live || req.SID == "" {
			r.departureMarks(mc)
		}
	}
	switch req.Kind {
	case "entity_del", "pose", "asset_add":
		if e, ok := s.Entities[req.Entity]; ok && e.Owner != mc.PID {
			r.mark("foreign:" + req.Kind)
			if _, in := s.Members[e.Owner]; !in {
				r.mark("foreign-after-owner-left:" + req.Kind)
			}
		}
		if e, ok := s.Entities[req.Entity]; ok && e.Owner == mc.PID && req.Kind == "entity_del" {
			for k := range s.Comps {
				if k.Entity == req.Entity {
					r.mark("cascade:entity_del")
					break
				}
			}
		}
		if req.Kind == "asset_add" {
			if _, ok := s.Assets[req.Entity]; ok {
				r.mark("asset:replacement-attempt")
			}
		}
	case "custom":
		if n := len(req.Data); n >= 10238 && n <= 10242 {
			r.mark("custom:near-limit")
		}
		if len(req.Data) > 1<<20 {
			r.mark("custom:huge")
		}
		seen := map[uint32]bool{}
		for _, p := range req.Recipients {
			if seen[p] {
				r.mark("custom:duplicate-recipient")
			}
			seen[p] = true
			if p == mc.PID {
				r.mark("custom:self-recipient")
			} else if _, in := s.Members[p]; !in {
				r.mark("custom:stranger-recipient")
			}
		}
	case "action":
		if prev, ok := s.Actions[model.ActKey{Entity: req.Entity, Name: req.Name}]; ok && req.ActTS != nil && !req.ActNil {
			switch {
			case req.ActTS.Seconds == prev.Sec && req.ActTS.Nanos == prev.Nanos:
				r.mark("action:equal-timestamp")
			case req.ActTS.Seconds < prev.Sec || req.ActTS.Seconds == prev.Sec && req.ActTS.Nanos < prev.Nanos:
				r.mark("action:older-timestamp")
			}
		}
	case "comp_upd":
		if _, ok := s.Comps[model.CompKey{Type: req.TypeID, Entity: req.Entity}]; ok {
			r.mark("comp_upd:existing")
		} else {
			r.mark("comp_upd:missing")
		}
	case "comp_add":
		if _, ok := s.Comps[model.CompKey{Type: req.TypeID, Entity: req.Entity}]; ok {
			r.mark("comp_add:duplicate")
		}
	}
}

func (r *Runner) postMarks(mc *model.Conn, req *model.Req, o *model.Outcome) {
	if len(o.Must) >= 2 {
		r.mark("relay:multi-recipient")
	}
	if len(r.M.Sessions) >= 2 {
		// coinciding ids across live sessions
		seen := map[uint32]int{}
		for _, s := range r.M.Sessions {
			for id := range s.Entities {
				seen[id]++
			}
		}
		for _, n := range seen {
			if n >= 2 {
				r.mark("sessions:coinciding-entity-ids")
				break
			}
		}
		r.mark("sessions:two-or-more-live")
	}
	s := mc.Sess
	if s == nil || !o.Accepted {
		return
	}
	switch req.Kind {
	case "comp_add", "comp_del", "comp_upd":
		subs, non := 0, 0
		for pid := range s.Members {
			if pid == mc.PID {
				continue
			}
			if s.Subs[req.TypeID][pid] {
				subs++
			} else {
				non++
			}
		}
		if len(s.Subs[req.TypeID]) == 0 {
			r.mark("comp-change:no-subscriber")
		}
		if subs >= 2 && non >= 1 {
			r.mark("comp-change:2-subscribers-1-other")
		}
		if subs >= 1 {
			r.mark("comp-change:notified")
		}
	case "asset_add":
		r.mark("asset:accepted")
	case "action":
		r.mark("action:accepted")
	}
}

func sessName(mc *model.Conn) string {
	if mc.Sess == nil {
		return "<none>"
	}
	return mc.Sess.SID + "/" + mc.Sess.UUID
}

// attribute finds the request that caused a relay through its origin tag.
func (r *Runner) attribute(e *d.Event) (tagInfo, bool) {
	if e.M == nil {
		return tagInfo{}, false
	}
	f := e.M.ProtoReflect().Descriptor().Fields().ByName("origin_timestamp")
	if f == nil || !e.M.ProtoReflect().Has(f) {
		return tagInfo{}, false
	}
	ts := e.M.ProtoReflect().Get(f).Message()
	sec := ts.Get(ts.Descriptor().Fields().ByName("seconds")).Int()
	nanos := ts.Get(ts.Descriptor().Fields().ByName("nanos")).Int()
	id := (sec-1_600_000_000)*1_000_000_000 + nanos
	ti, ok := r.tags[id]
	return ti, ok
}

// record stores the normalised window of a connection for the current step.
func (r *Runner) record(conn int, win []*d.Event) {
	if !r.Cfg.Record || r.stepNo < 0 {
		return
	}
	var out []string
	for _, e := range win {
		out = append(out, r.normEvent(e))
	}
	sort.Strings(out)
	if r.Rec[conn] == nil {
		r.Rec[conn] = map[int][]string{}
	}
	r.Rec[conn][r.stepNo] = append(r.Rec[conn][r.stepNo], out...)
}

// normEvent renders an event without server timestamps, UUIDs and concrete
// session id strings (session ids become symbolic creation references).
func (r *Runner) normEvent(e *d.Event) string {
	if e.M == nil {
		return d.TypeName(e.Type)
	}
	m := model.Norm(e.M, false)
	// departure-caused relays carry the server's clock as origin timestamp
	if f := m.ProtoReflect().Descriptor().Fields().ByName("origin_timestamp"); f != nil && m.ProtoReflect().Has(f) {
		ts := m.ProtoReflect().Get(f).Message()
		if ts.Get(ts.Descriptor().Fields().ByName("seconds")).Int() >= 1_650_000_000 {
			m.ProtoReflect().Clear(f)
		}
	}
	if jr, ok := m.(*hagallpb.ParticipantJoinResponse); ok {
		ref := "S(?)"
		if k, ok := r.sidRef[jr.SessionId]; ok {
			ref = fmt.Sprintf("S(%d,%d)", k[0], k[1])
		}
		jr.SessionId, jr.SessionUuid = ref, ""
	}
	b, _ := proto.MarshalOptions{Deterministic: true}.Marshal(m)
	return fmt.Sprintf("%s %x", d.TypeName(e.Type), b)
}

// FlagClass maps each DISABLE_* flag to the message type it suppresses.
var FlagClass = map[string]int32{
	"DISABLE_SESSION_STATE":                     d.TSessionState,
	"DISABLE_PARTICIPANT_JOIN_BROADCAST":        d.TJoinBcast,
	"DISABLE_PARTICIPANT_LEAVE_BROADCAST":       d.TLeaveBcast,
	"DISABLE_ENTITY_ADD_BROADCAST":              d.TEntityAddBcast,
	"DISABLE_ENTITY_DELETE_BROADCAST":           d.TEntityDelBcast,
	"DISABLE_ENTITY_UPDATE_POSE_BROADCAST":      d.TPoseBcast,
	"DISABLE_CUSTOM_MESSAGE_BROADCAST":          d.TCustomBcast,
	"DISABLE_ENTITY_COMPONENT_ADD_BROADCAST":    d.TCompAddBcast,
	"DISABLE_ENTITY_COMPONENT_UPDATE_BROADCAST": d.TCompUpdateBcast,
	"DISABLE_ENTITY_COMPONENT_DELETE_BROADCAST": d.TCompDelBcast,
}

// flagged reports whether a known DISABLE_* flag is set for this history
// (views are then not comparable: the client is deliberately not told).
func (r *Runner) flagged() bool {
	for _, f := range r.Cfg.Flags {
		if _, ok := FlagClass[f]; ok {
			return true
		}
	}
	return false
}

// unsuppressed drops the relays whose class is disabled by a flag (C17).
// The relay sites are in the handler of the connection that causes the relay,
// so it is that connection's flags that count.
func (r *Runner) unsuppressed(ps []model.Pat, requester *model.Conn) []model.Pat {
	var out []model.Pat
next:
	for _, p := range ps {
		f := p.M.ProtoReflect().Descriptor().Fields().ByName("type")
		t := int32(p.M.ProtoReflect().Get(f).Enum())
		for fl := range requester.Flags {
			if c, ok := FlagClass[fl]; ok && c == t {
				r.Stats.Marks["flag-suppressed:"+fl]++
				continue next
			}
		}
		out = append(out, p)
	}
	return out
}

// maybeProbeAfterRefusal: right after a refused request of a joined member a
// fresh connection joins the member's session, is handed its state (compared
// with the model by Model.Step) and leaves again.
func (r *Runner) maybeProbeAfterRefusal(a Action) {
	if r.Script != nil || r.Cfg.ProbeAfterRefusal <= 0 || r.Fail != nil || r.Inconclusive != "" || a.Req == nil || r.curReason == "" {
		return
	}
	mc := r.M.Conns[a.Conn]
	if mc == nil || mc.Dead || mc.Sess == nil || len(r.G.liveConns()) >= r.Cfg.MaxConns+2 {
		return
	}
	if r.G.R.Float64() >= r.Cfg.ProbeAfterRefusal {
		return
	}
	sid := mc.Sess.SID
	r.afterRefusal = fmt.Sprintf("c%d %s", a.Conn, a.Req)
	defer func() { r.afterRefusal = "" }()
	r.G.nextConn++
	id := r.G.nextConn + 2000
	r.exec(Action{Kind: "open", Conn: id})
	if r.Fail != nil || r.Inconclusive != "" {
		return
	}
	r.Stats.Marks["probe-after-refusal"]++
	r.request(Action{Kind: "join", Conn: id, Req: &model.Req{Kind: "join", SID: sid, Tag: d.NewTag()}})
	if r.Fail != nil || r.Inconclusive != "" {
		return
	}
	r.exec(Action{Kind: "close", Conn: id, Req: &model.Req{Kind: "close", How: "fin"}})
}
