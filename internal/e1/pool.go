package e1

import (
	"sync"
	"time"

	"verif/internal/sut"
)

// PoolResult aggregates a batch of histories.
type PoolResult struct {
	Failures     []*Failure
	Stats        *Stats
	Histories    int
	Inconclusive []string
	PerHistory   []HistorySummary
	SUTRestarts  int
	StartErr     error
}

type HistorySummary struct {
	Cfg    Config
	Stats  *Stats
	Failed bool
	Head   []string // first steps, for evidence samples
}

// RunPool runs the histories on `workers` lab SUT processes (one per worker,
// histories of a worker run one after the other on its process).
func RunPool(ws *sut.Workspace, bin string, opts sut.LabOpts, cfgs []Config, workers int, stopOnFail bool) *PoolResult {
	res := &PoolResult{Stats: newStats()}
	var mu sync.Mutex
	var wg sync.WaitGroup
	jobs := make(chan Config)
	stop := make(chan struct{})
	var once sync.Once
	for w := 0; w < workers; w++ {
		wg.Add(1)
		go func() {
			defer wg.Done()
			var p *sut.Proc
			defer func() {
				if p != nil {
					p.Kill()
				}
			}()
			for cfg := range jobs {
				if p == nil || !p.Alive() {
					var err error
					p, err = ws.StartLab(bin, opts)
					if err != nil {
						mu.Lock()
						res.StartErr = err
						mu.Unlock()
						once.Do(func() { close(stop) })
						continue
					}
					mu.Lock()
					res.SUTRestarts++
					mu.Unlock()
				}
				r := NewRunner(p, cfg)
				r.Run()
				mu.Lock()
				res.Histories++
				res.Stats.Merge(r.Stats)
				head := r.Hist
				if len(head) > 14 {
					head = head[:14]
				}
				res.PerHistory = append(res.PerHistory, HistorySummary{cfg, r.Stats, r.Fail != nil, append([]string(nil), head...)})
				if r.Inconclusive != "" {
					res.Inconclusive = append(res.Inconclusive, cfg.String()+": "+r.Inconclusive)
				}
				if r.Fail != nil {
					res.Failures = append(res.Failures, r.Fail)
					if stopOnFail {
						once.Do(func() { close(stop) })
					}
				}
				mu.Unlock()
				if r.Fail != nil || r.Inconclusive != "" {
					// do not reuse a process whose state the model no longer follows
					p.Kill()
					p = nil
				}
			}
		}()
	}
feed:
	for _, c := range cfgs {
		select {
		case jobs <- c:
		case <-stop:
			break feed
		}
	}
	close(jobs)
	wg.Wait()
	_ = time.Now
	return res
}
