package e1

import (
	"fmt"

	d "verif/internal/driver"
	"verif/internal/model"
	"verif/internal/sut"
)

// DepartureScript is a directed history for the flag differential: every
// message class a flag can suppress occurs, and so does every piece of
// bookkeeping a departure must do whatever flags the leaver carries - the sole
// subscriber of a component type leaves (closing, and by switching session)
// and components of that type are added and deleted afterwards in front of a
// bystander; owners of entities with attachments leave; a newcomer is handed
// the state. Type ids, entity ids and session references are the ones a fresh
// server issues for this sequence.
func DepartureScript(variant int) []Action {
	var out []Action
	add := func(kind string, conn int, rq *model.Req) {
		if rq != nil {
			rq.Kind = kind
			rq.Tag = d.NewTag()
		}
		out = append(out, Action{Kind: kind, Conn: conn, Req: rq, Step: len(out)})
	}
	ref := [2]int{0, 0}
	join := func(conn int, create bool) {
		rq := &model.Req{Kind: "join", Tag: d.NewTag()}
		a := Action{Kind: "join", Conn: conn, Req: rq, Step: len(out)}
		if !create {
			r := ref
			a.JoinRef = &r
			rq.SID = "?" // replaced by the session the reference names
		}
		out = append(out, a)
	}
	pose := func(x float32) *model.Pose { return &model.Pose{x, 1, 2, 0, 0, 0, 1} }
	for c := 1; c <= 3; c++ {
		add("open", c, nil)
	}
	join(1, true)
	join(2, false)
	join(3, false)
	add("type_add", 1, &model.Req{Name: "flag-T"})                  // type 1
	add("type_add", 1, &model.Req{Name: "flag-U"})                  // type 2
	add("entity_add", 1, &model.Req{Persist: true, Pose: pose(1)})  // entity 1
	add("entity_add", 1, &model.Req{Persist: false, Pose: pose(2)}) // entity 2
	add("entity_add", 2, &model.Req{Persist: false, Pose: pose(3)}) // entity 3
	add("sub", 2, &model.Req{TypeID: 1})
	add("sub", 2, &model.Req{TypeID: 2})
	add("sub", 3, &model.Req{TypeID: 2})
	add("comp_add", 1, &model.Req{TypeID: 1, Entity: 1, Data: []byte("t-e1")})
	add("comp_upd", 1, &model.Req{TypeID: 1, Entity: 1, Data: []byte("t-e1-b")})
	add("comp_add", 2, &model.Req{TypeID: 2, Entity: 3, Data: []byte("u-e3")})
	add("pose", 1, &model.Req{Entity: 1, Pose: pose(11)})
	add("custom", 1, &model.Req{Data: []byte("flag-script-custom")})
	if variant&4 != 0 {
		// redundant bookkeeping requests before the departure: an unsubscribe of a
		// type it is subscribed to, the same once more, one of a type it never
		// subscribed to and one of a type that does not exist - it remains the
		// sole subscriber of type 1
		add("unsub", 2, &model.Req{TypeID: 2})
		add("unsub", 2, &model.Req{TypeID: 2})
		add("sub", 2, &model.Req{TypeID: 1})
		add("unsub", 2, &model.Req{TypeID: 77})
		add("get_name", 2, &model.Req{TypeID: 1})
	}
	// the sole subscriber of type 1 leaves
	if variant%2 == 0 {
		add("close", 2, &model.Req{How: []string{"fin", "rst"}[(variant/2)%2]})
	} else {
		join(2, true) // by switching to a session of its own
	}
	add("comp_add", 1, &model.Req{TypeID: 1, Entity: 2, Data: []byte("t-e2")})
	add("comp_del", 1, &model.Req{TypeID: 1, Entity: 1})
	add("comp_add", 1, &model.Req{TypeID: 2, Entity: 2, Data: []byte("u-e2")})
	add("comp_upd", 1, &model.Req{TypeID: 2, Entity: 2, Data: []byte("u-e2-b")})
	add("comp_del", 1, &model.Req{TypeID: 2, Entity: 2})
	// a newcomer: handed the state; becomes the sole subscriber of type 1, and leaves again
	add("open", 4, nil)
	join(4, false)
	add("sub", 4, &model.Req{TypeID: 1})
	add("comp_upd", 1, &model.Req{TypeID: 1, Entity: 2, Data: []byte("t-e2-b")})
	add("entity_add", 4, &model.Req{Persist: false, Pose: pose(4)})
	add("comp_add", 4, &model.Req{TypeID: 1, Entity: 1, Data: []byte("t-e1-again")})
	add("close", 4, &model.Req{How: "fin"})
	add("comp_del", 1, &model.Req{TypeID: 1, Entity: 2})
	add("comp_add", 3, &model.Req{TypeID: 1, Entity: 2, Data: []byte("t-e2-by-3")})
	add("entity_del", 1, &model.Req{Entity: 2})
	add("close", 3, &model.Req{How: "fin"})
	add("comp_add", 1, &model.Req{TypeID: 2, Entity: 1, Data: []byte("u-e1-alone")})
	add("close", 1, &model.Req{How: "fin"})
	return out
}

// FlagDiffScript is FlagDiff over a given script instead of a generated history.
func FlagDiffScript(ws *sut.Workspace, bin string, opts sut.LabOpts, cfg Config, flags []string, script []Action) *DiffResult {
	res := &DiffResult{}
	cfg.Record = true
	cfg.Flags = nil
	r1, p1, err := startRun(ws, bin, opts, cfg, script)
	if err != nil {
		res.Inconclusive = err.Error()
		return res
	}
	defer p1.Kill()
	res.Stats = r1.Stats
	res.Head = r1.Hist
	if r1.Fail != nil || r1.Inconclusive != "" {
		res.Fail, res.Inconclusive = r1.Fail, r1.Inconclusive
		return res
	}
	cfg2 := cfg
	cfg2.Flags = flags
	r2, p2, err := startRun(ws, bin, opts, cfg2, r1.Actions)
	if err != nil {
		res.Inconclusive = err.Error()
		return res
	}
	defer p2.Kill()
	if r2.Fail != nil {
		res.Fail = r2.Fail
		res.Fail.Detail = fmt.Sprintf("under flags %v: ", flags) + res.Fail.Detail
		return res
	}
	if r2.Inconclusive != "" {
		res.Inconclusive = r2.Inconclusive
		return res
	}
	res.Stats.Merge(r2.Stats)
	compareFlagRuns(res, r1, r2, flags)
	return res
}

// RunScript executes a script on a fresh lab SUT, judged by the reference model.
func RunScript(ws *sut.Workspace, bin string, opts sut.LabOpts, cfg Config, script []Action) (*Runner, error) {
	r, p, err := startRun(ws, bin, opts, cfg, script)
	if err != nil {
		return nil, err
	}
	p.Kill()
	return r, nil
}

// IDScript is a directed history about server-issued ids across session
// switches: participants that own nothing (or something) switch from a session
// with k asset instances to a fresh one and allocate there next to
// connections that joined it directly; entities are deleted and added again;
// type names are registered in both sessions. Every id the server issues is
// judged by the model (unique per session and id space, never reissued).
func IDScript(variant int) []Action {
	var out []Action
	add := func(kind string, conn int, rq *model.Req) {
		if rq != nil {
			rq.Kind = kind
			rq.Tag = d.NewTag()
		}
		out = append(out, Action{Kind: kind, Conn: conn, Req: rq, Step: len(out)})
	}
	join := func(conn int, ref *[2]int) {
		rq := &model.Req{Kind: "join", Tag: d.NewTag()}
		a := Action{Kind: "join", Conn: conn, Req: rq, Step: len(out)}
		if ref != nil {
			r := *ref
			a.JoinRef = &r
			rq.SID = "?"
		}
		out = append(out, a)
	}
	pose := func(x float32) *model.Pose { return &model.Pose{x, 0, 0, 0, 0, 0, 1} }
	A, B := [2]int{0, 0}, [2]int{0, 1}
	k := variant % 3 // asset instances session A holds when its members switch
	for c := 1; c <= 3; c++ {
		add("open", c, nil)
	}
	join(1, nil)
	join(2, &A)
	join(3, &A)
	add("type_add", 1, &model.Req{Name: "id-T"})
	for i := 0; i < k; i++ {
		add("entity_add", 1, &model.Req{Persist: true, Pose: pose(float32(i))}) // entities 1..k of A
		add("asset_add", 1, &model.Req{Entity: uint32(i + 1), Name: fmt.Sprintf("a-%d", i)})
	}
	if variant&4 != 0 {
		// the switching member owns an entity (with an asset) in A
		add("entity_add", 2, &model.Req{Persist: false, Pose: pose(9)})
		add("asset_add", 2, &model.Req{Entity: uint32(k + 1), Name: "c2-in-A"})
	}
	join(2, nil) // creates B, owning nothing there
	join(3, &B)  // follows, owning nothing
	add("open", 4, nil)
	join(4, &B) // joined B directly
	add("type_add", 4, &model.Req{Name: "id-U"})
	add("type_add", 2, &model.Req{Name: "id-T"})
	// allocations in B by the switched and the direct members, interleaved
	ent := uint32(0)
	for round := 0; round < k+2; round++ {
		for _, c := range []int{2, 4, 3} {
			ent++
			add("entity_add", c, &model.Req{Persist: round%2 == 0, Pose: pose(float32(ent))})
			add("asset_add", c, &model.Req{Entity: ent, Name: fmt.Sprintf("b-%d", ent)})
		}
	}
	// release and allocate again
	add("entity_del", 2, &model.Req{Entity: 1})
	add("entity_add", 2, &model.Req{Persist: false, Pose: pose(50)})
	add("entity_add", 4, &model.Req{Persist: false, Pose: pose(51)})
	// back to A (still alive through connection 1), and allocate there
	join(3, &A)
	add("entity_add", 3, &model.Req{Persist: false, Pose: pose(60)})
	add("asset_add", 3, &model.Req{Entity: uint32(k + 1), Name: "c3-back-in-A"})
	add("entity_add", 1, &model.Req{Persist: false, Pose: pose(61)})
	add("asset_add", 1, &model.Req{Entity: uint32(k + 2), Name: "c1-more"})
	add("close", 2, &model.Req{How: "fin"})
	add("close", 4, &model.Req{How: "fin"})
	add("close", 3, &model.Req{How: "fin"})
	add("close", 1, &model.Req{How: "fin"})
	return out
}
