package e1

import (
	"fmt"

	d "verif/internal/driver"
	"verif/internal/model"
	"verif/internal/sut"
)

// DepartureScript is a directed history for the flag differential: every
// message class a flag can suppress occurs, and so does every piece of
// bookkeeping a departure must do whatever flags the leaver carries - the sole
// subscriber of a component type leaves (closing, and by switching session)
// and components of that type are added and deleted afterwards in front of a
// bystander; owners of entities with attachments leave; a newcomer is handed
// the state. Type ids, entity ids and session references are the ones a fresh
// server issues for this sequence.
func DepartureScript(variant int) []Action {
	var out []Action
	add := func(kind string, conn int, rq *model.Req) {
		if rq != nil {
			rq.Kind = kind
			rq.Tag = d.NewTag()
		}
		out = append(out, Action{Kind: kind, Conn: conn, Req: rq, Step: len(out)})
	}
	ref := [2]int{0, 0}
	join := func(conn int, create bool) {
		rq := &model.Req{Kind: "join", Tag: d.NewTag()}
		a := Action{Kind: "join", Conn: conn, Req: rq, Step: len(out)}
		if !create {
			r := ref
			a.JoinRef = &r
			rq.SID = "?" // replaced by the session the reference names
		}
		out = append(out, a)
	}
	pose := func(x float32) *model.Pose { return &model.Pose{x, 1, 2, 0, 0, 0, 1} }
	for c := 1; c <= 3; c++ {
		add("open", c, nil)
	}
	join(1, true)
	join(2, false)
	join(3, false)
	add("type_add", 1, &model.Req{Name: "flag-T"})                  // type 1
	add("type_add", 1, &model.Req{Name: "flag-U"})                  // type 2
	add("entity_add", 1, &model.Req{Persist: true, Pose: pose(1)})  // entity 1
	add("entity_add", 1, &model.Req{Persist: false, Pose: pose(2)}) // entity 2
	add("entity_add", 2, &model.Req{Persist: false, Pose: pose(3)}) // entity 3
	add("sub", 2, &model.Req{TypeID: 1})
	add("sub", 2, &model.Req{TypeID: 2})
	add("sub", 3, &model.Req{TypeID: 2})
	add("comp_add", 1, &model.Req{TypeID: 1, Entity: 1, Data: []byte("t-e1")})
	add("comp_upd", 1, &model.Req{TypeID: 1, Entity: 1, Data: []byte("t-e1-b")})
	add("comp_add", 2, &model.Req{TypeID: 2, Entity: 3, Data: []byte("u-e3")})
	add("pose", 1, &model.Req{Entity: 1, Pose: pose(11)})
	add("custom", 1, &model.Req{Data: []byte("flag-script-custom")})
	// the sole subscriber of type 1 leaves
	if variant%2 == 0 {
		add("close", 2, &model.Req{How: []string{"fin", "rst"}[(variant/2)%2]})
	} else {
		join(2, true) // by switching to a session of its own
	}
	add("comp_add", 1, &model.Req{TypeID: 1, Entity: 2, Data: []byte("t-e2")})
	add("comp_del", 1, &model.Req{TypeID: 1, Entity: 1})
	add("comp_add", 1, &model.Req{TypeID: 2, Entity: 2, Data: []byte("u-e2")})
	add("comp_upd", 1, &model.Req{TypeID: 2, Entity: 2, Data: []byte("u-e2-b")})
	add("comp_del", 1, &model.Req{TypeID: 2, Entity: 2})
	// a newcomer: handed the state; becomes the sole subscriber of type 1, and leaves again
	add("open", 4, nil)
	join(4, false)
	add("sub", 4, &model.Req{TypeID: 1})
	add("comp_upd", 1, &model.Req{TypeID: 1, Entity: 2, Data: []byte("t-e2-b")})
	add("entity_add", 4, &model.Req{Persist: false, Pose: pose(4)})
	add("comp_add", 4, &model.Req{TypeID: 1, Entity: 1, Data: []byte("t-e1-again")})
	add("close", 4, &model.Req{How: "fin"})
	add("comp_del", 1, &model.Req{TypeID: 1, Entity: 2})
	add("comp_add", 3, &model.Req{TypeID: 1, Entity: 2, Data: []byte("t-e2-by-3")})
	add("entity_del", 1, &model.Req{Entity: 2})
	add("close", 3, &model.Req{How: "fin"})
	add("comp_add", 1, &model.Req{TypeID: 2, Entity: 1, Data: []byte("u-e1-alone")})
	add("close", 1, &model.Req{How: "fin"})
	return out
}

// FlagDiffScript is FlagDiff over a given script instead of a generated history.
func FlagDiffScript(ws *sut.Workspace, bin string, opts sut.LabOpts, cfg Config, flags []string, script []Action) *DiffResult {
	res := &DiffResult{}
	cfg.Record = true
	cfg.Flags = nil
	r1, p1, err := startRun(ws, bin, opts, cfg, script)
	if err != nil {
		res.Inconclusive = err.Error()
		return res
	}
	defer p1.Kill()
	res.Stats = r1.Stats
	res.Head = r1.Hist
	if r1.Fail != nil || r1.Inconclusive != "" {
		res.Fail, res.Inconclusive = r1.Fail, r1.Inconclusive
		return res
	}
	cfg2 := cfg
	cfg2.Flags = flags
	r2, p2, err := startRun(ws, bin, opts, cfg2, r1.Actions)
	if err != nil {
		res.Inconclusive = err.Error()
		return res
	}
	defer p2.Kill()
	if r2.Fail != nil {
		res.Fail = r2.Fail
		res.Fail.Detail = fmt.Sprintf("under flags %v: ", flags) + res.Fail.Detail
		return res
	}
	if r2.Inconclusive != "" {
		res.Inconclusive = r2.Inconclusive
		return res
	}
	res.Stats.Merge(r2.Stats)
	compareFlagRuns(res, r1, r2, flags)
	return res
}
