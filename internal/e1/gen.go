// Package e1 is the sequential-history engine: directed random histories of
// requests over a few connections and sessions, one outstanding request at a
// time with a session barrier after each, judged by the reference model, the
// replicated-view fold and probes.
package e1

import (
	"fmt"
	"math"
	"math/rand"
	"sort"
	"strings"

	"google.golang.org/protobuf/types/known/timestamppb"

	d "verif/internal/driver"
	"verif/internal/model"
)

// Profile weights request kinds; unspecified kinds get weight 1.
type Profile map[string]float64

var Profiles = map[string]Profile{
	"mixed":     {},
	"view":      {"entity_add": 3, "pose": 3, "comp_add": 3, "comp_upd": 3, "comp_del": 2, "sub": 3, "action": 3, "asset_add": 3, "join": 2, "close": 1.5, "entity_del": 2},
	"relay":     {"entity_add": 3, "entity_del": 2, "pose": 3, "custom": 4, "action": 2, "asset_add": 2, "join": 2, "close": 1.5},
	"isolation": {"join": 4, "close": 2, "entity_add": 2, "custom": 2, "pose": 2, "comp_add": 2, "open": 2, "dz_quad": 2, "dz_info": 1, "dz_region": 1},
	"dagaz":     {"dz_quad": 5, "dz_info": 2.5, "dz_region": 2.5, "join": 5, "open": 2, "close": 1.5, "entity_add": 1},
	"refusal": {"entity_del": 2, "comp_add": 2, "comp_del": 2, "get_name": 2, "get_id": 2, "sub": 2, "unsub": 1.5, "comp_list": 1.5, "type_add": 2,
		"signed_latency": 2, "pong": 1.5, "receipt": 1.5, "action": 2, "asset_add": 2, "join": 2, "custom": 1.5},
	"owner":     {"entity_add": 4, "entity_del": 4, "pose": 4, "asset_add": 4, "join": 2, "close": 2},
	"departure": {"entity_add": 5, "comp_add": 3, "sub": 2, "action": 3, "asset_add": 3, "close": 4, "join": 4, "type_add": 2},
	"registry":  {"join": 8, "close": 4, "open": 4, "entity_add": 0.5},
	"ids":       {"join": 4, "close": 2, "entity_add": 5, "entity_del": 3, "type_add": 4, "asset_add": 4, "open": 2},
	"pose":      {"pose": 10, "entity_add": 3, "entity_del": 2, "join": 1.5, "close": 1},
	"component": {"type_add": 3, "comp_add": 5, "comp_upd": 5, "comp_del": 4, "comp_list": 3, "entity_add": 3, "entity_del": 2, "get_name": 1.5, "get_id": 1.5, "sub": 2, "close": 1.5},
	"subscribe": {"type_add": 2, "sub": 5, "unsub": 3, "comp_add": 5, "comp_upd": 5, "comp_del": 4, "entity_add": 3, "join": 3, "close": 0.7, "open": 3},
	"custom":    {"custom": 12, "join": 2, "close": 1},
	"module":    {"action": 8, "asset_add": 8, "entity_add": 4, "entity_del": 3, "join": 2, "close": 2},
}

var kinds = []string{"open", "close", "join", "entity_add", "entity_del", "pose", "custom", "type_add", "get_name", "get_id",
	"comp_add", "comp_del", "comp_upd", "comp_list", "sub", "unsub", "pong", "signed_latency", "receipt", "action", "asset_add", "ping",
	"dz_quad", "dz_info", "dz_region"} // dagaz kinds have no base weight: only profiles that name them issue them

var baseWeight = map[string]float64{"open": 0.8, "close": 0.5, "join": 1.5, "entity_add": 2, "entity_del": 1, "pose": 1.5, "custom": 1,
	"type_add": 1, "get_name": 0.5, "get_id": 0.5, "comp_add": 1.5, "comp_del": 1, "comp_upd": 1.5, "comp_list": 0.7, "sub": 1, "unsub": 0.6,
	"pong": 0.3, "signed_latency": 0.3, "receipt": 0.3, "action": 1, "asset_add": 1, "ping": 0.2}

// Gen generates the next step from the model state.
type Gen struct {
	R        *rand.Rand
	M        *model.Model
	Prof     Profile
	MaxConns int
	MaxSess  int
	Mods     string
	Counts   map[string]int
	// pools of ids that existed
	deadSIDs []string
	deadEnts map[string][]uint32 // by session uuid
	counter  int
	nextConn int
	// Avoid lists known-finding triggers the generic histories must not hit
	// (each has its own deterministic reproducer); keys are trigger names.
	Avoid map[string]bool
	// Groups > 0: connections are partitioned (conn id modulo Groups) and a
	// connection only ever names sessions created by its own group
	// (noninterference runs).
	Groups     int
	NoDeadSIDs bool
	created    map[string][2]int
	sentComp   map[int]map[model.CompKey][]byte // last component payload each connection sent per key
	nCreated   map[int]int
}

// NoteCreated records that a connection of group g created session sid.
func (g *Gen) NoteCreated(sid string, group int) [2]int {
	if g.created == nil {
		g.created, g.nCreated = map[string][2]int{}, map[int]int{}
	}
	ref := [2]int{group, g.nCreated[group]}
	g.nCreated[group]++
	g.created[sid] = ref
	return ref
}

func (g *Gen) Group(conn int) int {
	if g.Groups <= 0 {
		return 0
	}
	return conn % g.Groups
}

func NewGen(seed int64, m *model.Model, prof Profile, maxConns, maxSess int, mods string) *Gen {
	return &Gen{R: rand.New(rand.NewSource(seed)), M: m, Prof: prof, MaxConns: maxConns, MaxSess: maxSess, Mods: mods,
		Counts: map[string]int{}, deadEnts: map[string][]uint32{}, Avoid: map[string]bool{}}
}

// Action is one step of a history.
type Action struct {
	Kind string // "open", "close", or a request kind
	Conn int
	Req  *model.Req
	Step int
	// JoinRef names the target of a join symbolically: the idx-th session
	// created by a connection of the given group (nil = literal session id).
	JoinRef *[2]int
	NoFlags bool // open: a flag-free connection (probes)
}

func (g *Gen) liveConns() []*model.Conn {
	var out []*model.Conn
	for _, c := range g.M.Conns {
		if !c.Dead {
			out = append(out, c)
		}
	}
	sort.Slice(out, func(i, j int) bool { return out[i].ID < out[j].ID })
	return out
}

func (g *Gen) pick(ws map[string]float64) string {
	total := 0.0
	keys := make([]string, 0, len(ws))
	for k := range ws {
		keys = append(keys, k)
	}
	sort.Strings(keys)
	for _, k := range keys {
		total += ws[k]
	}
	x := g.R.Float64() * total
	for _, k := range keys {
		x -= ws[k]
		if x <= 0 {
			return k
		}
	}
	return keys[len(keys)-1]
}

func (g *Gen) NoteEntityGone(uuid string, e uint32) { g.deadEnts[uuid] = append(g.deadEnts[uuid], e) }
func (g *Gen) NoteSessionGone(sid string)           { g.deadSIDs = append(g.deadSIDs, sid) }

// Next returns the next action.
func (g *Gen) Next() Action {
	live := g.liveConns()
	ws := map[string]float64{}
	for _, k := range kinds {
		w := baseWeight[k]
		if p, ok := g.Prof[k]; ok {
			if w == 0 {
				w = p
			} else {
				w *= p
			}
		}
		// quota pressure: kinds issued less often get more weight
		w /= 1 + 0.15*float64(g.Counts[k])
		ws[k] = w
	}
	if len(live) >= g.MaxConns {
		delete(ws, "open")
	}
	if len(live) == 0 {
		ws = map[string]float64{"open": 1}
	}
	if len(live) < 2 {
		ws["open"] = 5
		delete(ws, "close")
	}
	if !hasMod(g.Mods, 'v') {
		ws["action"] *= 0.2
	}
	if !hasMod(g.Mods, 'o') {
		ws["asset_add"] *= 0.2
	}
	kind := g.pick(ws)
	g.Counts[kind]++
	if kind == "open" {
		g.nextConn++
		return Action{Kind: "open", Conn: g.nextConn}
	}
	c := live[g.R.Intn(len(live))]
	// unjoined connections mostly join; sometimes they try something else
	if c.Sess == nil && kind != "join" && kind != "close" && kind != "ping" && kind != "receipt" && g.R.Float64() < 0.85 {
		g.Counts[kind]--
		kind = "join"
		g.Counts[kind]++
	}
	if c.Sess == nil && (kind == "pose" || kind == "comp_upd") && g.Avoid["deferred-update-crosses-session-boundary"] {
		g.Counts[kind]--
		kind = "join"
		g.Counts[kind]++
	}
	if kind == "close" {
		hows := []string{"fin", "rst", "halfclose"}
		return Action{Kind: "close", Conn: c.ID, Req: &model.Req{Kind: "close", How: hows[g.R.Intn(len(hows))]}}
	}
	r := &model.Req{Kind: kind, Tag: d.NewTag()}
	g.counter++
	s := c.Sess
	switch kind {
	case "join":
		r.SID = g.pickSID(c)
		if ref, ok := g.created[r.SID]; ok {
			rr := ref
			return Action{Kind: kind, Conn: c.ID, Req: r, JoinRef: &rr}
		}
	case "entity_add":
		r.Persist = g.R.Intn(3) == 0
		r.Flag = int32(g.R.Intn(2))
		if g.R.Intn(5) != 0 {
			p := g.pose()
			r.Pose = &p
		}
	case "entity_del":
		r.Entity = g.pickEntity(c, 0.45)
	case "pose":
		r.Entity = g.pickEntity(c, 0.7)
		p := g.pose()
		// values a streaming client really sends: the pose the entity already
		// has, one a hair away from it, the origin, and very large ones
		if c.Sess != nil {
			if e, ok := c.Sess.Entities[r.Entity]; ok {
				switch g.R.Intn(12) {
				case 0, 1:
					p = e.Pose
				case 2:
					p = e.Pose
					p[g.R.Intn(3)] += 2e-5
				case 3:
					p = e.Pose
					p[3+g.R.Intn(4)] += 1e-6
				case 4:
					p = model.Pose{}
				case 5:
					p = model.Pose{3e38, -3e38, 1e-38, 1, -1, 0.5, 0}
				}
			}
		}
		r.Pose = &p
	case "custom":
		r.Data = g.body()
		r.Recipients = g.recipients(c)
	case "type_add":
		r.Name = g.typeName()
	case "get_id":
		r.Name = g.typeName()
	case "get_name", "comp_list", "sub", "unsub":
		r.TypeID = g.pickType(s)
	case "comp_add", "comp_del", "comp_upd":
		r.TypeID = g.pickType(s)
		r.Entity = g.pickEntity(c, 0.5)
		if s != nil && g.R.Intn(3) != 0 {
			// aim at existing components for delete/update, at free keys for add
			var keys []model.CompKey
			for k := range s.Comps {
				keys = append(keys, k)
			}
			sort.Slice(keys, func(i, j int) bool {
				return keys[i].Type < keys[j].Type || keys[i].Type == keys[j].Type && keys[i].Entity < keys[j].Entity
			})
			if len(keys) > 0 && (kind != "comp_add" || g.R.Intn(4) == 0) {
				k := keys[g.R.Intn(len(keys))]
				r.TypeID, r.Entity = k.Type, k.Entity
			}
		}
		if s != nil && kind == "comp_add" && g.R.Intn(10) < 6 && len(s.TypeNames) > 0 && len(s.Entities) > 0 {
			// a registered type and an existing entity (of anyone)
			var ts, es []uint32
			for t := range s.TypeNames {
				ts = append(ts, t)
			}
			for e := range s.Entities {
				es = append(es, e)
			}
			sort.Slice(ts, func(i, j int) bool { return ts[i] < ts[j] })
			sort.Slice(es, func(i, j int) bool { return es[i] < es[j] })
			r.TypeID, r.Entity = ts[g.R.Intn(len(ts))], es[g.R.Intn(len(es))]
		}
		r.Data = []byte(fmt.Sprintf("c%d-%d", c.ID, g.counter))
		// payloads a client really repeats: what it sent for this key last time
		// (whoever wrote in between), what the component holds now, nothing
		key := model.CompKey{Type: r.TypeID, Entity: r.Entity}
		if g.sentComp == nil {
			g.sentComp = map[int]map[model.CompKey][]byte{}
		}
		if g.sentComp[c.ID] == nil {
			g.sentComp[c.ID] = map[model.CompKey][]byte{}
		}
		if kind != "comp_del" {
			switch g.R.Intn(10) {
			case 0, 1:
				if prev, ok := g.sentComp[c.ID][key]; ok {
					r.Data = append([]byte(nil), prev...)
				}
			case 2:
				if s != nil {
					if cur, ok := s.Comps[key]; ok {
						r.Data = append([]byte(nil), cur...)
					}
				}
			case 3:
				r.Data = nil
			}
			g.sentComp[c.ID][key] = r.Data
		}
	case "pong":
		r.ID = uint32(g.R.Intn(1 << 30))
	case "signed_latency":
		counts := []uint32{0, 1, 2, 51, 60, math.MaxUint32, 1 << 31}
		r.Count = counts[g.R.Intn(len(counts))]
		r.Wallet = "0xwallet"
		if g.R.Intn(3) == 0 {
			r.Count = 3 + uint32(g.R.Intn(48))
			r.Wallet = ""
		}
	case "receipt":
		r.Receipt, r.Hash, r.Sig = fmt.Sprintf("receipt-%d", g.counter), []byte{1, 2, 3}, []byte{4, 5, 6}
		if !g.Avoid["receipt-refusal"] {
			switch g.R.Intn(6) {
			case 0:
				r.Receipt = ""
			case 1:
				r.Hash = nil
			case 2:
				r.Sig = nil
			}
		}
	case "action":
		r.Entity = g.pickEntity(c, 0.75)
		names := []string{"a", "b", "a", "b", ""}
		r.Name = names[g.R.Intn(len(names))]
		if s != nil && len(s.Actions) > 0 && g.R.Intn(2) == 0 {
			// aim at an (entity, name) that already carries an action, so that the
			// equal / older / newer timestamp cases occur
			var keys []model.ActKey
			for k := range s.Actions {
				keys = append(keys, k)
			}
			sort.Slice(keys, func(i, j int) bool {
				return keys[i].Entity < keys[j].Entity || keys[i].Entity == keys[j].Entity && keys[i].Name < keys[j].Name
			})
			k := keys[g.R.Intn(len(keys))]
			r.Entity, r.Name = k.Entity, k.Name
		}
		r.Data = []byte(fmt.Sprintf("act-c%d-%d", c.ID, g.counter))
		r.ActTS = g.actionTS(s, r.Entity, r.Name)
		if g.R.Intn(15) == 0 {
			r.ActNil = true
		}
	case "dz_quad":
		// 1-3 unit quads on a 3 m lattice (never overlapping, so never merged),
		// the k-th sample of a session at a position determined by k; negative
		// coordinates make the grid grow in every direction
		n := 0
		if s != nil {
			n = len(s.Planes)
		}
		for i := 0; i < 1+g.R.Intn(3) && n < 60; i++ {
			r.Quads = append(r.Quads, [6]float32{float32(3*(n%8) - 9), 0, float32(3*(n/8) - 9), 1, 0, 1})
			n++
		}
		// a sample the server refuses (not finite, negative extents) in the same
		// message, before or between the others: it is skipped, the others count
		if g.R.Intn(4) == 0 && len(r.Quads) > 0 {
			nan := float32(math.NaN())
			bad := [][6]float32{{nan, 0, 0, 1, 0, 1}, {0, 0, float32(math.Inf(1)), 1, 0, 1}, {1, 0, 1, -1, 0, 1}, {1, 0, 1, 1, 0, nan}}[g.R.Intn(4)]
			at := g.R.Intn(len(r.Quads))
			r.Quads = append(r.Quads[:at], append([][6]float32{bad}, r.Quads[at:]...)...)
		}
	case "dz_info":
	case "dz_region":
		r.Min, r.Max = [3]float32{-100, 0, -100}, [3]float32{100, 0, 100}
	case "asset_add":
		r.Entity = g.pickEntity(c, 0.6)
		if s != nil && g.R.Intn(3) == 0 {
			// an own entity that already carries an asset (replacement)
			var es []uint32
			for e, as := range s.Assets {
				if as.Participant == c.PID {
					es = append(es, e)
				}
			}
			sort.Slice(es, func(i, j int) bool { return es[i] < es[j] })
			if len(es) > 0 {
				r.Entity = es[g.R.Intn(len(es))]
			}
		}
		r.Name = fmt.Sprintf("asset-c%d-%d", c.ID, g.counter)
		if g.R.Intn(10) == 0 {
			r.Name = ""
		}
	}
	return Action{Kind: kind, Conn: c.ID, Req: r}
}

func hasMod(mods string, c byte) bool {
	for i := 0; i < len(mods); i++ {
		if mods[i] == c {
			return true
		}
	}
	return false
}

func (g *Gen) pose() model.Pose {
	g.counter++
	p := model.Pose{float32(g.counter), float32(g.R.Intn(100)) / 4, -float32(g.R.Intn(100)), 0, 0, 0, 1}
	return p
}

func (g *Gen) liveSIDs() []string {
	var out []string
	for sid := range g.M.Sessions {
		out = append(out, sid)
	}
	sort.Strings(out)
	return out
}

func (g *Gen) pickSID(c *model.Conn) string {
	live := g.liveSIDs()
	if g.Groups > 0 {
		var mine []string
		for _, sid := range live {
			if ref, ok := g.created[sid]; ok && ref[0] == g.Group(c.ID) {
				mine = append(mine, sid)
			}
		}
		canCreate := len(mine) < g.MaxSess || (c.Sess != nil && len(c.Sess.Members) == 1)
		switch x := g.R.Intn(10); {
		case x < 3 && canCreate:
			return ""
		case x < 8 && len(mine) > 0:
			return mine[g.R.Intn(len(mine))]
		case x < 9:
			return []string{"nope", "x1", "labxffffffff"}[g.R.Intn(3)]
		}
		if len(mine) > 0 {
			return mine[0]
		}
		if canCreate {
			return ""
		}
		return "nope"
	}
	canCreate := len(live) < g.MaxSess || (c.Sess != nil && len(c.Sess.Members) == 1)
	for try := 0; try < 10; try++ {
		switch x := g.R.Intn(20); {
		case x < 6:
			if canCreate {
				return ""
			}
		case x < 15:
			if len(live) > 0 {
				return live[g.R.Intn(len(live))]
			}
			if canCreate {
				return ""
			}
		case x < 16:
			if c.Sess != nil {
				return c.Sess.SID // already joined
			}
		case x < 18:
			// an id that no longer resolves
			var dead []string
			for _, sid := range g.deadSIDs {
				if _, ok := g.M.Sessions[sid]; !ok {
					dead = append(dead, sid)
				}
			}
			// (not in recorded histories: which free id a new session gets is the
			// server's choice, so a literal dead id may name a live session in the re-run)
			if len(dead) > 0 && !g.NoDeadSIDs && !(g.Avoid["refused-join-while-joined"] && c.Sess != nil) {
				return dead[g.R.Intn(len(dead))]
			}
		default:
			if !(g.Avoid["refused-join-while-joined"] && c.Sess != nil) {
				if g.R.Intn(2) == 0 {
					// a string that is not an id but looks like one of the live ones (its
					// own session's first): padded, in another case, decorated - an id
					// names a session only when it is that exact string
					base := ""
					if c.Sess != nil {
						base = c.Sess.SID
					} else if len(live) > 0 {
						base = live[g.R.Intn(len(live))]
					}
					if base != "" {
						return []string{base + " ", " " + base, base + "\n", "\t" + base, strings.ToUpper(base), base + "/", base + "\x00", "0" + base, base + "0"}[g.R.Intn(9)]
					}
				}
				return []string{"nope", "labx0", "labxffffffff", "x1", "LABX1"}[g.R.Intn(5)]
			}
		}
	}
	if len(live) > 0 {
		return live[0]
	}
	return ""
}

// pickEntity: with probability pOwn one of the connection's own entities,
// otherwise from the interesting pool (foreign, deleted, other sessions', 0, max).
func (g *Gen) pickEntity(c *model.Conn, pOwn float64) uint32 {
	s := c.Sess
	var own, foreign []uint32
	if s != nil {
		for id, e := range s.Entities {
			if e.Owner == c.PID {
				own = append(own, id)
			} else {
				foreign = append(foreign, id)
			}
		}
		sort.Slice(own, func(i, j int) bool { return own[i] < own[j] })
		sort.Slice(foreign, func(i, j int) bool { return foreign[i] < foreign[j] })
	}
	if len(own) > 0 && g.R.Float64() < pOwn {
		return own[g.R.Intn(len(own))]
	}
	for try := 0; try < 6; try++ {
		switch g.R.Intn(8) {
		case 0, 1, 2:
			if len(foreign) > 0 {
				return foreign[g.R.Intn(len(foreign))]
			}
		case 3:
			if s != nil && len(g.deadEnts[s.UUID]) > 0 {
				l := g.deadEnts[s.UUID]
				return l[g.R.Intn(len(l))]
			}
		case 4:
			// an id that exists only in another session
			for _, sid := range g.liveSIDs() {
				o := g.M.Sessions[sid]
				if o == s {
					continue
				}
				for id := range o.Entities {
					if s == nil {
						return id
					}
					if _, ok := s.Entities[id]; !ok {
						return id
					}
				}
			}
		case 5:
			return 0
		case 6:
			return math.MaxUint32
		default:
			return uint32(1000 + g.R.Intn(1000))
		}
	}
	if len(own) > 0 {
		return own[0]
	}
	return 1
}

func (g *Gen) pickType(s *model.Session) uint32 {
	var ids []uint32
	if s != nil {
		for id := range s.TypeNames {
			ids = append(ids, id)
		}
		sort.Slice(ids, func(i, j int) bool { return ids[i] < ids[j] })
	}
	if len(ids) > 0 && g.R.Intn(5) != 0 {
		return ids[g.R.Intn(len(ids))]
	}
	switch g.R.Intn(4) {
	case 0:
		return 0
	case 1:
		return math.MaxUint32
	default:
		return uint32(len(ids) + 1 + g.R.Intn(3))
	}
}

func (g *Gen) typeName() string {
	names := []string{"T-a", "T-b", "T-c", "T-a", "T-b", "", "T-" + string(make([]byte, 300))}
	return names[g.R.Intn(len(names))]
}

func (g *Gen) body() []byte {
	var n int
	switch g.R.Intn(12) {
	case 0:
		n = 0
	case 1:
		n = 10239
	case 2:
		n = 10240
	case 3:
		n = 10241
	case 4:
		n = 10242
	case 5:
		n = 40000
		if g.R.Intn(5) == 0 {
			// far above the limit, up to just below what the transport accepts (32 MiB frames)
			n = []int{70000, 1 << 20, 4<<20 + 7, 9 << 20, 20 << 20, 31 << 20}[g.R.Intn(6)]
		}
	default:
		n = 1 + g.R.Intn(64)
	}
	b := make([]byte, n)
	g.R.Read(b)
	tag := []byte(fmt.Sprintf("#%d#", g.counter))
	copy(b, tag)
	return b
}

func (g *Gen) recipients(c *model.Conn) []uint32 {
	if c.Sess == nil || g.R.Intn(3) == 0 {
		return nil
	}
	var members []uint32
	for p := range c.Sess.Members {
		members = append(members, p)
	}
	sort.Slice(members, func(i, j int) bool { return members[i] < members[j] })
	var out []uint32
	n := 1 + g.R.Intn(5)
	for i := 0; i < n; i++ {
		switch g.R.Intn(7) {
		case 0:
			out = append(out, c.PID) // the sender itself
		case 1:
			out = append(out, uint32(500+g.R.Intn(50))) // a stranger
		case 2:
			if len(out) > 0 {
				out = append(out, out[g.R.Intn(len(out))]) // a duplicate
			}
		case 3:
			// a participant that left (ids are never reissued)
			for p := range c.Sess.IssuedPIDs {
				if _, in := c.Sess.Members[p]; !in {
					out = append(out, p)
					break
				}
			}
		default:
			out = append(out, members[g.R.Intn(len(members))])
		}
	}
	return out
}

func (g *Gen) actionTS(s *model.Session, e uint32, name string) *timestamppb.Timestamp {
	base := &timestamppb.Timestamp{Seconds: 1_700_000_000 + int64(g.counter), Nanos: 500}
	if s == nil {
		return base
	}
	prev, ok := s.Actions[model.ActKey{Entity: e, Name: name}]
	// the corners of the valid Timestamp range (0001-01-01 .. 9999-12-31) and of
	// what fits into 64-bit nanoseconds (year 2262 / 1677)
	if g.R.Intn(12) == 0 {
		ext := []int64{9_223_372_036, 9_223_372_037, 20_000_000_000 + int64(g.counter), 253_402_300_799, -1, -9_223_372_037, -62_135_596_800}
		return &timestamppb.Timestamp{Seconds: ext[g.R.Intn(len(ext))], Nanos: int32(g.R.Intn(3)) * 499_999_999}
	}
	if !ok {
		switch g.R.Intn(8) {
		case 0:
			return &timestamppb.Timestamp{} // zero
		case 1:
			return nil
		case 2:
			return &timestamppb.Timestamp{Seconds: 4_000_000_000} // far future
		}
		return base
	}
	switch g.R.Intn(8) {
	case 0:
		return &timestamppb.Timestamp{Seconds: prev.Sec, Nanos: prev.Nanos} // equal
	case 1:
		if prev.Nanos > 0 {
			return &timestamppb.Timestamp{Seconds: prev.Sec, Nanos: prev.Nanos - 1}
		}
		return &timestamppb.Timestamp{Seconds: prev.Sec - 1, Nanos: 999_999_999}
	case 2:
		if prev.Nanos >= 999_999_998 {
			return &timestamppb.Timestamp{Seconds: prev.Sec + 1}
		}
		return &timestamppb.Timestamp{Seconds: prev.Sec, Nanos: prev.Nanos + 1}
	case 3:
		return &timestamppb.Timestamp{Seconds: prev.Sec - 1000}
	case 4:
		return &timestamppb.Timestamp{}
	case 5:
		return nil
	default:
		return &timestamppb.Timestamp{Seconds: prev.Sec + 1 + int64(g.R.Intn(5)), Nanos: int32(g.R.Intn(1000))}
	}
}
