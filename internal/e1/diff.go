package e1

import (
	"fmt"
	"sort"
	"strings"

	d "verif/internal/driver"
	"verif/internal/model"
	"verif/internal/sut"
)

// DiffResult is the outcome of one differential (two-run) case.
type DiffResult struct {
	Fail         *Failure
	Inconclusive string
	Stats        *Stats
	Compared     int // windows compared
	NonEmpty     int // non-empty windows compared
	Suppressed   int // events removed by the flag filter
	OtherSteps   int // steps of the other group during which the focus group's windows were checked empty
	Head         []string
}

func diffFail(props []string, clause, detail string, r *Runner) *Failure {
	h := r.Hist
	if len(h) > 60 {
		h = h[len(h)-60:]
	}
	return &Failure{Violation: model.Violation{Props: props, Clause: clause, Detail: detail}, History: h, Config: r.Cfg.String()}
}

func startRun(ws *sut.Workspace, bin string, opts sut.LabOpts, cfg Config, script []Action) (*Runner, *sut.Proc, error) {
	p, err := ws.StartLab(bin, opts)
	if err != nil {
		return nil, nil, err
	}
	r := NewRunner(p, cfg)
	r.Script = script
	r.Run()
	return r, p, nil
}

func decodeEntry(s string) string {
	name, hexs, _ := strings.Cut(s, " ")
	var raw []byte
	fmt.Sscanf(hexs, "%x", &raw)
	ev := d.Decode(raw)
	if ev.M != nil {
		return name + " " + fmt.Sprint(ev.M)
	}
	return s
}

func decodeAll(ss []string) string {
	out := make([]string, len(ss))
	for i, s := range ss {
		out[i] = decodeEntry(s)
	}
	return "[" + strings.Join(out, "; ") + "]"
}

// Noninterference runs one two-group history, then replays group 0's actions
// alone on a fresh process and compares what group 0's connections received
// (C03: the messages the members of one session receive are the same whether
// or not other sessions exist and whatever happens in them).
func Noninterference(ws *sut.Workspace, bin string, opts sut.LabOpts, cfg Config) *DiffResult {
	res := &DiffResult{}
	cfg.Groups, cfg.Record = 2, true
	r1, p1, err := startRun(ws, bin, opts, cfg, nil)
	if err != nil {
		res.Inconclusive = err.Error()
		return res
	}
	defer p1.Kill()
	res.Stats = r1.Stats
	res.Head = r1.Hist
	if len(res.Head) > 14 {
		res.Head = res.Head[:14]
	}
	if r1.Fail != nil || r1.Inconclusive != "" {
		res.Fail, res.Inconclusive = r1.Fail, r1.Inconclusive
		return res
	}
	var script []Action
	otherSteps := map[int]bool{}
	for _, a := range r1.Actions {
		if a.Conn%2 == 0 {
			script = append(script, a)
		} else {
			otherSteps[a.Step] = true
		}
	}
	cfg2 := cfg
	cfg2.Groups = 2
	r2, p2, err := startRun(ws, bin, opts, cfg2, script)
	if err != nil {
		res.Inconclusive = err.Error()
		return res
	}
	defer p2.Kill()
	if r2.Fail != nil {
		f := r2.Fail
		f.Props = append(f.Props, "C03")
		f.Detail = "in the re-run with every other session's traffic removed: " + f.Detail
		res.Fail = f
		return res
	}
	if r2.Inconclusive != "" {
		res.Inconclusive = r2.Inconclusive
		return res
	}
	for conn, byStep := range r1.Rec {
		if conn%2 != 0 {
			continue
		}
		steps := make([]int, 0, len(byStep))
		for st := range byStep {
			steps = append(steps, st)
		}
		sort.Ints(steps)
		for _, st := range steps {
			w1 := byStep[st]
			if otherSteps[st] {
				res.OtherSteps++
				if len(w1) > 0 {
					res.Fail = diffFail([]string{"C03"}, "noninterference/foreign-traffic-observed",
						fmt.Sprintf("connection %d received %s during step %d, which belongs to a connection that is never in a session with it", conn, decodeAll(w1), st), r1)
					return res
				}
				continue
			}
			w2 := r2.Rec[conn][st]
			res.Compared++
			if len(w1) > 0 {
				res.NonEmpty++
			}
			if strings.Join(w1, "|") != strings.Join(w2, "|") {
				res.Fail = diffFail([]string{"C03"}, "noninterference/streams-differ",
					fmt.Sprintf("step %d (%s): connection %d received %s with other sessions present, but %s when their traffic is removed", st, stepDesc(r1, st), conn, decodeAll(w1), decodeAll(w2)), r1)
				return res
			}
		}
	}
	return res
}

func stepDesc(r *Runner, step int) string {
	for _, a := range r.Actions {
		if a.Step == step {
			if a.Req != nil {
				return fmt.Sprintf("c%d %s", a.Conn, a.Req)
			}
			return fmt.Sprintf("c%d %s", a.Conn, a.Kind)
		}
	}
	return "?"
}

// FlagDiff runs one history without flags and replays it under the flag set:
// every connection must receive what it received without flags minus the
// message classes the flags name (C17); answers and ids are part of the
// streams, so "the same requests succeed" is compared too.
func FlagDiff(ws *sut.Workspace, bin string, opts sut.LabOpts, cfg Config, flags []string) *DiffResult {
	res := &DiffResult{}
	cfg.Record = true
	cfg.Flags = nil
	r1, p1, err := startRun(ws, bin, opts, cfg, nil)
	if err != nil {
		res.Inconclusive = err.Error()
		return res
	}
	defer p1.Kill()
	res.Stats = r1.Stats
	res.Head = r1.Hist
	if len(res.Head) > 14 {
		res.Head = res.Head[:14]
	}
	if r1.Fail != nil || r1.Inconclusive != "" {
		res.Fail, res.Inconclusive = r1.Fail, r1.Inconclusive
		return res
	}
	cfg2 := cfg
	cfg2.Flags = flags
	r2, p2, err := startRun(ws, bin, opts, cfg2, r1.Actions)
	if err != nil {
		res.Inconclusive = err.Error()
		return res
	}
	defer p2.Kill()
	if r2.Fail != nil {
		res.Fail = r2.Fail
		res.Fail.Detail = fmt.Sprintf("under flags %v: ", flags) + res.Fail.Detail
		return res
	}
	if r2.Inconclusive != "" {
		res.Inconclusive = r2.Inconclusive
		return res
	}
	res.Stats.Merge(r2.Stats)
	compareFlagRuns(res, r1, r2, flags)
	return res
}

// compareFlagRuns: every connection must receive under flags what it
// received without them minus the classes the flags name.
func compareFlagRuns(res *DiffResult, r1, r2 *Runner, flags []string) {
	suppressed := map[string]bool{}
	for _, f := range flags {
		if t, ok := FlagClass[f]; ok {
			suppressed[d.TypeName(t)] = true
		}
	}
	for conn, byStep := range r1.Rec {
		for st, w1 := range byStep {
			var want []string
			for _, e := range w1 {
				name, _, _ := strings.Cut(e, " ")
				if suppressed[name] {
					res.Suppressed++
					continue
				}
				want = append(want, e)
			}
			got := r2.Rec[conn][st]
			res.Compared++
			if len(w1) > 0 {
				res.NonEmpty++
			}
			if strings.Join(want, "|") != strings.Join(got, "|") {
				res.Fail = diffFail([]string{"C17"}, "flags/streams-differ",
					fmt.Sprintf("flags %v, step %d (%s): connection %d should receive %s (flag-free run minus the disabled classes) but received %s", flags, st, stepDesc(r1, st), conn, decodeAll(want), decodeAll(got)), r1)
				return
			}
		}
	}
	for conn, byStep := range r2.Rec {
		for st, w2 := range byStep {
			if _, ok := r1.Rec[conn][st]; !ok && len(w2) > 0 {
				res.Fail = diffFail([]string{"C17"}, "flags/streams-differ",
					fmt.Sprintf("flags %v, step %d: connection %d received %s, nothing in the flag-free run", flags, st, conn, decodeAll(w2)), r1)
				return
			}
		}
	}
}
