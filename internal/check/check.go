// Package check is the common harness of every property check: verdicts,
// replays, evidence files and the known-findings file.
package check

import (
	"bufio"
	"encoding/json"
	"fmt"
	"os"
	"path/filepath"
	"sort"
	"strings"
	"sync"
	"time"

	"verif/internal/sut"
)

// Finding is one failed oracle clause in a form all engines share.
type Finding struct {
	Props   []string       `json:"props"`
	Clause  string         `json:"clause"`
	Trigger string         `json:"trigger,omitempty"` // minimal trigger class (part of the signature)
	Detail  string         `json:"detail"`
	Engine  string         `json:"engine"`
	Config  string         `json:"config,omitempty"`
	History []string       `json:"history,omitempty"`
	Extra   string         `json:"extra,omitempty"`
	Replay  map[string]any `json:"replay,omitempty"` // what vcheck -replay needs
}

// Sig is the canonical signature: clause + minimal trigger class.
func (f *Finding) Sig() string {
	if f.Trigger == "" {
		return f.Clause
	}
	return f.Clause + "/" + f.Trigger
}

func (f *Finding) Concerns(prop string) bool {
	for _, p := range f.Props {
		if p == prop {
			return true
		}
	}
	return false
}

// Known is one line of known_findings.txt.
type Known struct {
	Prop, Sig, What string
}

// LoadKnown reads /verif/known_findings.txt. Only "finding:" lines suppress;
// "fixed:" lines suppress nothing.
func LoadKnown() []Known {
	f, err := os.Open(filepath.Join(sut.VerifDir, "known_findings.txt"))
	if err != nil {
		return nil
	}
	defer f.Close()
	var out []Known
	sc := bufio.NewScanner(f)
	for sc.Scan() {
		line := strings.TrimSpace(sc.Text())
		if !strings.HasPrefix(line, "finding:") {
			continue
		}
		rest := strings.TrimSpace(strings.TrimPrefix(line, "finding:"))
		head, what, _ := strings.Cut(rest, "::")
		k := Known{What: strings.TrimSpace(what)}
		for _, f := range strings.Fields(head) {
			if v, ok := strings.CutPrefix(f, "property="); ok {
				k.Prop = v
			}
			if v, ok := strings.CutPrefix(f, "sig="); ok {
				k.Sig = v
			}
		}
		if k.Prop != "" && k.Sig != "" {
			out = append(out, k)
		}
	}
	return out
}

// Ctx is one run of one property check.
type Ctx struct {
	Prop  string
	Tier  string
	Seed  int64
	WS    *sut.Workspace
	Start time.Time
	Level string

	mu           sync.Mutex
	violations   []*Finding
	knownHits    map[string]*Finding
	known        []Known
	other        map[string]int // failures concerning other properties only (reported, not judged here)
	Notes        []string
	Coverage     map[string]any
	Assumptions  []string
	Inconclusive []string
}

func NewCtx(prop, tier string, seed int64) (*Ctx, error) {
	ws, err := sut.NewWorkspace()
	if err != nil {
		return nil, err
	}
	return &Ctx{Prop: prop, Tier: tier, Seed: seed, WS: ws, Start: time.Now(), Level: "exploration",
		knownHits: map[string]*Finding{}, known: LoadKnown(), other: map[string]int{}, Coverage: map[string]any{}}, nil
}

func (c *Ctx) Quick() bool { return c.Tier != "thorough" }

// Pick returns q for the quick tier and t for the thorough tier.
func (c *Ctx) Pick(q, t int) int {
	if c.Quick() {
		return q
	}
	return t
}

// Report files a finding: a violation of this property, a known finding, or
// (if it only concerns other properties) a note.
func (c *Ctx) Report(f *Finding) {
	c.mu.Lock()
	defer c.mu.Unlock()
	if f.Clause == "inconclusive" {
		c.Inconclusive = append(c.Inconclusive, f.Trigger+": "+f.Detail)
		return
	}
	if !f.Concerns(c.Prop) {
		c.other[strings.Join(f.Props, ",")+" "+f.Sig()]++
		return
	}
	for _, k := range c.known {
		if k.Prop == c.Prop && k.Sig == f.Sig() {
			if _, dup := c.knownHits[k.Sig]; !dup {
				c.knownHits[k.Sig] = f
			}
			return
		}
	}
	c.violations = append(c.violations, f)
}

func (c *Ctx) Inconc(s string) {
	c.mu.Lock()
	c.Inconclusive = append(c.Inconclusive, s)
	c.mu.Unlock()
}

func (c *Ctx) Violations() int {
	c.mu.Lock()
	defer c.mu.Unlock()
	return len(c.violations)
}

func (c *Ctx) Note(format string, a ...any) {
	c.mu.Lock()
	c.Notes = append(c.Notes, fmt.Sprintf(format, a...))
	c.mu.Unlock()
}

// Finish writes evidence and replays, prints the verdict lines and returns the
// process exit code.
func (c *Ctx) Finish(evaluations, distinctNontrivial int, rule string, samples []any) int {
	defer c.WS.Close()
	wall := time.Since(c.Start).Seconds()
	outDir := sut.VerifDir
	if sh := os.Getenv("VERIF_REPO_SHADOW"); sh != "" {
		// a seeded-change trial: its evidence and replays are not the repository's
		outDir = filepath.Join(sh, "_verif_out")
	}
	os.MkdirAll(filepath.Join(outDir, "replays"), 0o755)
	os.MkdirAll(filepath.Join(outDir, "evidence"), 0o755)

	// known findings: a line per listed finding that was observed
	sigs := make([]string, 0, len(c.knownHits))
	for s := range c.knownHits {
		sigs = append(sigs, s)
	}
	sort.Strings(sigs)
	for _, s := range sigs {
		what := s
		for _, k := range c.known {
			if k.Prop == c.Prop && k.Sig == s {
				what = k.What
			}
		}
		fmt.Printf("KNOWN-FINDING: property=%s %s [sig=%s]\n", c.Prop, what, s)
	}
	// listed findings that were not observed in this run
	for _, k := range c.known {
		if k.Prop == c.Prop {
			if _, hit := c.knownHits[k.Sig]; !hit {
				fmt.Printf("note: listed finding sig=%s was not reproduced in this run\n", k.Sig)
			}
		}
	}

	bySig := map[string]bool{}
	n := 0
	for _, f := range c.violations {
		if bySig[f.Sig()] && n >= 3 {
			continue
		}
		bySig[f.Sig()] = true
		n++
		path := filepath.Join(outDir, "replays", fmt.Sprintf("%s-%d-%d.json", c.Prop, c.Seed, n))
		b, _ := json.MarshalIndent(map[string]any{"property": c.Prop, "tier": c.Tier, "seed": c.Seed, "signature": f.Sig(), "finding": f}, "", " ")
		os.WriteFile(path, b, 0o644)
		fmt.Printf("VIOLATION property=%s replay=%s\n", c.Prop, path)
		fmt.Printf("  signature: %s\n  %s\n", f.Sig(), truncate(f.Detail, 1500))
		if n >= 5 {
			break
		}
	}
	if len(c.other) > 0 {
		keys := make([]string, 0, len(c.other))
		for k := range c.other {
			keys = append(keys, k)
		}
		sort.Strings(keys)
		for _, k := range keys {
			fmt.Printf("note: %d failure(s) concerning other properties only: %s\n", c.other[k], k)
		}
	}
	for _, s := range c.Inconclusive {
		fmt.Printf("inconclusive: %s\n", truncate(s, 400))
	}
	for _, s := range c.Notes {
		fmt.Println("note:", s)
	}

	cov := c.Coverage
	cov["evaluations"] = evaluations
	cov["distinct_nontrivial"] = distinctNontrivial
	cov["rule"] = rule
	if len(samples) == 0 {
		samples = []any{"(no sample recorded)"}
	}
	cov["samples"] = samples
	cov["inconclusive"] = len(c.Inconclusive)
	cov["known_findings_observed"] = sigs
	if c.WS.Overlay != nil {
		cov["instrumented_files"] = c.WS.Overlay.Files
		cov["injected_sites"] = len(c.WS.Overlay.Sites)
		cov["uninstrumented_files"] = c.WS.Overlay.Uninstrumented
	}
	ev := map[string]any{
		"property_id": c.Prop, "tier": c.Tier, "seed": c.Seed, "level": c.Level,
		"coverage": cov, "wall_s": wall, "violations": len(c.violations),
		"assumptions": append([]string{"verdict reads: held on the executions that were observed; nothing is proved"}, c.Assumptions...),
	}
	b, _ := json.MarshalIndent(ev, "", " ")
	os.WriteFile(filepath.Join(outDir, "evidence", c.Prop+".json"), b, 0o644)

	fmt.Printf("%s tier=%s seed=%d: evaluations=%d distinct_nontrivial=%d violations=%d known=%d inconclusive=%d wall=%.1fs\n",
		c.Prop, c.Tier, c.Seed, evaluations, distinctNontrivial, len(c.violations), len(sigs), len(c.Inconclusive), wall)
	if len(c.violations) > 0 {
		return 1
	}
	if distinctNontrivial < 2 || evaluations < 1 {
		fmt.Printf("HARNESS-ERROR property=%s the run observed too little to support a verdict (evaluations=%d, nontrivial=%d)\n", c.Prop, evaluations, distinctNontrivial)
		return 2
	}
	return 0
}

func truncate(s string, n int) string {
	if len(s) > n {
		return s[:n] + "…"
	}
	return s
}
