package props

import (
	"bytes"
	"encoding/hex"
	"fmt"
	"math"
	"strings"
	"sync"
	"time"

	"github.com/aukilabs/hagall-common/messages/hagallpb"
	"google.golang.org/protobuf/proto"

	"verif/internal/check"
	d "verif/internal/driver"
	"verif/internal/scen"
	"verif/internal/sut"
	"verif/internal/xcrypto"
)

// slCase is one signed-latency script.
type slCase struct {
	N        uint32
	Wallet   string
	Behave   string // honest | delay-last | delay-first | duplicate | unknown | replay-after | restart | unjoined
	DupRound int
}

func (s slCase) String() string {
	return fmt.Sprintf("n=%d wallet=%q behaviour=%s", s.N, s.Wallet, s.Behave)
}

const slDelay = 60 * time.Millisecond

func c18f(clause, trigger, format string, a ...any) *check.Finding {
	return &check.Finding{Props: []string{"C18"}, Clause: clause, Trigger: trigger, Detail: fmt.Sprintf(format, a...), Engine: "C18 signed-latency scripts"}
}

type slOutcome struct {
	findings  []*check.Finding
	completed bool
	refused   bool
	inconc    string
}

// waitEvent waits for the next event on c that satisfies want (consumed),
// returning the events that preceded it.
func waitEvent(c *scen.C, want func(*d.Event) bool) (*d.Event, []*d.Event, error) {
	var hit *d.Event
	before, err := c.WaitFor(func(e *d.Event) bool {
		if want(e) {
			hit = e
			return true
		}
		return false
	})
	return hit, before, err
}

func runSLCase(p *sut.Proc, sc slCase, serverPub []byte) (out slOutcome) {
	trig := sc.Behave
	defer func() {
		if r := recover(); r != nil {
			out.inconc = fmt.Sprint("C18 ", sc, ": ", r)
		}
	}()
	c := scen.MustDial(p, "vod")
	defer c.Close()
	c.Timeout = 10 * time.Second
	if sc.Behave != "unjoined" {
		if _, _, err := c.Join(""); err != nil {
			panic(err)
		}
	}
	reqID := c.NextReqID()
	send := func() {
		if err := c.Send(&hagallpb.SignedLatencyRequest{Type: d.TSignedLatReq, Timestamp: d.NewTag(), RequestId: reqID, IterationCount: sc.N, WalletAddress: sc.Wallet}); err != nil {
			panic(err)
		}
	}
	send()
	valid := sc.Behave != "unjoined" && sc.N >= 3 && sc.N <= 50 && sc.Wallet != ""
	if !valid {
		// must be refused; no ping request may be issued
		win, err := c.Barrier()
		if err != nil {
			panic(err)
		}
		errs, pings := 0, 0
		for _, e := range win {
			if er, ok := e.M.(*hagallpb.ErrorResponse); ok && er.RequestId == reqID {
				errs++
			}
			if e.Type == d.TPingReq {
				pings++
			}
			if e.Type == d.TSignedLatResp {
				out.findings = append(out.findings, c18f("start/invalid-request-measured", "invalid-request", "%s produced a signed response", sc))
			}
		}
		if errs != 1 || pings != 0 {
			out.findings = append(out.findings, c18f("start/invalid-request-not-refused", "invalid-request", "%s: %d error answers and %d ping requests (want 1 and 0); window %v", sc, errs, pings, win))
		}
		out.refused = true
		return
	}

	isPing := func(e *d.Event) bool { return e.Type == d.TPingReq }
	isFinal := func(e *d.Event) bool { return e.Type == d.TSignedLatResp }
	answer := func(id uint32) {
		if err := c.Send(&hagallpb.Response{Type: d.TPingResp, Timestamp: d.NewTag(), RequestId: id}); err != nil {
			panic(err)
		}
	}
	var issued []uint32
	var tBeforeFinalIssued, tFinalReceived time.Time
	var final *hagallpb.SignedLatencyResponse
	restarted := false
	var invalidID uint32
	invalidRefused := 0
	for round := 1; final == nil; round++ {
		if round > int(sc.N)+3 {
			out.findings = append(out.findings, c18f("rounds/too-many", trig, "%s: the server issued more than %d ping requests: %v", sc, sc.N, issued))
			return
		}
		ev, before, err := waitEvent(c, func(e *d.Event) bool { return isPing(e) || isFinal(e) })
		if err != nil {
			out.findings = append(out.findings, c18f("rounds/stalled", trig, "%s: after %d rounds neither a ping request nor the response arrived (%v); before: %v", sc, round-1, err, before))
			return
		}
		for _, e := range before {
			if _, isErr := e.M.(*hagallpb.ErrorResponse); isErr && (sc.Behave == "duplicate" || sc.Behave == "unknown") {
				continue // the refusal of the misbehaving answer
			}
			if er, isErr := e.M.(*hagallpb.ErrorResponse); isErr && sc.Behave == "invalid-mid" && er.RequestId == invalidID {
				invalidRefused++
				continue // the refusal of the invalid request sent in the middle
			}
			out.findings = append(out.findings, c18f("rounds/unexpected-message", trig, "%s: unexpected %s during the measurement", sc, e))
		}
		if isFinal(ev) {
			final = ev.M.(*hagallpb.SignedLatencyResponse)
			tFinalReceived = time.Now()
			break
		}
		id := ev.M.(*hagallpb.Response).RequestId
		issued = append(issued, id)
		n := len(issued)
		switch {
		case sc.Behave == "slow-middle" && n == int(sc.N)-1:
			time.Sleep(150 * time.Millisecond)
			tBeforeFinalIssued = time.Now()
		case sc.Behave == "wrap-straddle" && n == int(sc.N)-1:
			// the server derives ping ids from the low 32 bits of its clock in
			// nanoseconds: wait until they have wrapped, so that the final
			// ping's id is smaller than the earlier ones
			const wrap = int64(1) << 32
			left := wrap - time.Now().UnixNano()%wrap
			time.Sleep(time.Duration(left) + 3*time.Millisecond)
			tBeforeFinalIssued = time.Now()
		case sc.Behave == "delay-last" && n == int(sc.N):
			time.Sleep(slDelay)
		case sc.Behave == "delay-first" && n == 1:
			time.Sleep(slDelay)
		case sc.Behave == "unknown" && n == 2:
			answer(id ^ 0x5a5a5a5a) // an id the server never issued
		case sc.Behave == "invalid-mid" && n == 2 && invalidID == 0:
			// an invalid request in the middle of the measurement: refused, and the
			// measurement in progress goes on as if nothing had been sent (C04, C18)
			invalidID = c.NextReqID()
			bad := &hagallpb.SignedLatencyRequest{Type: d.TSignedLatReq, Timestamp: d.NewTag(), RequestId: invalidID, IterationCount: 2, WalletAddress: "0xREFUSED"}
			if sc.DupRound%2 == 1 {
				bad.IterationCount, bad.WalletAddress = 7, ""
			}
			if err := c.Send(bad); err != nil {
				panic(err)
			}
		case sc.Behave == "switch-mid" && n == 2 && !restarted:
			// the client joins another session while a ping is pending: the
			// measurement belonged to the participant it was; the late answer is
			// refused, nothing more is measured or reported for it, and a new
			// measurement in the new session is bound to that session
			restarted = true
			oldUUID := c.UUID
			jr, _, err := c.Join("")
			if err != nil || jr == nil {
				panic(fmt.Sprint("switch-mid: the session switch failed: ", err))
			}
			answer(id)
			win, err := c.Barrier()
			if err != nil {
				panic(err)
			}
			errs := 0
			for _, e := range append(append([]*d.Event(nil), c.Extra...), win...) {
				if er, ok := e.M.(*hagallpb.ErrorResponse); ok && er.RequestId == id {
					errs++
				}
				if e.Type == d.TPingReq || e.Type == d.TSignedLatResp {
					out.findings = append(out.findings, c18f("switch/measurement-survives-session-switch", trig, "%s: the client switched from session %s to %s with ping %d pending and answered it afterwards: the server went on with the old participant's measurement (%s)", sc, oldUUID, c.UUID, id, e))
					return
				}
			}
			if errs != 1 {
				out.findings = append(out.findings, c18f("switch/late-answer-not-refused", trig, "%s: the answer to ping %d, issued to the participant the client was before it switched session, got %d error answers (want 1); window %v", sc, id, errs, win))
				return
			}
			reqID = c.NextReqID()
			send()
			issued = nil
			continue
		case sc.Behave == "restart" && n == 2 && !restarted:
			// a new measurement supersedes the one in progress
			restarted = true
			reqID = c.NextReqID()
			send()
			issued = nil
			continue // the old ping is never answered
		}
		answer(id)
		if sc.Behave == "duplicate" && n == sc.DupRound {
			answer(id) // the same id once more
		}
	}
	out.completed = true

	if sc.Behave == "invalid-mid" {
		win, err := c.Barrier()
		if err != nil {
			panic(err)
		}
		for _, e := range win {
			if er, ok := e.M.(*hagallpb.ErrorResponse); ok && er.RequestId == invalidID {
				invalidRefused++
			}
			if r, ok := e.M.(*hagallpb.SignedLatencyResponse); ok {
				out.findings = append(out.findings, c18f("response/not-exactly-one-per-request", trig, "%s: a second report arrived (request id %d) after the measurement completed", sc, r.RequestId))
			}
		}
		if invalidRefused != 1 {
			out.findings = append(out.findings, &check.Finding{Props: []string{"C18", "C04"}, Clause: "start/invalid-request-not-refused", Trigger: trig, Engine: "C18 signed-latency scripts",
				Detail: fmt.Sprintf("%s: the invalid request (id %d) sent in the middle of the measurement got %d error answers (want 1)", sc, invalidID, invalidRefused)})
		}
	}
	// --- the response
	if final.RequestId != reqID {
		if sc.Behave == "invalid-mid" {
			out.findings = append(out.findings, &check.Finding{Props: []string{"C18", "C04"}, Clause: "refused-request/changed-the-measurement", Trigger: trig, Engine: "C18 signed-latency scripts",
				Detail: fmt.Sprintf("%s: a refused request (id %d) sent in the middle changed the measurement in progress: its report echoes request id %d instead of %d", sc, invalidID, final.RequestId, reqID)})
		}
		out.findings = append(out.findings, c18f("response/request-id", trig, "%s: response echoes request id %d, want %d", sc, final.RequestId, reqID))
	}
	if len(issued) != int(sc.N) {
		out.findings = append(out.findings, c18f("rounds/count", trig, "%s: the measurement ran %d ping rounds, want exactly %d (ids %v)", sc, len(issued), sc.N, issued))
	}
	var data hagallpb.LatencyData
	if err := proto.Unmarshal(final.Data, &data); err != nil {
		out.findings = append(out.findings, c18f("response/data-undecodable", trig, "%s: %v", sc, err))
		return
	}
	sig, err := hex.DecodeString(strings.TrimPrefix(final.Signature, "0x"))
	if err != nil {
		out.findings = append(out.findings, c18f("response/signature-undecodable", trig, "%s: %v", sc, err))
	} else if pub, err := xcrypto.Recover(xcrypto.Keccak256(final.Data), sig); err != nil {
		out.findings = append(out.findings, c18f("response/signature-invalid", trig, "%s: %v", sc, err))
	} else if !bytes.Equal(pub, serverPub) {
		out.findings = append(out.findings, c18f("response/signature-wrong-key", trig, "%s: the signature over the returned data recovers key %x, not the server wallet key", sc, pub))
	}
	if data.ClientId != c.CID || data.SessionId != c.UUID || data.WalletAddress != sc.Wallet {
		out.findings = append(out.findings, c18f("response/binding", trig, "%s: data names client %q session %q wallet %q; want %q %q %q", sc, data.ClientId, data.SessionId, data.WalletAddress, c.CID, c.UUID, sc.Wallet))
	}
	want := map[uint32]int{}
	for _, id := range issued {
		want[id]++
	}
	got := map[uint32]int{}
	for _, id := range data.PingRequestIds {
		got[id]++
	}
	same := len(want) == len(got)
	for id, n := range want {
		if got[id] != n {
			same = false
		}
	}
	if !same {
		out.findings = append(out.findings, c18f("response/ping-ids", trig, "%s: ping_request_ids %v are not exactly the ids issued %v", sc, data.PingRequestIds, issued))
	}
	if data.IterationCount != sc.N {
		out.findings = append(out.findings, c18f("response/iteration-count", trig, "%s: iteration_count %d, want %d", sc, data.IterationCount, sc.N))
	}
	finite := func(f float32) bool { return !math.IsNaN(float64(f)) && !math.IsInf(float64(f), 0) }
	if !(finite(data.Min) && finite(data.Max) && finite(data.Mean) && 0 <= data.Min && data.Min <= data.Mean && data.Mean <= data.Max) ||
		data.P95 < data.Min || data.P95 > data.Max || data.Last < data.Min || data.Last > data.Max {
		out.findings = append(out.findings, c18f("response/statistics", trig, "%s: inconsistent statistics min=%v mean=%v max=%v p95=%v last=%v", sc, data.Min, data.Mean, data.Max, data.P95, data.Last))
	}
	delayUS := float32(slDelay.Microseconds())
	if sc.Behave == "delay-last" && data.Last < delayUS {
		out.findings = append(out.findings, c18f("response/last-is-not-the-final-round", "delay-last",
			"%s: the client delayed only its answer to the final round by %v, so the final round's latency is at least %v us, but last=%v us (max=%v)", sc, slDelay, delayUS, data.Last, data.Max))
	}
	if (sc.Behave == "slow-middle" || sc.Behave == "wrap-straddle") && !tBeforeFinalIssued.IsZero() {
		// the final round was issued after the client sent its previous answer
		// and was over before the client received the response: its latency
		// as measured by the server is nested in that interval
		bound := float32(tFinalReceived.Sub(tBeforeFinalIssued).Microseconds() + 1)
		if data.Last > bound {
			out.findings = append(out.findings, c18f("response/last-is-not-the-final-round", sc.Behave,
				"%s: the final round was answered at once and lies within an interval of %v us measured by the client, but last=%v us (the round before it was delayed; max=%v)", sc, bound, data.Last, data.Max))
		}
	}
	if (sc.Behave == "delay-first" || sc.Behave == "delay-last") && data.Max < delayUS {
		out.findings = append(out.findings, c18f("response/max-too-small", trig, "%s: one round was delayed by %v but max=%v us", sc, slDelay, data.Max))
	}

	// --- after completion: a replayed answer must be refused and must not restart anything
	if sc.Behave == "replay-after" && len(issued) > 0 {
		answer(issued[0])
		win, err := c.Barrier()
		if err != nil {
			panic(err)
		}
		errs := 0
		for _, e := range win {
			if _, ok := e.M.(*hagallpb.ErrorResponse); ok {
				errs++
			}
			if e.Type == d.TPingReq || e.Type == d.TSignedLatResp {
				out.findings = append(out.findings, c18f("replay/restarts-measurement", "replay-after", "%s: answering ping %d again after the measurement completed made the server send %s", sc, issued[0], e))
			}
		}
		if errs != 1 {
			out.findings = append(out.findings, c18f("replay/not-refused", "replay-after", "%s: a ping answer replayed after completion got %d error answers (want 1); window %v", sc, errs, win))
		}
	}
	return
}

// runSLChained: k measurements of 3 rounds on one connection, each request
// written directly behind the final ping answer of the one before (the client
// does not wait for the report). Every request gets exactly one report, under
// its own request id, carrying its own wallet and exactly the ping ids issued
// between this request and the next.
func runSLChained(p *sut.Proc, k int) (findings []*check.Finding, inconc string, completed int) {
	defer func() {
		if r := recover(); r != nil {
			inconc = fmt.Sprint("C18 chained: ", r)
		}
	}()
	c := scen.MustDial(p, "vod")
	defer c.Close()
	c.Timeout = 15 * time.Second
	if _, _, err := c.Join(""); err != nil {
		panic(err)
	}
	type meas struct {
		id     uint32
		wallet string
		pings  []uint32
	}
	var ms []*meas
	start := func() {
		m := &meas{id: c.NextReqID(), wallet: fmt.Sprintf("0xCHAIN%02d", len(ms))}
		ms = append(ms, m)
		if err := c.Send(&hagallpb.SignedLatencyRequest{Type: d.TSignedLatReq, Timestamp: d.NewTag(), RequestId: m.id, IterationCount: 3, WalletAddress: m.wallet}); err != nil {
			panic(err)
		}
	}
	start()
	reports := map[uint32][]*hagallpb.SignedLatencyResponse{}
	handle := func(e *d.Event) {
		if r, ok := e.M.(*hagallpb.SignedLatencyResponse); ok {
			reports[r.RequestId] = append(reports[r.RequestId], r)
		}
	}
	for len(ms) <= k {
		cur := ms[len(ms)-1]
		ev, before, err := waitEvent(c, func(e *d.Event) bool { return e.Type == d.TPingReq })
		for _, e := range before {
			handle(e)
		}
		if err != nil {
			findings = append(findings, c18f("rounds/stalled", "chained", "measurement %d of a chain (request id %d): no further ping request arrived (%v)", len(ms), cur.id, err))
			return
		}
		id := ev.M.(*hagallpb.Response).RequestId
		cur.pings = append(cur.pings, id)
		if err := c.Send(&hagallpb.Response{Type: d.TPingResp, Timestamp: d.NewTag(), RequestId: id}); err != nil {
			panic(err)
		}
		if len(cur.pings) == 3 {
			if len(ms) == k {
				break
			}
			start() // directly behind the final answer
		}
	}
	win, err := c.Barrier()
	if err != nil {
		panic(err)
	}
	for _, e := range win {
		handle(e)
	}
	// the last report may still be on its way (it is produced after the final answer)
	for round := 0; round < 40 && len(reports[ms[len(ms)-1].id]) == 0; round++ {
		win, err := c.Barrier()
		if err != nil {
			panic(err)
		}
		for _, e := range win {
			handle(e)
		}
		time.Sleep(5 * time.Millisecond)
	}
	for i, m := range ms {
		rs := reports[m.id]
		if len(rs) != 1 {
			findings = append(findings, c18f("response/not-exactly-one-per-request", "chained", "measurement %d of a back-to-back chain (request id %d, wallet %s) got %d reports; reports per request id: %v", i+1, m.id, m.wallet, len(rs), func() map[uint32]int {
				o := map[uint32]int{}
				for id, l := range reports {
					o[id] = len(l)
				}
				return o
			}()))
			continue
		}
		var ld hagallpb.LatencyData
		if err := proto.Unmarshal(rs[0].Data, &ld); err != nil {
			findings = append(findings, c18f("response/data-undecodable", "chained", "report of request %d: %v", m.id, err))
			continue
		}
		same := len(ld.PingRequestIds) == len(m.pings)
		if same {
			set := map[uint32]bool{}
			for _, id := range ld.PingRequestIds {
				set[id] = true
			}
			for _, id := range m.pings {
				if !set[id] {
					same = false
				}
			}
		}
		if ld.WalletAddress != m.wallet || !same || ld.IterationCount != 3 {
			findings = append(findings, c18f("response/bound-to-another-measurement", "chained", "the report under request id %d (wallet %s, pings %v) carries wallet %q, iteration count %d and ping ids %v", m.id, m.wallet, m.pings, ld.WalletAddress, ld.IterationCount, ld.PingRequestIds))
			continue
		}
		completed++
	}
	return
}

func partSignedLatency(c *check.Ctx, a *acc) {
	bin, err := c.WS.Build("lab", "plain")
	if err != nil {
		c.Inconc("build failed: " + err.Error())
		return
	}
	serverPub, err := xcrypto.PubKeyFromHex(sut.TestKeyHex)
	if err != nil {
		c.Inconc(err.Error())
		return
	}
	var cases []slCase
	// every iteration count 0..60 and the extremes, honestly
	for n := uint32(0); n <= 60; n++ {
		cases = append(cases, slCase{N: n, Wallet: "0xWALLET", Behave: "honest"})
	}
	for _, n := range []uint32{1 << 31, math.MaxUint32} {
		cases = append(cases, slCase{N: n, Wallet: "0xWALLET", Behave: "honest"})
	}
	for _, w := range []string{"", "w", strings.Repeat("long", 500), "wällét-ユニコード"} {
		cases = append(cases, slCase{N: 5, Wallet: w, Behave: "honest"})
	}
	cases = append(cases, slCase{N: 5, Wallet: "0xW", Behave: "unjoined"})
	reps := c.Pick(3, 12)
	for i := 0; i < reps; i++ {
		for _, n := range []uint32{3, 4, 7, 20, 50} {
			cases = append(cases,
				slCase{N: n, Wallet: "0xW", Behave: "delay-last"},
				slCase{N: n, Wallet: "0xW", Behave: "delay-first"},
				slCase{N: n, Wallet: "0xW", Behave: "slow-middle"},
				slCase{N: n, Wallet: "0xW", Behave: "duplicate", DupRound: 1 + i%int(n-1)},
				slCase{N: n, Wallet: "0xW", Behave: "unknown"},
				slCase{N: n, Wallet: "0xW", Behave: "replay-after"},
				slCase{N: n, Wallet: "0xW", Behave: "restart"},
				slCase{N: n, Wallet: "0xW", Behave: "invalid-mid", DupRound: i},
				slCase{N: n, Wallet: "0xW", Behave: "switch-mid"})
		}
	}
	for i := 0; i < c.Pick(2, 6); i++ {
		cases = append(cases, slCase{N: uint32(3 + i), Wallet: "0xW", Behave: "wrap-straddle"})
	}
	var mu sync.Mutex
	done, completed, refused := 0, 0, 0
	var samples []any
	procs := make([]*sut.Proc, 8)
	for i := range procs {
		p, err := c.WS.StartLab(bin, sut.LabOpts{Name: "sl"})
		if err != nil {
			c.Inconc(err.Error())
			return
		}
		defer p.Kill()
		procs[i] = p
	}
	parallel(len(cases), 8*4, func(i int) {
		p := procs[i%len(procs)]
		out := runSLCase(p, cases[i], serverPub)
		mu.Lock()
		defer mu.Unlock()
		done++
		if out.completed {
			completed++
		}
		if out.refused {
			refused++
		}
		if out.inconc != "" {
			c.Inconc(out.inconc)
		}
		for _, f := range out.findings {
			c.Report(f)
		}
		if len(samples) < 4 && (out.completed && cases[i].Behave != "honest") {
			samples = append(samples, map[string]any{"engine": "C18 script", "case": cases[i].String(), "completed": out.completed})
		}
	})
	chains := c.Pick(6, 40)
	chained := 0
	parallel(chains, 6, func(i int) {
		f, inc, n := runSLChained(procs[i%len(procs)], 12)
		mu.Lock()
		defer mu.Unlock()
		done++
		chained += n
		if n > 0 {
			completed++
		}
		if inc != "" {
			c.Inconc(inc)
		}
		for _, x := range f {
			c.Report(x)
		}
	})
	c.Coverage["chained_measurements_checked"] = chained
	c.Coverage["signed_latency_cases"] = done
	c.Coverage["measurements_completed_and_fully_checked"] = completed
	c.Coverage["requests_refused_and_checked"] = refused
	a.add(done, completed+refused, "C18 scripts: iteration counts 0..60 and extremes, wallet strings, and misbehaving clients (answer an id twice, unknown id, replay after completion, restart, a session switch with a ping pending, delayed first / final round, a slow round before a fast final one incl. one that straddles the wrap of the server's 32-bit nanosecond ping ids) against the real handler; signature recovered independently (x/crypto Keccak-256 + pure-Go decred secp256k1) against the server wallet key; a case is non-trivial when a measurement completed and all data clauses were checked or the request was refused and the refusal checked", samples...)
}

func init() {
	registry["C18"] = func(c *check.Ctx) int {
		a := &acc{}
		partSignedLatency(c, a)
		return a.finish(c)
	}
}
