package props

import (
	"fmt"
	"math/rand"
	"os"
	"sort"
	"strings"
	"sync"
	"time"

	"verif/internal/check"
	"verif/internal/e2"
	"verif/internal/e4"
	"verif/internal/sut"
)

func c08Trials(c *check.Ctx) []e4.Trial {
	r := rand.New(rand.NewSource(c.Seed*977 + 11))
	ctx := e4.Ctx{Own: 2, Foreign: 1, TypeID: 1, PID: 2}
	var offs []e4.Offence
	offs = append(offs, e4.Structural(ctx, !c.Quick())...)
	offs = append(offs, e4.ByteLevel(r, c.Pick(12, 150))...)
	offs = append(offs, e4.Bursts()...)
	offs = append(offs, e4.Closes(ctx)...)
	var trials []e4.Trial
	for _, o := range offs {
		if f := os.Getenv("VERIF_E4_FILTER"); f != "" && !strings.Contains(o.Name, f) {
			continue
		}
		for _, ph := range []string{"joined", "unjoined"} {
			trials = append(trials, e4.Trial{Off: o, Phase: ph})
		}
		// a third life phase for the offences that involve deferred updates or
		// end the connection: the offender has switched sessions before
		if strings.HasPrefix(o.Name, "pose/") || strings.HasPrefix(o.Name, "comp_upd/") || strings.HasPrefix(o.Name, "burst/") || strings.HasPrefix(o.Name, "bytes/") || strings.HasPrefix(o.Name, "ws/") || strings.HasPrefix(o.Name, "quad/") || strings.HasPrefix(o.Name, "close/") {
			trials = append(trials, e4.Trial{Off: o, Phase: "switched"})
		}
	}
	return trials
}

func partFaults(c *check.Ctx, a *acc) {
	bin, err := c.WS.Build("lab", "plain")
	if err != nil {
		c.Inconc("build failed: " + err.Error())
		return
	}
	trials := c08Trials(c)
	res := e4.RunBatch(c.WS, bin, sut.LabOpts{Frame: 2 * time.Millisecond, Name: "e4", VLimitKB: 8 << 20}, trials, 16)
	for _, f := range res.Findings {
		c.Report(f)
	}
	for _, s := range res.Inconclusive {
		c.Inconc(s)
	}
	sort.Strings(res.Names)
	c.Coverage["fault_trials"] = res.Trials
	c.Coverage["fault_trials_reaching_handler_code"] = res.ReachedHandle
	c.Coverage["offender_fates"] = res.Fates
	c.Coverage["liveness_oracle_evaluations"] = res.Oracles
	c.Coverage["handler_panics_seen_in_sut_logs"] = res.Panics
	samples := []any{}
	for i := 0; i < len(res.Names) && len(samples) < 6; i += 1 + len(res.Names)/6 {
		samples = append(samples, map[string]any{"engine": "E4 fault trial", "trial -> offender fate": res.Names[i]})
	}
	a.add(res.Trials, res.ReachedHandle, "E4: every offence of the catalogue (structural messages of core and modules with optional fields absent / boundary scalars, byte-level frames, malformed WebSocket framing, bursts) x life phase (unjoined, joined with entities and attachments, joined after a switch from another live session) against a child SUT with a witness in the same and in another session; a trial is distinct by offence and phase and non-trivial when the input reaches handler code (is not rejected at the frame level) and all liveness oracles were evaluated", samples...)
}

// partBursts: bursts of failing requests written without reading. A wedge
// needs the main loop to pick its message queue nine times in a row while
// errors are pending (probability 2^-8 per burst), so thousands are run.
func partBursts(c *check.Ctx, a *acc) {
	bin, err := c.WS.Build("lab", "plain")
	if err != nil {
		c.Inconc("build failed: " + err.Error())
		return
	}
	n := c.Pick(2400, 24000)
	var mu sync.Mutex
	done, wedged := 0, 0
	workers := 16
	parallel(workers, workers, func(w int) {
		p, err := c.WS.StartLab(bin, sut.LabOpts{Name: "burst"})
		if err != nil {
			c.Inconc(err.Error())
			return
		}
		defer p.Kill()
		for i := w; i < n; i += workers {
			size := 12 + (i*7)%53
			f, inc := e4.BurstTrial(p, size)
			mu.Lock()
			done++
			if f != nil {
				wedged++
				c.Report(f)
			}
			mu.Unlock()
			if inc != "" {
				c.Inconc(inc)
			}
			if !p.Alive() || wedged > 3 {
				return
			}
		}
	})
	c.Coverage["burst_trials"] = done
	c.Coverage["burst_trials_wedged"] = wedged
	a.add(done, done, "bursts: an unjoined connection writes 12-64 failing requests without reading; the server must close it and websocket.Handle must return (departure barrier); every burst is a distinct execution of the racy select between the message queue and the disconnect queue",
		map[string]any{"engine": "E4 burst", "bursts": done, "sizes": "12..64 failing ENTITY_ADD_REQUESTs from a connection in no session"})
}

// partFloods: a fatal request in the middle of a flood of valid ones: the
// receiver goroutine runs ahead of the main loop and may be blocked on the full
// request queue when the main loop stops consuming.
func partFloods(c *check.Ctx, a *acc) {
	bin, err := c.WS.Build("lab", "plain")
	if err != nil {
		c.Inconc("build failed: " + err.Error())
		return
	}
	n := c.Pick(96, 960)
	var mu sync.Mutex
	done, wedged := 0, 0
	workers := 8
	parallel(workers, workers, func(w int) {
		// half of the servers with the periodic workers of a connection (traffic
		// summary, sync clock) ticking every few milliseconds instead of every
		// minute / hour: whatever they do runs next to the flood
		opts := sut.LabOpts{Name: "flood"}
		if w%2 == 1 {
			opts.LogSum, opts.Sync = 2*time.Millisecond, 7*time.Millisecond
		}
		p, err := c.WS.StartLab(bin, opts)
		if err != nil {
			c.Inconc(err.Error())
			return
		}
		defer p.Kill()
		for i := w; i < n; i += workers {
			before := 260 + (i*37)%900
			after := (i * 53) % 700
			f, inc := e4.FloodTrial(p, before, after, i%4 == 3)
			mu.Lock()
			done++
			if f != nil {
				wedged++
				c.Report(f)
			}
			mu.Unlock()
			if inc != "" {
				c.Inconc(inc)
			}
			if !p.Alive() || wedged > 2 {
				return
			}
		}
	})
	c.Coverage["flood_trials"] = done
	c.Coverage["flood_trials_wedged"] = wedged
	a.add(done, done, "floods: a connection pipelines 260-1160 valid requests, one request that ends the connection and up to 700 more valid ones (pings in no session; 10 KiB custom messages relayed to four members when joined), reading all the while (on half of the servers the per-connection periodic workers - traffic summary, sync clock - tick every 2 / 7 ms); the server must keep running, close the connection and websocket.Handle must return although the receiver may be blocked on the full request queue",
		map[string]any{"engine": "E4 flood", "floods": done})
}

// partStalls: a member stops reading while the session relays to it; idle
// clients (silent) must be disconnected, active ones must not.
func partStalls(c *check.Ctx, a *acc) {
	bin, err := c.WS.Build("lab", "plain")
	if err != nil {
		c.Inconc("build failed: " + err.Error())
		return
	}
	type sc struct{ n, size int }
	scs := []sc{{300, 10000}, {1500, 10000}, {4000, 2000}, {6000, 10000}, {1500, 10000}, {3000, 4000}}
	if !c.Quick() {
		scs = append(scs, sc{20000, 10000}, sc{800, 10240}, sc{3000, 100}, sc{12000, 5000})
	}
	var mu sync.Mutex
	done, ended, blocked := 0, 0, 0
	var samples []any
	parallel(len(scs), 4, func(i int) {
		// every second trial with the sync clock ticking (production: every 5 s, a
		// 60th of the idle timeout): the staller's own main loop then has something
		// to send into its full queue
		opts := sut.LabOpts{Idle: 2 * time.Second, Name: "stall"}
		if i%2 == 1 {
			opts.Sync = 150 * time.Millisecond
		}
		p, err := c.WS.StartLab(bin, opts)
		if err != nil {
			c.Inconc(err.Error())
			return
		}
		defer p.Kill()
		out := e4.StallTrial(p, 2*time.Second, scs[i].n, scs[i].size)
		mu.Lock()
		defer mu.Unlock()
		done++
		if out.StallerEnded {
			ended++
		}
		if out.SenderBlocked {
			blocked++
		}
		if out.Inconclusive != "" {
			c.Inconc(out.Inconclusive)
		}
		for _, f := range out.Findings {
			c.Report(f)
		}
		samples = append(samples, map[string]any{"engine": "E4 stall", "trial": out.Desc, "relays_towards_staller": out.RelaysTowards, "sender_blocked_meanwhile": out.SenderBlocked, "staller_disconnected": out.StallerEnded})
	})
	// the stalled peer x leaving member x frame tick wedge (design G13), free-running
	nLeave := c.Pick(2, 8)
	parallel(nLeave, 4, func(i int) {
		p, err := c.WS.StartLab(bin, sut.LabOpts{Idle: 2 * time.Minute, Frame: 3 * time.Millisecond, Name: "stallleave"})
		if err != nil {
			c.Inconc(err.Error())
			return
		}
		out := e4.StallLeaveTrial(p, 2*time.Second)
		p.Kill()
		mu.Lock()
		defer mu.Unlock()
		done++
		if out.StallerEnded {
			ended++
		}
		if out.Inconclusive != "" {
			c.Inconc(out.Inconclusive)
		}
		for _, f := range out.Findings {
			c.Report(f)
		}
		samples = append(samples, map[string]any{"engine": "E4 stall", "trial": out.Desc, "relays_towards_staller": out.RelaysTowards, "staller_disconnected": out.StallerEnded})
	})
	c.Coverage["stall_trials"] = done
	c.Coverage["stall_trials_staller_disconnected_by_idle_timeout"] = ended
	c.Coverage["stall_trials_sender_blocked_while_peer_stalled"] = blocked
	a.add(done, done, "stalls: a member stops reading while another relays hundreds to thousands of custom messages to the session (beyond socket buffers + send queue); the silent staller must be disconnected by the idle timeout through the normal path, a member of another session must be served throughout, and the session must work again afterwards", samples...)
}

// partKeepAlive: "one that keeps sending is not disconnected", per message kind.
func partKeepAlive(c *check.Ctx, a *acc) {
	bin, err := c.WS.Build("lab", "plain")
	if err != nil {
		c.Inconc("build failed: " + err.Error())
		return
	}
	const idle = 1500 * time.Millisecond
	p, err := c.WS.StartLab(bin, sut.LabOpts{Idle: idle, Frame: 5 * time.Millisecond, Name: "keepalive"})
	if err != nil {
		c.Inconc(err.Error())
		return
	}
	defer p.Kill()
	var mu sync.Mutex
	done, kept := 0, 0
	sent := map[string]int{}
	kinds := e4.KeepAliveKinds
	parallel(len(kinds), len(kinds), func(i int) {
		out := e4.KeepAliveTrial(p, idle, kinds[i])
		mu.Lock()
		defer mu.Unlock()
		if out.Inconclusive != "" {
			c.Inconc(out.Inconclusive)
			return
		}
		done++
		sent[kinds[i]] = out.Sent
		if len(out.Findings) == 0 {
			kept++
		}
		for _, f := range out.Findings {
			c.Report(f)
		}
	})
	c.Coverage["keep_alive_trials"] = done
	c.Coverage["keep_alive_trials_still_connected"] = kept
	c.Coverage["keep_alive_messages_sent_per_kind"] = sent
	a.add(done, done, "keep-alive: a session member sends one message of a single kind (each core and module message type, accepted or refused with an error answer, and an unknown type number) every idle/6 for 2.6 idle timeouts and nothing else; it must still be connected",
		map[string]any{"engine": "E4 keep-alive", "kinds": kinds, "idle_timeout": idle.String()})
}

func init() {
	registry["C08"] = func(c *check.Ctx) int {
		c.Level = "fault_enumeration"
		a := &acc{}
		partFaults(c, a)
		partBursts(c, a)
		partFloods(c, a)
		partStalls(c, a)
		partKeepAlive(c, a)
		partRealBinaryDefaults(c, a, "C08")
		partGated(c, a, []func(*sut.Proc) *e2.Result{e2.G13FrameWorkerVsLeaver}, 1)
		// closes and resets placed at every lock-granularity point of a departure
		// and of a relay in progress: every handler must return
		partStepThrough(c, a, []string{"leave", "compadd-vs-leave", "action-vs-leave"})
		partSwitchPending(c, a)
		partHandshakes(c, a)
		return a.finish(c)
	}
}

// partLagging: a member that reads slowly is still owed every relay (C02).
func partLagging(c *check.Ctx, a *acc) {
	bin, err := c.WS.Build("lab", "plain")
	if err != nil {
		c.Inconc("build failed: " + err.Error())
		return
	}
	type sc struct {
		n, size int
		pause   time.Duration
	}
	scs := []sc{{2500, 8000, 500 * time.Millisecond}, {6000, 2000, 300 * time.Millisecond}, {1200, 10240, 800 * time.Millisecond}}
	if !c.Quick() {
		scs = append(scs, sc{20000, 1000, time.Second}, sc{8000, 8000, 1500 * time.Millisecond}, sc{3000, 200, 200 * time.Millisecond})
	}
	var mu sync.Mutex
	done, nontrivial := 0, 0
	var samples []any
	parallel(len(scs), 3, func(i int) {
		p, err := c.WS.StartLab(bin, sut.LabOpts{Name: "lag"})
		if err != nil {
			c.Inconc(err.Error())
			return
		}
		defer p.Kill()
		out := e4.LagTrial(p, scs[i].n, scs[i].size, scs[i].pause)
		mu.Lock()
		defer mu.Unlock()
		done++
		if out.Inconclusive != "" {
			c.Inconc(out.Inconclusive)
		}
		for _, f := range out.Findings {
			c.Report(f)
		}
		if out.Sent > 600 {
			nontrivial++
		}
		samples = append(samples, map[string]any{"engine": "E4 lagging member", "trial": out.Desc, "received": out.Received})
	})
	c.Coverage["lagging_member_trials"] = done
	a.add(done, nontrivial, "lagging member: one member stops reading for 0.3-1.5 s while another relays thousands of numbered custom messages (more than socket buffers + the 512-entry send queue hold), then resumes; it and a steadily reading member must each receive every message exactly once, in order; non-trivial when more than 600 messages were relayed", samples...)
}

// partLagSenders: a lagging member against several concurrent senders (C01, C02, C11).
func partLagSenders(c *check.Ctx, a *acc) {
	bin, err := c.WS.Build("lab", "plain")
	if err != nil {
		c.Inconc("build failed: " + err.Error())
		return
	}
	type sc struct {
		flood, size int
		sync        time.Duration
		addressed   bool
	}
	scs := []sc{{2500, 10000, 0, false}, {4000, 6000, 25 * time.Millisecond, true}, {2500, 10000, 0, true}}
	if !c.Quick() {
		scs = append(scs, sc{3000, 10240, 5 * time.Millisecond, false}, sc{8000, 3000, 0, true}, sc{2500, 10000, 100 * time.Millisecond, false}, sc{6000, 4000, 0, true}, sc{4000, 6000, 0, false})
	}
	var mu sync.Mutex
	done, jammed := 0, 0
	var samples []any
	parallel(len(scs), 3, func(i int) {
		p, err := c.WS.StartLab(bin, sut.LabOpts{Name: "lagsenders", Sync: scs[i].sync})
		if err != nil {
			c.Inconc(err.Error())
			return
		}
		defer p.Kill()
		out := e4.LagMixedTrial(p, scs[i].flood, scs[i].size, scs[i].addressed)
		mu.Lock()
		defer mu.Unlock()
		done++
		if out.Inconclusive != "" {
			c.Inconc(out.Inconclusive)
		}
		for _, f := range out.Findings {
			c.Report(f)
		}
		if out.Jammed {
			jammed++
		}
		if os.Getenv("VERIF_STEP_DEBUG") != "" {
			for _, f := range out.Findings {
				fmt.Fprintf(os.Stderr, "lag+senders finding %v %s: %.3000s\n", f.Props, f.Clause, f.Detail)
			}
			fmt.Fprintf(os.Stderr, "lag+senders %v: jammed=%v flooded=%d phases=%v received=%v inconc=%q findings=%d\n", scs[i], out.Jammed, out.Flooded, out.Phases, out.Received, out.Inconclusive, len(out.Findings))
		}
		samples = append(samples, map[string]any{"engine": "E4 lagging member, several senders", "trial": out.Desc, "jammed": out.Jammed, "relayed_before_jam": out.Flooded, "received": out.Received, "seconds": out.Phases})
	})
	c.Coverage["lagging_member_several_senders_trials"] = done
	c.Coverage["lagging_member_several_senders_jammed"] = jammed
	a.add(done, jammed, "lagging member, several senders: one member stops reading until another member's custom relays fill the pipeline towards it (socket buffers + 512-entry send queue, the relaying handler waits for room); the flood is a broadcast (the relayer waits under the session's participant lock) or addressed to the lagging and one other member (it waits outside it); meanwhile a third member relays customs, adds an entity and sends messages addressed to the lagging member and to a member that then leaves, a fourth moves its entity three times, a fifth switches to a session of its own, a sixth closes and an outsider creates a session (answered within 5 s, or the stall is blamed if it is answered right after); the lagging member resumes; it and a steady member must have every relay exactly once in each sender's order, the latest pose, the addressed messages; the switcher gets nothing of the old session after its join answer; a newcomer is handed the latest pose; non-trivial when the pipeline was observed full", samples...)
}

// partSwitchPending: updates pending at a departure that follows a session
// switch (C03, C08, C11).
func partSwitchPending(c *check.Ctx, a *acc) {
	bin, err := c.WS.Build("lab", "plain")
	if err != nil {
		c.Inconc("build failed: " + err.Error())
		return
	}
	type sc struct{ how, what string }
	var scs []sc
	for _, how := range []string{"rst", "fin", "switch"} {
		for _, what := range []string{"pose", "comp", "both"} {
			scs = append(scs, sc{how, what})
		}
	}
	if c.Quick() {
		// three of the nine per run, chosen by the seed; rst/both always
		k := int(c.Seed % 3)
		scs = []sc{{"rst", "both"}, scs[3+k], scs[6+(k+1)%3]}
	}
	frame := 120 * time.Millisecond
	var mu sync.Mutex
	done := 0
	var samples []any
	parallel(len(scs), 5, func(i int) {
		p, err := c.WS.StartLab(bin, sut.LabOpts{Name: "switchpending", Frame: frame})
		if err != nil {
			c.Inconc(err.Error())
			return
		}
		defer p.Kill()
		out := e4.SwitchPendingTrial(p, frame, scs[i].how, scs[i].what)
		mu.Lock()
		defer mu.Unlock()
		if out.Inconclusive != "" {
			c.Inconc(out.Inconclusive)
		} else {
			done++
		}
		for _, f := range out.Findings {
			c.Report(f)
		}
		samples = append(samples, map[string]any{"engine": "E4 switch, pending update, departure", "trial": out.Desc})
	})
	c.Coverage["switch_pending_departure_trials"] = done
	a.add(done, done, "switch, pending update, departure: a member of session A (kept alive by witnesses) switches to a session of its own, sends pose / component updates and departs (reset, close, one more switch) before the next frame (120 ms frames); after several frames of every session the process runs, A's and another session's members are served and relayed to, the leaver's session has ended and the gauges are back; two rounds per trial", samples...)
}

// partBigSession: sessions with more members than any queue or batch in the
// server is long (C13, C14, C02, C01).
func partBigSession(c *check.Ctx, a *acc) {
	bin, err := c.WS.Build("lab", "plain")
	if err != nil {
		c.Inconc("build failed: " + err.Error())
		return
	}
	sizes := []int{140, 300}
	if !c.Quick() {
		sizes = append(sizes, 530, 700)
	}
	var mu sync.Mutex
	done := 0
	var samples []any
	parallel(len(sizes), 2, func(i int) {
		p, err := c.WS.StartLab(bin, sut.LabOpts{Name: "bigsession"})
		if err != nil {
			c.Inconc(err.Error())
			return
		}
		defer p.Kill()
		out := e4.BigSessionTrial(p, sizes[i])
		mu.Lock()
		defer mu.Unlock()
		if out.Inconclusive != "" {
			c.Inconc(out.Inconclusive)
		} else {
			done++
		}
		for _, f := range out.Findings {
			c.Report(f)
		}
		samples = append(samples, map[string]any{"engine": "E4 big session", "members": out.Members, "recipients_checked_per_class": out.Checked})
	})
	c.Coverage["big_session_trials"] = done
	a.add(done, done, "big sessions: 140 and 300 (thorough: also 530 and 700) members in one session, all subscribed to one component type; one member causes a component add and update, a pose update, a custom broadcast, a custom message addressed to everybody and one to every second member, an entity add; a newcomer joins and a member leaves; every other member has each message exactly as often as it must, and the newcomer is handed all participants", samples...)
}

// partHandshakes: odd handshake headers (C08).
func partHandshakes(c *check.Ctx, a *acc) {
	bin, err := c.WS.Build("lab", "plain")
	if err != nil {
		c.Inconc("build failed: " + err.Error())
		return
	}
	vs := e4.HandshakeVariants()
	var mu sync.Mutex
	done, refused := 0, 0
	procs := make([]*sut.Proc, 4)
	for i := range procs {
		p, err := c.WS.StartLab(bin, sut.LabOpts{Name: "handshake", Frame: 3 * time.Millisecond})
		if err != nil {
			c.Inconc(err.Error())
			return
		}
		defer p.Kill()
		procs[i] = p
	}
	parallel(len(procs), len(procs), func(w int) {
		for i := w; i < len(vs); i += len(procs) {
			if !procs[w].Alive() {
				return
			}
			out := e4.HandshakeTrial(procs[w], vs[i])
			mu.Lock()
			if out.Inconclusive != "" {
				c.Inconc(out.Inconclusive)
			} else {
				done++
			}
			if out.Refused {
				refused++
			}
			for _, f := range out.Findings {
				c.Report(f)
			}
			mu.Unlock()
		}
	})
	c.Coverage["handshake_variants_run"] = done
	c.Coverage["handshake_variants_refused_at_upgrade"] = refused
	a.add(done, done-refused, "handshake headers: the upgrade request carries credentials of other schemes (Basic with non-text / empty / very long / odd user names, garbage Bearer, Digest), client ids that are not text, empty, very long or full of label metacharacters, non-text and very long proxy / CDN headers and cookies; the client then joins a witness's session, adds and moves an entity, creates a session of its own, adds an entity and a type there and closes: either the upgrade is refused or everything is answered, the departure goes the normal way, the gauges return and the witness is served; non-trivial when the upgrade was accepted",
		map[string]any{"engine": "E4 handshake headers", "variants": done, "refused": refused})
}
