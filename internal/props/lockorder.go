package props

import (
	"fmt"
	"sort"
	"strings"

	"verif/internal/check"
	"verif/internal/e1"
	"verif/internal/sut"
)

// partLockOrder: the lock-order monitor. Sequential histories of every profile
// and the step-through / concurrent-block runs of this check execute on lab
// SUTs whose Lock/RLock/Unlock statements report to verifrt (lock classes =
// owning type + field). An edge A -> B means some goroutine asked for B while
// holding A. A cycle in the graph is a pair (or ring) of code paths that take
// the same locks in opposite orders: some schedule of concurrent clients
// deadlocks on it, whether or not this run hit that schedule.
func partLockOrder(c *check.Ctx, a *acc, victims []string) {
	bin, err := c.WS.Build("lab", "plain")
	if err != nil {
		c.Inconc("build failed: " + err.Error())
		return
	}
	b := e1Batch{Profiles: []string{"mixed", "component", "subscribe", "module", "departure", "registry", "view", "relay", "owner"}, Histories: c.Pick(72, 360), Steps: c.Pick(80, 140), MaxConns: 5, MaxSess: 3}
	res := e1.RunPool(c.WS, bin, sut.LabOpts{Frame: 2_000_000, Locks: true, Name: "locks"}, b.configs(c.Seed+77), 12, true)
	if res.StartErr != nil {
		c.Inconc("SUT start failed: " + res.StartErr.Error())
	}
	for _, f := range res.Failures {
		c.Report(e1Finding(f))
	}
	for _, s := range res.Inconclusive {
		c.Inconc(s)
	}
	stepLocks = true
	partStepThrough(c, a, victims)
	partStepPairs(c, a, [][2]string{{"leave", "join2"}, {"leave", "leave2"}, {"lastleave", "join2"}, {"delete", "leave2"}, {"compadd-vs-leave", "join2"}})
	stepLocks = false
	edges, acqs := c.WS.LockGraph()
	adj := map[string][]sut.LockEdge{}
	classes := map[string]bool{}
	for _, e := range edges {
		adj[e.From] = append(adj[e.From], e)
		classes[e.From], classes[e.To] = true, true
	}
	// cycles: for every edge A -> B look for a path B ~> A (graphs here have a dozen nodes)
	reported := map[string]bool{}
	var pathTo func(from, to string, seen map[string]bool) []sut.LockEdge
	pathTo = func(from, to string, seen map[string]bool) []sut.LockEdge {
		if seen[from] {
			return nil
		}
		seen[from] = true
		for _, e := range adj[from] {
			if e.To == to {
				return []sut.LockEdge{e}
			}
			if p := pathTo(e.To, to, seen); p != nil {
				return append([]sut.LockEdge{e}, p...)
			}
		}
		return nil
	}
	cycles := 0
	for _, e := range edges {
		back := pathTo(e.To, e.From, map[string]bool{})
		if back == nil {
			continue
		}
		ring := append([]sut.LockEdge{e}, back...)
		var names []string
		for _, r := range ring {
			names = append(names, r.From)
		}
		sort.Strings(names)
		key := strings.Join(names, " / ")
		if reported[key] {
			continue
		}
		reported[key] = true
		cycles++
		var desc []string
		for _, r := range ring {
			desc = append(desc, fmt.Sprintf("%s (taken at %s) then %s (at %s) [%d times]", r.From, r.FromSite, r.To, r.ToSite, r.Count))
		}
		c.Report(&check.Finding{Props: []string{"C09"}, Clause: "lock-order/cycle", Trigger: key, Engine: "lock-order monitor",
			Detail: "the locks of the session model are taken in opposite orders by different code paths, so concurrent requests on different connections can block one another forever: " + strings.Join(desc, "; ")})
	}
	var es []string
	for _, e := range edges {
		es = append(es, fmt.Sprintf("%s -> %s (%d)", e.From, e.To, e.Count))
	}
	c.Coverage["lock_order_acquisitions_observed"] = acqs
	c.Coverage["lock_order_classes_in_nested_acquisitions"] = len(classes)
	c.Coverage["lock_order_edges"] = es
	c.Coverage["lock_order_cycles"] = cycles
	c.Coverage["lock_order_histories"] = res.Histories
	nt := 0
	if len(edges) > 0 {
		nt = res.Histories
	}
	a.add(res.Histories, nt, fmt.Sprintf("lock-order monitor: every Lock / RLock / Unlock statement of the instrumented packages reports its lock class; %d acquisitions, %d nested-acquisition edges over %d classes observed in sequential histories of all profiles and in the step-through runs; a cycle among the edges is reported as a reachable deadlock", acqs, len(edges), len(classes)),
		map[string]any{"engine": "lock-order monitor", "edges": es})
}

// stepLocks makes partStepThrough start its SUTs with the lock-order monitor.
var stepLocks bool
