package props

import (
	"bytes"
	"encoding/json"
	"fmt"
	"math/rand"
	"os/exec"
	"sort"
	"strings"
	"sync"
	"time"
	"verif/internal/e1"
	"verif/internal/e2"

	"github.com/aukilabs/hagall-common/messages/dagazpb"

	"verif/internal/check"
	d "verif/internal/driver"
	"verif/internal/scen"
	"verif/internal/sut"
)

func c20f(clause, trigger, format string, a ...any) *check.Finding {
	return &check.Finding{Props: []string{"C20"}, Clause: clause, Trigger: trigger, Detail: fmt.Sprintf(format, a...), Engine: "C20 grid"}
}

type e6Result struct {
	Sequences      int            `json:"sequences"`
	Insertions     int            `json:"insertions"`
	Merges         int            `json:"merges"`
	Appends        int            `json:"appends"`
	GridGrowths    int            `json:"grid_growths"`
	GrowthDirs     map[string]int `json:"growth_directions"`
	InvariantEvals int            `json:"invariant_evaluations"`
	NonTrivial     int            `json:"nontrivial_sequences"`
	MaxPlanes      int            `json:"max_planes"`
	MaxCells       int            `json:"max_cells"`
	PrimitiveCases int            `json:"primitive_cases"`
	Violations     []struct {
		Clause  string          `json:"clause"`
		Detail  string          `json:"detail"`
		Seq     int64           `json:"seq"`
		Inserts json.RawMessage `json:"inserts"`
	} `json:"violations"`
	Samples json.RawMessage `json:"samples"`
}

// partGridInVivo: E6 - the real RegularGrid and primitives driven in child
// processes (one per batch; each logs the input in flight before using it).
func partGridInVivo(c *check.Ctx, a *acc) {
	bin, err := c.WS.BuildMain("./sut/e6grid", "plain")
	if err != nil {
		c.Inconc("build failed: " + err.Error())
		return
	}
	batches := 16
	per := c.Pick(150, 1500)
	var mu sync.Mutex
	total := e6Result{GrowthDirs: map[string]int{}}
	var sample json.RawMessage
	parallel(batches, 16, func(i int) {
		cmd := exec.Command("/bin/sh", "-c", fmt.Sprintf("ulimit -v 4000000; exec %s -seed %d -n %d -prim %d", bin, c.Seed*100+int64(i), per, c.Pick(2000, 20000)))
		var out, errb bytes.Buffer
		cmd.Stdout, cmd.Stderr = &out, &errb
		done := make(chan error, 1)
		go func() { done <- cmd.Run() }()
		var runErr error
		select {
		case runErr = <-done:
		case <-time.After(10 * time.Minute):
			cmd.Process.Kill()
			c.Inconc("C20: grid batch exceeded its watchdog")
			return
		}
		lastInput := ""
		if l := strings.TrimSpace(errb.String()); l != "" {
			lines := strings.Split(l, "\n")
			for k := len(lines) - 1; k >= 0; k-- {
				if strings.HasPrefix(lines[k], "seq ") {
					lastInput = lines[k]
					break
				}
			}
		}
		var r e6Result
		if runErr != nil || json.Unmarshal(out.Bytes(), &r) != nil {
			tail := errb.String()
			if i := strings.Index(tail, "panic:"); i >= 0 {
				tail = tail[i:]
			}
			if len(tail) > 2500 {
				tail = tail[:2500]
			}
			c.Report(c20f("grid/crash", "insertion-sequence", "the grid child process failed (%v) while handling input [%s]:\n%s", runErr, lastInput, tail))
			return
		}
		mu.Lock()
		defer mu.Unlock()
		total.Sequences += r.Sequences
		total.Insertions += r.Insertions
		total.Merges += r.Merges
		total.Appends += r.Appends
		total.GridGrowths += r.GridGrowths
		total.InvariantEvals += r.InvariantEvals
		total.NonTrivial += r.NonTrivial
		total.PrimitiveCases += r.PrimitiveCases
		for k, v := range r.GrowthDirs {
			total.GrowthDirs[k] += v
		}
		if r.MaxPlanes > total.MaxPlanes {
			total.MaxPlanes = r.MaxPlanes
		}
		if r.MaxCells > total.MaxCells {
			total.MaxCells = r.MaxCells
		}
		if sample == nil && len(r.Samples) > 4 {
			sample = r.Samples
		}
		for _, v := range r.Violations {
			trig := "insertion-sequence"
			if strings.HasPrefix(v.Clause, "primitive/") {
				trig = "primitive"
			}
			c.Report(&check.Finding{Props: []string{"C20"}, Clause: v.Clause, Trigger: trig, Engine: "E6 grid in vivo",
				Detail: fmt.Sprintf("%s (sequence seed %d; insertions [cx cy cz ex ez]: %s)", v.Detail, v.Seq, string(v.Inserts))})
		}
	})
	c.Coverage["grid_sequences"] = total.Sequences
	c.Coverage["grid_insertions"] = total.Insertions
	c.Coverage["grid_merges"] = total.Merges
	c.Coverage["grid_appends"] = total.Appends
	c.Coverage["grid_growths"] = total.GridGrowths
	c.Coverage["grid_growth_directions"] = total.GrowthDirs
	c.Coverage["grid_invariant_evaluations"] = total.InvariantEvals
	c.Coverage["grid_max_planes"] = total.MaxPlanes
	c.Coverage["grid_max_cells"] = total.MaxCells
	c.Coverage["primitive_cases_vs_exact_reference"] = total.PrimitiveCases
	a.add(total.Sequences, total.NonTrivial, "E6: seeded sequences of 1-60 finite quads (|coord| <= 64, extents in (0,4], clustered heights, a drifting cursor so that merges, merge cascades and growth in all four directions happen) inserted into the real RegularGrid in a child process; after every insertion: every stored plane registered in every cell its footprint strictly overlaps (float64, 1e-3 margin), whole-grid region query returns each plane once, vertical ray through each centre hits, footprints within bounds, PlaneCount = distinct planes, no ragged rows, bounds consistent with cell count; primitives (dot, cross, normal, ray-quad) against math/big references; a sequence is distinct by seed and non-trivial with >= 1 merge and >= 1 grid growth",
		map[string]any{"engine": "E6 grid in vivo", "sequences_[cx cy cz ex ez]": sample})
}

// partGridWire: samples are shared by the participants of a session and kept
// for as long as the session lives (later joins and departures do not lose them).
func partGridWire(c *check.Ctx, a *acc) {
	bin, err := c.WS.Build("lab", "plain")
	if err != nil {
		c.Inconc("build failed: " + err.Error())
		return
	}
	p, err := c.WS.StartLab(bin, sut.LabOpts{Name: "gridwire"})
	if err != nil {
		c.Inconc(err.Error())
		return
	}
	defer p.Kill()
	n := c.Pick(40, 400)
	nontrivial := 0
	type view struct {
		planes uint32
		quads  []string
	}
	look := func(cl *scen.C) (view, error) {
		var v view
		a1, _, err := cl.Do(&dagazpb.DagazGetDebugInfoRequest{Type: d.TDebugInfoReq, Timestamp: d.NewTag(), RequestId: cl.NextReqID()})
		if err != nil || a1 == nil {
			return v, fmt.Errorf("debug info: %v %v", a1, err)
		}
		di, ok := a1.M.(*dagazpb.DagazGetDebugInfoResponse)
		if !ok {
			return v, fmt.Errorf("debug info answered %s", a1)
		}
		v.planes = di.GridPlaneCount
		a2, _, err := cl.Do(&dagazpb.DagazGetRegionRequest{Type: d.TRegionReq, Timestamp: d.NewTag(), RequestId: cl.NextReqID(),
			Min: &dagazpb.Point{X: -200, Z: -200}, Max: &dagazpb.Point{X: 200, Z: 200}})
		if err != nil || a2 == nil {
			return v, fmt.Errorf("region: %v %v", a2, err)
		}
		rr, ok := a2.M.(*dagazpb.DagazGetRegionResponse)
		if !ok {
			return v, fmt.Errorf("region answered %s", a2)
		}
		for _, q := range rr.Quads {
			v.quads = append(v.quads, fmt.Sprintf("%v|%v|%d", q.Center, q.Extents, q.MergeCount))
		}
		sort.Strings(v.quads)
		return v, nil
	}
	same := func(x, y view) bool {
		return x.planes == y.planes && strings.Join(x.quads, ";") == strings.Join(y.quads, ";")
	}
	for i := 0; i < n && c.Violations() == 0; i++ {
		func() {
			defer func() {
				if r := recover(); r != nil {
					c.Inconc(fmt.Sprint("C20 wire: ", r))
				}
			}()
			r := rand.New(rand.NewSource(c.Seed*5003 + int64(i)))
			p1 := scen.MustDial(p, "vod")
			defer p1.Close()
			if _, _, err := p1.Join(""); err != nil {
				panic(err)
			}
			var samples []*dagazpb.Quad
			for k := 0; k < 1+r.Intn(12); k++ {
				samples = append(samples, &dagazpb.Quad{Center: &dagazpb.Point{X: float32(r.Float64()*40 - 20), Y: float32(r.Intn(3)), Z: float32(r.Float64()*40 - 20)},
					Extents: &dagazpb.Point{X: float32(0.2 + r.Float64()*3), Z: float32(0.2 + r.Float64()*3)}})
			}
			if err := p1.Send(&dagazpb.DagazQuadSample{Type: d.TQuadSample, Timestamp: d.NewTag(), Samples: samples}); err != nil {
				panic(err)
			}
			v1, err := look(p1)
			if err != nil {
				panic(err)
			}
			if int(v1.planes) != len(v1.quads) {
				c.Report(c20f("wire/region-vs-plane-count", "whole-region", "after %d samples the index reports %d planes but a region query covering everything returns %d", len(samples), v1.planes, len(v1.quads)))
			}
			// a second participant joins: it must see the same samples, and the first still does
			p2 := scen.MustDial(p, "vod")
			defer p2.Close()
			if _, _, err := p2.Join(p1.SID); err != nil {
				panic(err)
			}
			v2, err := look(p2)
			if err != nil {
				panic(err)
			}
			v1b, err := look(p1)
			if err != nil {
				panic(err)
			}
			if !same(v1, v2) || !same(v1, v1b) {
				c.Report(c20f("wire/samples-not-shared-or-lost-on-join", "later-join", "participant 1 inserted %d samples and saw %d planes; after a second participant joined, it sees %d planes and the newcomer %d (quads before: %v; newcomer: %v)", len(samples), v1.planes, v1b.planes, v2.planes, v1.quads, v2.quads))
				return
			}
			// the inserter leaves, a third participant joins: the samples are still there
			p1.Close()
			if ok, _ := scen.Departed(p, p1, 8*time.Second); !ok {
				panic("departure did not complete")
			}
			p3 := scen.MustDial(p, "vod")
			defer p3.Close()
			if _, _, err := p3.Join(p2.SID); err != nil {
				panic(err)
			}
			v3, err := look(p3)
			if err != nil {
				panic(err)
			}
			if !same(v1, v3) {
				c.Report(c20f("wire/samples-lost-on-departure", "departure", "after the inserting participant left and a third joined, %d planes are visible instead of %d", v3.planes, v1.planes))
				return
			}
			if v1.planes >= 1 {
				nontrivial++
			}
			for _, cl := range []*scen.C{p2, p3} {
				cl.Close()
				scen.Departed(p, cl, 8*time.Second)
			}
		}()
	}
	c.Coverage["wire_sharing_scenarios"] = n
	a.add(n, nontrivial, "wire: one participant inserts 1-12 samples; a later joiner, the inserter itself after that join, and a third joiner after the inserter has left must all see the same planes (debug info + whole-region query)",
		map[string]any{"engine": "C20 wire", "script": "p1 join; p1 quad samples; p1 look; p2 join; p2 look; p1 look; p1 leaves; p3 join; p3 look"})
}

func init() {
	registry["C20"] = func(c *check.Ctx) int {
		a := &acc{}
		partGridInVivo(c, a)
		partGridWire(c, a)
		partE1(c, a, e1Batch{Profiles: []string{"dagaz"}, Histories: c.Pick(60, 600), Steps: c.Pick(100, 160), MaxConns: 5, MaxSess: 3, Mods: []string{"vod", "d"}},
			"at least 8 samples were inserted and both a plane count and a whole-grid listing were answered and matched",
			func(s *e1.Stats) bool {
				return s.Accepted["dz_quad"] >= 4 && s.Accepted["dz_info"] >= 1 && s.Accepted["dz_region"] >= 1
			})
		partDagazStorm(c, a)
		partStepThrough(c, a, []string{"join-vs-lastleave", "lastleave", "switch"}) // planes are kept while the session lives, also across a last departure that a join overtakes
		partRealBinaryIntegrity(c, a, true)
		return a.finish(c)
	}
}

// partDagazStorm: concurrent insertions and queries on one session's grid.
func partDagazStorm(c *check.Ctx, a *acc) {
	bin, err := c.WS.Build("lab", "plain")
	if err != nil {
		c.Inconc("build failed: " + err.Error())
		return
	}
	n := c.Pick(8, 64)
	var mu sync.Mutex
	done, inserted, queries := 0, 0, 0
	parallel(n, 4, func(i int) {
		opts := sut.LabOpts{Name: "dagazstorm"}
		if i%2 == 1 {
			opts.RT = "jitter"
		}
		p, err := c.WS.StartLab(bin, opts)
		if err != nil {
			c.Inconc(err.Error())
			return
		}
		defer p.Kill()
		st := e2.DagazStorm(p, 3+i%4, 20+(i*5)%30, c.Seed*131+int64(i))
		mu.Lock()
		defer mu.Unlock()
		if st.Inconclusive != "" {
			c.Inconc(st.Inconclusive)
			return
		}
		done++
		inserted += st.Inserted
		queries += st.Queries
		for _, f := range st.Findings {
			c.Report(f)
		}
	})
	c.Coverage["dagaz_storms"] = done
	c.Coverage["dagaz_storm_samples_inserted_concurrently"] = inserted
	c.Coverage["dagaz_storm_query_answers_checked"] = queries
	a.add(done, done, "E2 dagaz storms: 3-6 members of one session insert 20-50 never-overlapping unit samples each at the same time (grid growing in all directions) while half of them query; then all members pipeline 30 whole-grid queries at once; plane count, every region answer (no plane twice, nothing foreign, exact when nothing is being inserted) and a vertical ray through each sample",
		map[string]any{"engine": "E2 dagaz storm", "storms": done, "samples": inserted, "answers_checked": queries})
}
