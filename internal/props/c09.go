package props

import (
	"fmt"
	"strings"
	"sync"
	"time"

	"verif/internal/check"
	"verif/internal/e1"
	"verif/internal/e3"
	"verif/internal/fakes"
	"verif/internal/scen"
	"verif/internal/sut"
)

// partRaceStorms: E3 - storms of 2-16 unsynchronised clients on a -race build
// of the lab SUT (production decorators, all modules), free-running and under
// jitter, repeated because race reports vary from run to run.
func partRaceStorms(c *check.Ctx, a *acc) {
	bin, err := c.WS.Build("lab", "race")
	if err != nil {
		c.Inconc("race build failed: " + err.Error())
		return
	}
	execs := c.Pick(18, 96)
	var mu sync.Mutex
	var total e3.StormResult
	reports := map[string]*e3.RaceReport{}
	allReports, done, nontrivial := 0, 0, 0
	var samples []any
	parallel(execs, 6, func(i int) {
		frames := []time.Duration{time.Millisecond, 5 * time.Millisecond, 15 * time.Millisecond}
		opts := sut.LabOpts{Frame: frames[i%3], Race: true, Name: "race"}
		if i%2 == 0 {
			// the periodic workers of a connection run during the storm as well: sync
			// clock (production 5 s) and the log summary of the logging decorator (1 min)
			opts.Sync, opts.LogSum = 20*time.Millisecond, 3*time.Millisecond
		}
		if i%2 == 1 {
			opts.RT = "jitter"
		}
		p, err := c.WS.StartLab(bin, opts)
		if err != nil {
			c.Inconc(err.Error())
			return
		}
		defer p.Kill()
		if i%2 == 1 {
			p.RT(fmt.Sprintf("op=mode&v=1&rate=%d&seed=%d", 3000+500*(i%7), c.Seed*31+int64(i)))
		}
		cfg := e3.StormCfg{Seed: c.Seed*101 + int64(i), Clients: 2 + (i*5)%15, Sessions: 1 + i%3, Ops: c.Pick(160, 300), Mods: "vod"}
		res := e3.Storm(p, cfg)
		alive := p.Alive()
		var exit, tail string
		if !alive {
			exit, tail = p.ExitInfo(), p.CrashHead(4000)
		}
		// wedge oracle: every client finished (Storm returned), so only leftovers matter
		var stuck []string
		if alive {
			d1, e1_ := p.Goroutines()
			time.Sleep(300 * time.Millisecond)
			d2, e2_ := p.Goroutines()
			if e1_ == nil && e2_ == nil {
				stuck = e1.StuckGoroutines(d1, d2)
			}
		}
		p.Kill()
		n, hs := e3.ParseRaces(p.RaceReports())
		mu.Lock()
		defer mu.Unlock()
		done++
		allReports += n
		total.Requests += res.Requests
		total.Answers += res.Answers
		total.Relays += res.Relays
		total.Joins += res.Joins
		total.Switches += res.Switches
		total.Reconnects += res.Reconnects
		total.Overlaps += res.Overlaps
		if res.MaxConcurrent > total.MaxConcurrent {
			total.MaxConcurrent = res.MaxConcurrent
		}
		if cfg.Clients >= 2 && res.Overlaps > 0 {
			nontrivial++
			if len(samples) < 3 {
				samples = append(samples, map[string]any{"engine": "E3 race storm", "clients": cfg.Clients, "session_slots": cfg.Sessions, "ops_per_client": cfg.Ops,
					"frame": opts.Frame.String(), "jitter": opts.RT == "jitter", "requests": res.Requests, "overlapping_requests": res.Overlaps, "relays_received": res.Relays, "race_reports": n})
			}
		}
		for _, h := range hs {
			h := h
			if reports[h.Key] == nil {
				reports[h.Key] = &h
			} else {
				reports[h.Key].Count += h.Count
			}
		}
		if !alive {
			clause := "process/exited"
			if strings.Contains(tail, "concurrent map") {
				clause = "runtime/concurrent-map-access"
			}
			c.Report(&check.Finding{Props: []string{"C09", "C08"}, Clause: clause, Engine: "E3 race storm", Config: fmt.Sprintf("%+v", cfg),
				Detail: "the server process ended during a storm of concurrent clients: " + exit + "\n" + tail})
		}
		for _, u := range res.Unanswered {
			c.Report(&check.Finding{Props: []string{"C09"}, Clause: "liveness/request-never-completed", Engine: "E3 race storm", Config: fmt.Sprintf("%+v", cfg), Detail: u})
		}
		if len(stuck) > 0 {
			c.Report(&check.Finding{Props: []string{"C09", "C08"}, Clause: "liveness/wedged", Engine: "E3 race storm", Config: fmt.Sprintf("%+v", cfg),
				Detail: "after every client of the storm had finished, goroutines remain parked in hagall code:\n" + strings.Join(stuck, "\n---\n")})
		}
		for _, e := range res.Errors {
			c.Inconc(e)
		}
	})
	for _, r := range reports {
		c.Report(&check.Finding{Props: []string{"C09"}, Clause: "race", Trigger: r.Key, Engine: "E3 race storm",
			Detail: fmt.Sprintf("the race detector reported unsynchronised access (%d reports with this entry-point pair):\n%s", r.Count, r.Sample)})
	}
	c.Coverage["race_executions"] = done
	c.Coverage["race_reports_total"] = allReports
	c.Coverage["race_reports_hagall_distinct"] = len(reports)
	c.Coverage["storm_requests"] = total.Requests
	c.Coverage["storm_answers"] = total.Answers
	c.Coverage["storm_relays_received"] = total.Relays
	c.Coverage["storm_joins"] = total.Joins
	c.Coverage["storm_session_switches"] = total.Switches
	c.Coverage["storm_reconnects"] = total.Reconnects
	c.Coverage["storm_overlapping_requests"] = total.Overlaps
	c.Coverage["storm_max_outstanding_requests"] = total.MaxConcurrent
	a.add(done, nontrivial, "E3: a storm is one execution of a -race build of the lab SUT (production logging/metrics decorators, all modules) under 2-16 unsynchronised clients hopping among 1-3 sessions (all request kinds, joins, switches, abrupt reconnects, deferred updates at 1/5/15 ms frames), free-running or under stateless jitter at the injected scheduling points; distinct by seed/shape, non-trivial when at least 2 connections had requests outstanding at the same time; oracle: race-detector reports with a hagall frame (deduplicated by entry-point pair), runtime fatals, requests that never complete, goroutines left parked in hagall code", samples...)
}

// partRealBinaryStorms: the same storms against a -race build of the real
// binary (cmd/main.go wiring, production decorators, fake discovery service).
func partRealBinaryStorms(c *check.Ctx, a *acc) {
	bin, err := c.WS.Build("real", "race")
	if err != nil {
		c.Inconc("race build of the real binary failed: " + err.Error())
		return
	}
	execs := c.Pick(4, 24)
	var mu sync.Mutex
	done, nontrivial, allReports := 0, 0, 0
	var requests int64
	reports := map[string]*e3.RaceReport{}
	parallel(execs, 4, func(i int) {
		hds, err := fakes.NewHDS()
		if err != nil {
			c.Inconc(err.Error())
			return
		}
		defer hds.Close()
		p, err := c.WS.StartReal(bin, sut.RealOpts{HDS: hds.URL(), NCS: fakes.ClosedPortURL(), Race: true, Frame: []time.Duration{time.Millisecond, 5 * time.Millisecond, 15 * time.Millisecond}[i%3], Name: "realrace"})
		if err != nil {
			c.Inconc(err.Error())
			return
		}
		defer p.Kill()
		for k := 0; k < 4000 && hds.Secret() == ""; k++ {
			time.Sleep(10 * time.Millisecond)
		}
		secret := hds.Secret()
		if secret == "" {
			c.Inconc("the real binary did not register with the fake discovery service")
			return
		}
		token := signJWT("HS256", secret, map[string]any{"alg": "HS256", "typ": "JWT"}, map[string]any{"exp": time.Now().Add(time.Hour).Unix(), "app_key": "storm"})
		cfg := e3.StormCfg{Seed: c.Seed*211 + int64(i), Clients: 3 + (i*5)%13, Sessions: 1 + i%3, Ops: c.Pick(160, 300), Mods: "vod",
			Dial: func() (*scen.C, error) { return scen.DialReal(p, token) }}
		res := e3.Storm(p, cfg)
		alive := p.Alive()
		var exit, tail string
		if !alive {
			exit, tail = p.ExitInfo(), p.CrashHead(4000)
		}
		var stuck []string
		if alive {
			d1, e1_ := p.Goroutines()
			time.Sleep(300 * time.Millisecond)
			d2, e2_ := p.Goroutines()
			if e1_ == nil && e2_ == nil {
				stuck = e1.StuckGoroutines(d1, d2)
			}
		}
		p.Kill()
		n, hs := e3.ParseRaces(p.RaceReports())
		mu.Lock()
		defer mu.Unlock()
		done++
		allReports += n
		requests += res.Requests
		if res.Overlaps > 0 {
			nontrivial++
		}
		for _, h := range hs {
			h := h
			if reports[h.Key] == nil {
				reports[h.Key] = &h
			} else {
				reports[h.Key].Count += h.Count
			}
		}
		if !alive {
			c.Report(&check.Finding{Props: []string{"C09", "C08"}, Clause: "process/exited", Engine: "E3 race storm (real binary)", Config: fmt.Sprintf("%+v", cfg),
				Detail: "the real binary ended during a storm of concurrent clients: " + exit + "\n" + tail})
		}
		for _, u := range res.Unanswered {
			c.Report(&check.Finding{Props: []string{"C09"}, Clause: "liveness/request-never-completed", Engine: "E3 race storm (real binary)", Detail: u})
		}
		if len(stuck) > 0 {
			c.Report(&check.Finding{Props: []string{"C09", "C08"}, Clause: "liveness/wedged", Engine: "E3 race storm (real binary)",
				Detail: "after every client of the storm had finished, goroutines remain parked in hagall code:\n" + strings.Join(stuck, "\n---\n")})
		}
		for _, e := range res.Errors {
			c.Inconc("real binary storm: " + e)
		}
	})
	for _, r := range reports {
		c.Report(&check.Finding{Props: []string{"C09"}, Clause: "race", Trigger: r.Key, Engine: "E3 race storm (real binary)",
			Detail: fmt.Sprintf("the race detector reported unsynchronised access in the real binary (%d reports with this entry-point pair):\n%s", r.Count, r.Sample)})
	}
	c.Coverage["race_reports_inside_hagall_common_hdsclient_not_judged"] = e3.DependencyRaces
	c.Coverage["real_binary_race_executions"] = done
	c.Coverage["real_binary_race_reports_total"] = allReports
	c.Coverage["real_binary_storm_requests"] = requests
	a.add(done, nontrivial, "E3 on the real binary: the same storms against a -race build of cmd/main.go (registered with a fake discovery service, clients admitted with minted tokens), same oracles",
		map[string]any{"engine": "E3 race storm (real binary)", "executions": done, "requests": requests})
}

func init() {
	registry["C09"] = func(c *check.Ctx) int {
		a := &acc{}
		partRaceStorms(c, a)
		partRealBinaryStorms(c, a)
		partLockOrder(c, a, []string{"leave", "join", "switch", "delete", "lastleave", "create", "join-vs-lastleave"})
		partLagSenders(c, a) // relays held up by a slow member while addressees leave: nobody sends on what was torn down
		return a.finish(c)
	}
}
