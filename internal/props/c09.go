package props

import (
	"fmt"
	"strings"
	"sync"
	"time"

	"verif/internal/check"
	"verif/internal/e1"
	"verif/internal/e3"
	"verif/internal/sut"
)

// partRaceStorms: E3 - storms of 2-16 unsynchronised clients on a -race build
// of the lab SUT (production decorators, all modules), free-running and under
// jitter, repeated because race reports vary from run to run.
func partRaceStorms(c *check.Ctx, a *acc) {
	bin, err := c.WS.Build("lab", "race")
	if err != nil {
		c.Inconc("race build failed: " + err.Error())
		return
	}
	execs := c.Pick(12, 72)
	var mu sync.Mutex
	var total e3.StormResult
	reports := map[string]*e3.RaceReport{}
	allReports, done, nontrivial := 0, 0, 0
	var samples []any
	parallel(execs, 6, func(i int) {
		frames := []time.Duration{time.Millisecond, 5 * time.Millisecond, 15 * time.Millisecond}
		opts := sut.LabOpts{Frame: frames[i%3], Race: true, Name: "race"}
		if i%2 == 1 {
			opts.RT = "jitter"
		}
		p, err := c.WS.StartLab(bin, opts)
		if err != nil {
			c.Inconc(err.Error())
			return
		}
		defer p.Kill()
		if i%2 == 1 {
			p.RT(fmt.Sprintf("op=mode&v=1&rate=%d&seed=%d", 3000+500*(i%7), c.Seed*31+int64(i)))
		}
		cfg := e3.StormCfg{Seed: c.Seed*101 + int64(i), Clients: 2 + (i*5)%15, Sessions: 1 + i%3, Ops: c.Pick(160, 300), Mods: "vod"}
		res := e3.Storm(p, cfg)
		alive := p.Alive()
		var exit, tail string
		if !alive {
			exit, tail = p.ExitInfo(), p.CrashHead(4000)
		}
		// wedge oracle: every client finished (Storm returned), so only leftovers matter
		var stuck []string
		if alive {
			d1, e1_ := p.Goroutines()
			time.Sleep(300 * time.Millisecond)
			d2, e2_ := p.Goroutines()
			if e1_ == nil && e2_ == nil {
				stuck = e1.StuckGoroutines(d1, d2)
			}
		}
		p.Kill()
		n, hs := e3.ParseRaces(p.RaceReports())
		mu.Lock()
		defer mu.Unlock()
		done++
		allReports += n
		total.Requests += res.Requests
		total.Answers += res.Answers
		total.Relays += res.Relays
		total.Joins += res.Joins
		total.Switches += res.Switches
		total.Reconnects += res.Reconnects
		total.Overlaps += res.Overlaps
		if res.MaxConcurrent > total.MaxConcurrent {
			total.MaxConcurrent = res.MaxConcurrent
		}
		if cfg.Clients >= 2 && res.Overlaps > 0 {
			nontrivial++
			if len(samples) < 3 {
				samples = append(samples, map[string]any{"engine": "E3 race storm", "clients": cfg.Clients, "session_slots": cfg.Sessions, "ops_per_client": cfg.Ops,
					"frame": opts.Frame.String(), "jitter": opts.RT == "jitter", "requests": res.Requests, "overlapping_requests": res.Overlaps, "relays_received": res.Relays, "race_reports": n})
			}
		}
		for _, h := range hs {
			h := h
			if reports[h.Key] == nil {
				reports[h.Key] = &h
			} else {
				reports[h.Key].Count += h.Count
			}
		}
		if !alive {
			clause := "process/exited"
			if strings.Contains(tail, "concurrent map") {
				clause = "runtime/concurrent-map-access"
			}
			c.Report(&check.Finding{Props: []string{"C09", "C08"}, Clause: clause, Engine: "E3 race storm", Config: fmt.Sprintf("%+v", cfg),
				Detail: "the server process ended during a storm of concurrent clients: " + exit + "\n" + tail})
		}
		for _, u := range res.Unanswered {
			c.Report(&check.Finding{Props: []string{"C09"}, Clause: "liveness/request-never-completed", Engine: "E3 race storm", Config: fmt.Sprintf("%+v", cfg), Detail: u})
		}
		if len(stuck) > 0 {
			c.Report(&check.Finding{Props: []string{"C09", "C08"}, Clause: "liveness/wedged", Engine: "E3 race storm", Config: fmt.Sprintf("%+v", cfg),
				Detail: "after every client of the storm had finished, goroutines remain parked in hagall code:\n" + strings.Join(stuck, "\n---\n")})
		}
		for _, e := range res.Errors {
			c.Inconc(e)
		}
	})
	for _, r := range reports {
		c.Report(&check.Finding{Props: []string{"C09"}, Clause: "race", Trigger: r.Key, Engine: "E3 race storm",
			Detail: fmt.Sprintf("the race detector reported unsynchronised access (%d reports with this entry-point pair):\n%s", r.Count, r.Sample)})
	}
	c.Coverage["race_executions"] = done
	c.Coverage["race_reports_total"] = allReports
	c.Coverage["race_reports_hagall_distinct"] = len(reports)
	c.Coverage["storm_requests"] = total.Requests
	c.Coverage["storm_answers"] = total.Answers
	c.Coverage["storm_relays_received"] = total.Relays
	c.Coverage["storm_joins"] = total.Joins
	c.Coverage["storm_session_switches"] = total.Switches
	c.Coverage["storm_reconnects"] = total.Reconnects
	c.Coverage["storm_overlapping_requests"] = total.Overlaps
	c.Coverage["storm_max_outstanding_requests"] = total.MaxConcurrent
	a.add(done, nontrivial, "E3: a storm is one execution of a -race build of the lab SUT (production logging/metrics decorators, all modules) under 2-16 unsynchronised clients hopping among 1-3 sessions (all request kinds, joins, switches, abrupt reconnects, deferred updates at 1/5/15 ms frames), free-running or under stateless jitter at the injected scheduling points; distinct by seed/shape, non-trivial when at least 2 connections had requests outstanding at the same time; oracle: race-detector reports with a hagall frame (deduplicated by entry-point pair), runtime fatals, requests that never complete, goroutines left parked in hagall code", samples...)
}

func init() {
	registry["C09"] = func(c *check.Ctx) int {
		a := &acc{}
		partRaceStorms(c, a)
		return a.finish(c)
	}
}
