package props

import (
	"fmt"
	"sort"
	"strings"
	"time"

	"verif/internal/check"
	"verif/internal/e1"
)

// acc accumulates what the parts of one property check covered.
type acc struct {
	eval       int
	nontrivial int
	samples    []any
	rules      []string
	last       time.Time
	partSecs   []string // wall time per part, in the order run (evidence only; nothing is decided on it)
}

func (a *acc) add(eval, nontrivial int, rule string, samples ...any) {
	now := time.Now()
	if a.last.IsZero() {
		a.last = procStart
	}
	name := rule
	if i := strings.IndexAny(name, ":("); i > 0 {
		name = name[:i]
	}
	if len(name) > 48 {
		name = name[:48]
	}
	a.partSecs = append(a.partSecs, fmt.Sprintf("%s=%.1fs", strings.TrimSpace(name), now.Sub(a.last).Seconds()))
	a.last = now
	a.eval += eval
	a.nontrivial += nontrivial
	if rule != "" {
		a.rules = append(a.rules, rule)
	}
	for _, s := range samples {
		if len(a.samples) < 8 {
			a.samples = append(a.samples, s)
		}
	}
}

var procStart = time.Now()

func (a *acc) finish(c *check.Ctx) int {
	c.Coverage["wall_seconds_per_part"] = a.partSecs
	return c.Finish(a.eval, a.nontrivial, strings.Join(a.rules, " || "), a.samples)
}

// partE1 runs a batch of sequential histories and counts the non-trivial ones.
func partE1(c *check.Ctx, a *acc, b e1Batch, rule string, pred func(s *e1.Stats) bool) *e1.PoolResult {
	res := runE1(c, b)
	e1Coverage(c, res)
	n := 0
	var samples []any
	sort.Slice(res.PerHistory, func(i, j int) bool { return res.PerHistory[i].Cfg.Seed < res.PerHistory[j].Cfg.Seed })
	for _, h := range res.PerHistory {
		if h.Failed || !pred(h.Stats) {
			continue
		}
		n++
		if len(samples) < 2 {
			samples = append(samples, map[string]any{"engine": "E1 sequential history", "config": h.Cfg.String(), "first_steps": h.Head,
				"steps": h.Stats.Steps, "marks": h.Stats.Marks})
		}
	}
	c.Coverage["e1_marks"] = res.Stats.Marks
	a.add(res.Histories, n, "E1: seeded directed sequential histories (one outstanding request, session barrier after each, model+view+probe oracles); a history is distinct by its seed and non-trivial when "+rule, samples...)
	return res
}

func marks(s *e1.Stats, names ...string) bool {
	for _, n := range names {
		if s.Marks[n] == 0 {
			return false
		}
	}
	return true
}

func distinctReasons(s *e1.Stats) int { return len(s.RefusalReasons) }

func fmtf(f string, a ...any) string { return fmt.Sprintf(f, a...) }
