package props

import (
	"sync"
	"time"

	"verif/internal/check"
	"verif/internal/e1"
	"verif/internal/e4"
	"verif/internal/sut"
)

func partDepartureCauses(c *check.Ctx, a *acc) {
	bin, err := c.WS.Build("lab", "plain")
	if err != nil {
		c.Inconc("build failed: " + err.Error())
		return
	}
	var cases []e4.DepartureCase
	mixes := [][2]int{{1, 1}, {0, 2}, {2, 0}, {3, 2}, {0, 0}}
	if !c.Quick() {
		mixes = append(mixes, [2]int{1, 4}, [2]int{4, 1}, [2]int{2, 2})
	}
	for _, cause := range e4.Causes {
		for mi, m := range mixes {
			cases = append(cases, e4.DepartureCase{Cause: cause, Persistent: m[0], Volatile: m[1], SoleSubscriber: mi%2 == 0})
			if !c.Quick() {
				cases = append(cases, e4.DepartureCase{Cause: cause, Persistent: m[0], Volatile: m[1], SoleSubscriber: mi%2 == 1})
			}
		}
	}
	const idle = time.Second
	var mu sync.Mutex
	done, nontrivial, oracles := 0, 0, 0
	byCause := map[string]int{}
	var samples []any
	workers := 8
	parallel(workers, workers, func(w int) {
		var p *sut.Proc
		defer func() {
			if p != nil {
				p.Kill()
			}
		}()
		for i := w; i < len(cases); i += workers {
			dc := cases[i]
			if p == nil || !p.Alive() {
				var err error
				// every SUT of this part has the short idle timeout; the harness keeps its witnesses alive
				p, err = c.WS.StartLab(bin, sut.LabOpts{Frame: 2 * time.Millisecond, Idle: 20 * time.Second, Name: "dep"})
				if err != nil {
					c.Inconc(err.Error())
					return
				}
			}
			target := p
			if dc.Cause == "idle-timeout" {
				q, err := c.WS.StartLab(bin, sut.LabOpts{Frame: 2 * time.Millisecond, Idle: idle, Name: "depidle"})
				if err != nil {
					c.Inconc(err.Error())
					continue
				}
				target = q
			}
			out := e4.RunDeparture(target, dc, idle)
			if target != p {
				target.Kill()
			}
			mu.Lock()
			done++
			oracles += out.Checked
			byCause[dc.Cause]++
			if out.Inconclusive != "" {
				c.Inconc(out.Inconclusive)
			}
			for _, f := range out.Findings {
				c.Report(f)
			}
			if len(out.Findings) == 0 && out.Inconclusive == "" && dc.Persistent >= 1 && dc.Volatile >= 1 {
				nontrivial++
				if len(samples) < 4 {
					samples = append(samples, map[string]any{"engine": "E4 departure causes", "case": dc.String(), "oracles_evaluated": out.Checked})
				}
			}
			mu.Unlock()
			if len(out.Findings) > 0 {
				p.Kill()
				p = nil
			}
		}
	})
	c.Coverage["departure_cases"] = done
	c.Coverage["departure_cases_by_cause"] = byCause
	c.Coverage["departure_oracle_evaluations"] = oracles
	a.add(done, nontrivial, "E4 departure causes: every way a connection can end (FIN, RST, half-close, undecodable frame, missing timestamp, text frame, handler error, idle timeout with the witnesses kept alive, switch to another / to a new session) x mixes of persistent and non-persistent entities each carrying a component, an action and an asset x leaver being the sole subscriber or not; oracles: exactly one leave relay and one delete relay per non-persistent entity at each remaining member, state handed to a later joiner, subscription ended; a case is distinct by cause and mix and non-trivial when the leaver owned at least one persistent and one non-persistent entity with attachments", samples...)
}

func init() {
	registry["C06"] = func(c *check.Ctx) int {
		c.Level = "fault_enumeration"
		a := &acc{}
		partE1(c, a, e1Batch{Profiles: []string{"departure"}, Histories: c.Pick(160, 1600), Steps: c.Pick(110, 180), MaxConns: 5, MaxSess: 2},
			"a member owning at least one persistent and one non-persistent entity with an attachment departed while another member watched",
			func(s *e1.Stats) bool { return marks(s, "departure:rich") })
		partDepartureCauses(c, a)
		partStepThrough(c, a, []string{"leave", "switch", "lastleave", "join", "compadd-vs-leave", "action-vs-leave"})
		partStepPairs(c, a, [][2]string{{"leave", "leave2"}, {"leave", "join2"}, {"switch", "join2"}})
		partDepartureScripts(c, a)
		return a.finish(c)
	}
}
