package props

import (
	"fmt"
	"math"
	"strings"
	"time"

	"github.com/aukilabs/hagall-common/messages/hagallpb"

	"verif/internal/check"
	d "verif/internal/driver"
	"verif/internal/e2"
	"verif/internal/fakes"
	"verif/internal/scen"
	"verif/internal/sut"
)

// startReal starts the real binary (cmd/main.go) behind a fake discovery
// service and mints an access token; harness connections to the returned
// process present it (scen.Dial does so for a process with RealToken set).
func startReal(c *check.Ctx, o sut.RealOpts) (p *sut.Proc, stop func(), err error) {
	bin, err := c.WS.Build("real", "plain")
	if err != nil {
		return nil, nil, fmt.Errorf("real build failed: %w", err)
	}
	hds, err := fakes.NewHDS()
	if err != nil {
		return nil, nil, err
	}
	o.HDS = hds.URL()
	if o.NCS == "" {
		o.NCS = fakes.ClosedPortURL()
	}
	p, err = c.WS.StartReal(bin, o)
	if err != nil {
		hds.Close()
		return nil, nil, err
	}
	for k := 0; k < 1500 && hds.Secret() == ""; k++ {
		time.Sleep(10 * time.Millisecond)
	}
	if hds.Secret() == "" {
		p.Kill()
		hds.Close()
		return nil, nil, fmt.Errorf("the real binary did not register with the fake discovery service")
	}
	p.RealToken = signJWT("HS256", hds.Secret(), map[string]any{"alg": "HS256", "typ": "JWT"}, map[string]any{"exp": time.Now().Add(2 * time.Hour).Unix()})
	return p, func() { p.Kill(); hds.Close() }, nil
}

// partRealBinaryIntegrity: the integrity storm (and one dagaz storm) against
// the real binary: what cmd/main.go wires per connection (handler, modules,
// decorators, feature flags) and what it shares between connections (session
// registry, receipt queue) is the system under test here.
func partRealBinaryIntegrity(c *check.Ctx, a *acc, withDagaz bool) {
	p, stop, err := startReal(c, sut.RealOpts{Frame: 3 * time.Millisecond, Name: "realintegrity"})
	if err != nil {
		c.Inconc(err.Error())
		return
	}
	defer stop()
	n := c.Pick(3, 16)
	done, reqs, relays := 0, 0, 0
	for i := 0; i < n && p.Alive(); i++ {
		st := e2.IntegrityStorm(p, 2+i%2, 3+i%2, 30+(i*11)%30, c.Seed*7919+int64(i))
		if st.Inconclusive != "" {
			c.Inconc("real binary: " + st.Inconclusive)
			continue
		}
		done++
		reqs += st.Requests
		relays += st.Relays
		for _, f := range st.Findings {
			f.Engine = "E7 integrity storm (real binary)"
			f.Trigger += " (real binary)"
			c.Report(f)
		}
		if len(st.Findings) > 0 {
			break
		}
	}
	if withDagaz && p.Alive() {
		st := e2.DagazStorm(p, 4, 25, c.Seed)
		if st.Inconclusive != "" {
			c.Inconc("real binary: " + st.Inconclusive)
		}
		for _, f := range st.Findings {
			f.Engine = "E7 dagaz storm (real binary)"
			f.Trigger += " (real binary)"
			c.Report(f)
		}
	}
	c.Coverage["real_binary_integrity_storms"] = done
	c.Coverage["real_binary_integrity_requests"] = reqs
	c.Coverage["real_binary_integrity_relays_compared"] = relays
	a.add(done, done, "E7: integrity storms against the real binary (cmd/main.go wiring of handler, modules and decorators per connection; fake discovery service, minted token): same oracles as on the lab SUT",
		map[string]any{"engine": "E7 integrity storm (real binary)", "storms": done, "requests": reqs})
}

// partRealBinaryDefaults: the real binary with cmd/main.go's own defaults for
// the frame duration (15 ms), only the idle timeout set through its
// environment variable (2 s): pose updates are coalesced per frame and the
// latest one arrives within a few frames (C11); a silent client is
// disconnected after the idle timeout, one that keeps sending is not (C08).
func partRealBinaryDefaults(c *check.Ctx, a *acc, prop string) {
	p, stop, err := startReal(c, sut.RealOpts{Defaults: true, Env: []string{"HAGALL_CLIENT_IDLE_TIMEOUT=2s"}, Name: "realdefaults"})
	if err != nil {
		c.Inconc(err.Error())
		return
	}
	defer stop()
	defer func() {
		if r := recover(); r != nil {
			c.Inconc(fmt.Sprint("real binary defaults: ", r))
		}
	}()
	rf := func(props []string, clause, format string, x ...any) {
		c.Report(&check.Finding{Props: props, Clause: clause, Trigger: "real-binary-defaults", Engine: "E7 real binary defaults", Detail: fmt.Sprintf(format, x...)})
	}
	A, B, S := scen.MustDial(p, ""), scen.MustDial(p, ""), scen.MustDial(p, "")
	defer A.Close()
	defer B.Close()
	defer S.Close()
	if _, _, err := A.Join(""); err != nil {
		panic(err)
	}
	if _, _, err := B.Join(A.SID); err != nil {
		panic(err)
	}
	if _, _, err := S.Join(A.SID); err != nil {
		panic(err)
	}
	silentSince := time.Now()
	e, err := A.AddEntity(true, 0)
	if err != nil || e == 0 {
		panic(fmt.Sprint("entity add: ", err))
	}
	B.Barrier()
	evaluations := 0
	if prop == "C11" {
		for round := 0; round < c.Pick(6, 40); round++ {
			mark := len(B.LogCopy())
			t0 := time.Now()
			base := float32(1000 * (round + 1))
			for k := 1; k <= 12; k++ {
				if _, err := A.Pose(e, base+float32(k)); err != nil {
					panic(err)
				}
				time.Sleep(time.Millisecond)
			}
			span := time.Since(t0)
			// the last value must arrive; bounded wait in rounds of barriers
			var got []float32
			var tLast time.Time
			for i := 0; i < 400; i++ {
				B.Barrier()
				got = got[:0]
				for _, ev := range B.LogCopy()[mark:] {
					if pb, ok := ev.M.(*hagallpb.EntityUpdatePoseBroadcast); ok && pb.EntityId == e {
						got = append(got, pb.Pose.GetPx())
					}
				}
				if len(got) > 0 && got[len(got)-1] == base+12 {
					tLast = time.Now()
					break
				}
				time.Sleep(2 * time.Millisecond)
			}
			evaluations++
			if tLast.IsZero() {
				rf([]string{"C11"}, "pose/latest-never-relayed", "real binary with its default frame duration: 12 pose updates were sent within %v; two seconds later the observer has %v, not the last one", span, got)
				break
			}
			for i := 1; i < len(got); i++ {
				if got[i] <= got[i-1] {
					rf([]string{"C11"}, "pose/reordered-or-repeated", "real binary: the observer was relayed %v", got)
				}
			}
			frames := int(math.Ceil(float64(span)/float64(15*time.Millisecond))) + 3
			if len(got) > frames {
				rf([]string{"C11"}, "pose/not-coalesced-per-frame", "real binary with its default frame duration (15 ms): 12 updates sent within %v were relayed as %d messages (at most %d frames can have ended meanwhile): %v", span, len(got), frames, got)
			}
			if lat := tLast.Sub(t0.Add(span)); lat > 1500*time.Millisecond {
				rf([]string{"C11"}, "pose/latest-late", "real binary with its default frame duration (15 ms): the last of 12 updates was relayed %v after it was sent (100 frames)", lat)
			}
		}
	}
	if prop == "C08" {
		// A keeps sending, S has been silent since it joined
		closedAt := time.Duration(0)
		for time.Since(silentSince) < 9*time.Second {
			if _, err := A.Barrier(); err != nil {
				rf([]string{"C08"}, "idle/sender-disconnected", "real binary (HAGALL_CLIENT_IDLE_TIMEOUT=2s): a client that pinged every 300 ms was disconnected: %v", err)
				return
			}
			if S.IsClosed() && closedAt == 0 {
				closedAt = time.Since(silentSince)
				break
			}
			time.Sleep(300 * time.Millisecond)
		}
		evaluations++
		switch {
		case closedAt == 0:
			rf([]string{"C08"}, "idle/not-disconnected", "real binary started with HAGALL_CLIENT_IDLE_TIMEOUT=2s: a client silent for 9 s is still connected (the option does not reach the handler)")
		case closedAt < 1500*time.Millisecond:
			rf([]string{"C08"}, "idle/disconnected-early", "real binary started with HAGALL_CLIENT_IDLE_TIMEOUT=2s: a silent client was disconnected after %v", closedAt)
		}
		c.Coverage["real_binary_idle_disconnect_after"] = closedAt.String()
		// an offender in another session jams its own send path (1200 list requests
		// whose answers it never reads), then closes: FIN, then RST while the server
		// still has writes pending for it. The process and the other session live on.
		O := scen.MustDial(p, "")
		O.SetReadBuffer(8 << 10)
		if _, _, err := O.Join(""); err != nil {
			panic(err)
		}
		ot, err := O.AddType("jam")
		if err != nil {
			panic(err)
		}
		oe, err := O.AddEntity(true, 0)
		if err != nil {
			panic(err)
		}
		// (a 9 KB component: every list answer is large, the send path fills up)
		if _, err := O.AddComp(ot, oe, string(make([]byte, 9000))); err != nil {
			panic(err)
		}
		O.StopReading()
		for i := 0; i < 1200; i++ {
			if O.Send(&hagallpb.EntityComponentListRequest{Type: d.TCompListReq, Timestamp: d.NewTag(), RequestId: O.NextReqID(), EntityComponentTypeId: ot}) != nil {
				break
			}
		}
		// bounded wait until the server is stuck sending to the offender
		for i := 0; i < 100; i++ {
			if dump, err := p.Goroutines(); err == nil && strings.Contains(dump, "(*handler).sendMsg(") {
				break
			}
			A.Barrier() // (the idle timeout is 2 s: the witness keeps talking)
			time.Sleep(50 * time.Millisecond)
		}
		A.Barrier()
		O.HalfClose()
		time.Sleep(300 * time.Millisecond)
		O.Abort()
		O.ResumeReading()
		// the server gives up on the offender within the idle timeout (2 s) at the
		// latest and then writes to the reset socket once more; the witness talks on
		for i := 0; i < 12 && p.Alive(); i++ {
			if _, err := A.Barrier(); err != nil {
				break
			}
			time.Sleep(300 * time.Millisecond)
		}
		evaluations++
		if !p.Alive() {
			rf([]string{"C08"}, "process/exited", "real binary: after a client with 1200 unread answers closed its connection (FIN, then RST) the server process ended: %s\n%s", p.ExitInfo(), p.CrashHead(3000))
			return
		}
		if _, err := A.Barrier(); err != nil {
			rf([]string{"C08"}, "witness/other-session-affected", "real binary: after a client with 1200 unread answers closed its connection (FIN, then RST) a member of another session is no longer served: %v; process: alive=%v %s", err, p.Alive(), p.LogTail(1500))
			return
		}
	}
	if prop == "C11" {
		// the frame duration given through the environment reaches the sessions: with
		// 400 ms frames, 12 updates spread over 180 ms end up in one or two relays
		p2, stop2, err := startReal(c, sut.RealOpts{Defaults: true, Env: []string{"HAGALL_FRAME_DURATION=400ms"}, Name: "realframe"})
		if err != nil {
			c.Inconc(err.Error())
		} else {
			defer stop2()
			X, Y := scen.MustDial(p2, ""), scen.MustDial(p2, "")
			defer X.Close()
			defer Y.Close()
			if _, _, err := X.Join(""); err != nil {
				panic(err)
			}
			if _, _, err := Y.Join(X.SID); err != nil {
				panic(err)
			}
			xe, err := X.AddEntity(true, 0)
			if err != nil || xe == 0 {
				panic("entity add")
			}
			Y.Barrier()
			for round := 0; round < c.Pick(3, 12); round++ {
				mark := len(Y.LogCopy())
				base := float32(5000 * (round + 1))
				t0 := time.Now()
				for k := 1; k <= 12; k++ {
					X.Pose(xe, base+float32(k))
					time.Sleep(15 * time.Millisecond)
				}
				span := time.Since(t0)
				var got []float32
				for i := 0; i < 600; i++ {
					Y.Barrier()
					got = got[:0]
					for _, ev := range Y.LogCopy()[mark:] {
						if pb, ok := ev.M.(*hagallpb.EntityUpdatePoseBroadcast); ok && pb.EntityId == xe {
							got = append(got, pb.Pose.GetPx())
						}
					}
					if len(got) > 0 && got[len(got)-1] == base+12 {
						break
					}
					time.Sleep(5 * time.Millisecond)
				}
				evaluations++
				frames := int(math.Ceil(float64(span)/float64(400*time.Millisecond))) + 1
				if len(got) == 0 || got[len(got)-1] != base+12 {
					rf([]string{"C11"}, "pose/latest-never-relayed", "real binary with HAGALL_FRAME_DURATION=400ms: the last of 12 updates was not relayed within 3 s: %v", got)
					break
				}
				if len(got) > frames {
					rf([]string{"C11"}, "pose/not-coalesced-per-frame", "real binary started with HAGALL_FRAME_DURATION=400ms: 12 updates sent within %v were relayed as %d messages (at most %d frames of 400 ms can have ended): the configured frame duration does not reach the sessions: %v", span, len(got), frames, got)
					break
				}
			}
		}
	}
	a.add(evaluations, evaluations, "E7: the real binary with cmd/main.go's default frame duration and the idle timeout given through its environment variable: per-frame coalescing and arrival of the latest pose (C11) / idle disconnection of a silent client and survival of a sending one (C08)",
		map[string]any{"engine": "E7 real binary defaults", "property": prop, "evaluations": evaluations})
	_ = d.TPoseBcast
}

// partRealRegistryAcrossReregistration: the real binary re-registers with the
// discovery service in the middle of its life (health checks withheld) and is
// given a new server id and secret, as the fake service does at every
// registration. Sessions created before and after, a session that ends in
// between, joins naming ids of both epochs: at the end no two live sessions
// share a session id, every live session is found under the id its creator
// was given, with its uuid, and a session that ended is not found.
func partRealRegistryAcrossReregistration(c *check.Ctx, a *acc) {
	bin, err := c.WS.Build("real", "plain")
	if err != nil {
		c.Inconc("real build failed: " + err.Error())
		return
	}
	defer func() {
		if r := recover(); r != nil {
			c.Inconc(fmt.Sprint("registry across re-registration: ", r))
		}
	}()
	hds, err := fakes.NewHDS()
	if err != nil {
		panic(err)
	}
	defer hds.Close()
	p, err := c.WS.StartReal(bin, sut.RealOpts{HDS: hds.URL(), NCS: fakes.ClosedPortURL(), HealthTTL: 1500 * time.Millisecond, RegInterval: 200 * time.Millisecond, Frame: 5 * time.Millisecond, Name: "realrereg"})
	if err != nil {
		panic(err)
	}
	defer p.Kill()
	for k := 0; k < 1500 && hds.Secret() == ""; k++ {
		time.Sleep(10 * time.Millisecond)
	}
	if hds.Secret() == "" {
		panic("not registered")
	}
	mint := func() string {
		return signJWT("HS256", hds.Secret(), map[string]any{"alg": "HS256", "typ": "JWT"}, map[string]any{"exp": time.Now().Add(time.Hour).Unix()})
	}
	rf := func(props []string, clause, format string, x ...any) {
		c.Report(&check.Finding{Props: props, Clause: clause, Trigger: "real-binary-re-registration", Engine: "E7 registry across re-registration", Detail: fmt.Sprintf(format, x...)})
	}
	dial := func() *scen.C {
		cl, err := scen.DialReal(p, mint())
		if err != nil {
			panic(err)
		}
		return cl
	}
	create := func() *scen.C {
		cl := dial()
		jr, _, err := cl.Join("")
		if err != nil || jr == nil {
			panic(fmt.Sprint("creation failed: ", err))
		}
		return cl
	}
	A, B := create(), create()
	defer A.Close()
	defer B.Close()
	D := dial()
	defer D.Close()
	if jr, _, err := D.Join(B.SID); err != nil || jr == nil {
		panic("joining by id before the re-registration failed")
	}
	first := hds.Secret()
	hds.SetHealthChecks(false)
	rotated := false
	for i := 0; i < 2000; i++ {
		if s := hds.Secret(); s != first && s != "" {
			rotated = true
			break
		}
		time.Sleep(10 * time.Millisecond)
	}
	hds.SetHealthChecks(true)
	if !rotated {
		c.Inconc("registry across re-registration: the real binary did not re-register within the bound")
		return
	}
	aSID := A.SID
	gauge := func() float64 {
		ms, err := p.Metrics()
		if err != nil {
			panic(err)
		}
		return ms["session_count"]
	}
	g0 := gauge()
	A.Close()
	A.WaitClosed()
	// the session A created before the re-registration has lost its only member
	// after it: it ends like any other - the gauge of live sessions drops by one
	// (bounded wait for the departure to be processed)
	g1 := g0
	for k := 0; k < 300; k++ {
		if g1 = gauge(); g1 == g0-1 {
			break
		}
		time.Sleep(10 * time.Millisecond)
	}
	if g1 != g0-1 {
		rf([]string{"C07"}, "gauge/session-count", "a session created before a re-registration lost its only member after it; three seconds later the session gauge is %v (it was %v with that session): the session was not disposed of", g1, g0)
	}
	time.Sleep(150 * time.Millisecond)
	// two sessions are created (one takes over the numeric id that became free)
	live := []*scen.C{B}
	for i := 0; i < 2; i++ {
		cl := create()
		defer cl.Close()
		live = append(live, cl)
	}
	// joins naming the ended session, by the id of either epoch, while a live
	// session carries its numeric id under the new server id
	for _, sid := range []string{aSID, "srv2x" + aSID[strings.Index(aSID, "x")+1:], aSID} {
		E := dial()
		jr, _, err := E.Join(sid)
		if err == nil && jr != nil && jr.SessionUuid == A.UUID {
			rf([]string{"C07", "C10"}, "registry/ended-session-still-findable", "after a re-registration, the session %s (uuid %s) whose only member left can still be joined by id %q", aSID, A.UUID, sid)
		}
		E.Close()
		E.WaitClosed()
	}
	time.Sleep(100 * time.Millisecond)
	for i := 0; i < 3; i++ {
		cl := create()
		defer cl.Close()
		live = append(live, cl)
	}
	ids := map[string]*scen.C{}
	for _, cl := range live {
		if o, dup := ids[cl.SID]; dup && o.UUID != cl.UUID {
			rf([]string{"C10", "C07"}, "registry/two-live-sessions-one-id", "after a re-registration and one ended session, two live sessions (uuids %s and %s) were both given the session id %s", o.UUID, cl.UUID, cl.SID)
		}
		ids[cl.SID] = cl
	}
	for _, cl := range live {
		P := dial()
		jr, ev, err := P.Join(cl.SID)
		switch {
		case err != nil:
			panic(err)
		case jr == nil:
			code, _ := scen.IsErr(ev)
			rf([]string{"C07", "C10", "C04"}, "registry/live-session-not-findable", "after a re-registration, the live session %s (uuid %s; its creator is still connected) cannot be joined by the id its creator was given: error %d", cl.SID, cl.UUID, code)
		case jr.SessionUuid != cl.UUID:
			rf([]string{"C10", "C07"}, "registry/id-names-another-session", "after a re-registration, joining the id %s given to the creator of uuid %s lands in uuid %s", cl.SID, cl.UUID, jr.SessionUuid)
		}
		P.Close()
	}
	// everybody leaves: no live session is left, whatever epoch it was created in
	for _, cl := range live {
		cl.Close()
	}
	D.Close()
	for _, cl := range live {
		cl.WaitClosed()
	}
	D.WaitClosed()
	gEnd := gauge()
	for k := 0; k < 300 && gEnd != 0; k++ {
		time.Sleep(10 * time.Millisecond)
		gEnd = gauge()
	}
	if gEnd != 0 {
		rf([]string{"C07"}, "gauge/session-count", "after a re-registration every connection has left (sessions created before and after it); three seconds later the session gauge is %v, want 0", gEnd)
	}
	c.Coverage["real_binary_reregistration_live_sessions_checked"] = len(live)
	a.add(len(live)+2, len(live), "E7: the session registry of the real binary across a re-registration that changes its server id (sessions of both epochs, one ended in between, joins by ids of both epochs): live sessions have distinct ids and are found under the id their creator was given; the ended one is not found, the session gauge drops when it ends and is zero after everybody has left",
		map[string]any{"engine": "E7 registry across re-registration", "live_sessions": len(live)})
}
