package props

import (
	"fmt"
	"sync"
	"time"

	"verif/internal/check"
	"verif/internal/e1"
	"verif/internal/e2"
	"verif/internal/sut"
)

var blockClasses = []string{"mutation-x-mutation", "same-key-writers(action)", "join-x-mutation", "leave-x-mutation", "join-and-leave-x-mutation"}

// partConcurrent: E2 concurrent blocks (free-running and jittered) with the
// order-free oracles of C01 / C02.
func partConcurrent(c *check.Ctx, a *acc, prop string) {
	bin, err := c.WS.Build("lab", "plain")
	if err != nil {
		c.Inconc("build failed: " + err.Error())
		return
	}
	n := c.Pick(200, 2000)
	var mu sync.Mutex
	done, nontrivial, relays, views := 0, 0, 0, 0
	sigs := map[string]map[string]int{}
	var samples []any
	workers := 16
	parallel(workers, workers, func(w int) {
		var p *sut.Proc
		defer func() {
			if p != nil {
				p.Kill()
			}
		}()
		for i := w; i < n; i += workers {
			jitter := i%2 == 1
			if p == nil || !p.Alive() {
				var err error
				p, err = c.WS.StartLab(bin, sut.LabOpts{Frame: 2 * time.Millisecond, Name: "block"})
				if err != nil {
					c.Inconc(err.Error())
					return
				}
			}
			if jitter {
				p.RT(fmt.Sprintf("op=mode&v=1&rate=%d&seed=%d", 8000+1000*(i%9), c.Seed*77+int64(i)))
			} else {
				p.RT("op=mode&v=0")
			}
			class := blockClasses[i%len(blockClasses)]
			cfg := e1.Config{Seed: c.Seed*4_000_037 + int64(i)*6151 + 9, Steps: 25 + (i*7)%40, MaxConns: 5, MaxSess: 1, Mods: modSubsets[(i/len(blockClasses))%len(modSubsets)],
				Profile: "view", Avoid: avoidList()}
			res := e2.Block(c.WS, p, cfg, class)
			mu.Lock()
			done++
			relays += res.Relays
			views += res.ViewsCompared
			if res.Inconclusive != "" {
				// a prefix that leaves fewer than two members is not a block: counted, not judged
				if res.Inconclusive != "prefix left no session with two members" {
					c.Inconc(res.Inconclusive)
				}
			} else if len(res.Findings) == 0 && res.Senders >= 2 && res.Relays > 0 {
				nontrivial++
				if sigs[class] == nil {
					sigs[class] = map[string]int{}
				}
				if res.OrderSig != "" {
					sigs[class][res.OrderSig]++
				}
				if len(samples) < 3 {
					samples = append(samples, map[string]any{"engine": "E2 concurrent block", "class": class, "jitter": jitter, "prefix_steps": cfg.Steps, "block": res.Desc, "relay_order_at_witness": res.OrderSig})
				}
			}
			for _, f := range res.Findings {
				c.Report(f)
			}
			bad := len(res.Findings) > 0
			mu.Unlock()
			if bad {
				p.Kill()
				p = nil
			}
		}
	})
	distinct := 0
	for _, m := range sigs {
		distinct += len(m)
	}
	c.Coverage["concurrent_blocks"] = done
	c.Coverage["concurrent_block_relays_attributed"] = relays
	c.Coverage["concurrent_block_views_compared"] = views
	c.Coverage["concurrent_block_interleaving_signatures_by_class"] = sigs
	c.Coverage["concurrent_block_distinct_signatures"] = distinct
	a.add(done, nontrivial, "E2 concurrent blocks: after a sequential prefix judged by the model, 2-3 members of one session fire 1-4 requests each at once (classes: mutations on different keys, same-key writers, with a newcomer joining, with a member leaving, both), free-running or under jitter at injected scheduling points; after a frame barrier and a barrier on every connection: exactly-once / never-echoed / per-sender order by origin tag, and every member's folded view (and the newcomer's) against the state handed to a probe; non-trivial when at least 2 senders' relays were attributed", samples...)
}

func partStoreStress(c *check.Ctx, a *acc) {}
