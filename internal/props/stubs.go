package props

import "verif/internal/check"

func partConcurrent(c *check.Ctx, a *acc, prop string) {}
func partStoreStress(c *check.Ctx, a *acc)             {}
