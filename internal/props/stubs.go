package props

import (
	"bytes"
	"encoding/json"
	"fmt"
	"os/exec"
	"sort"
	"strings"
	"sync"
	"time"

	"verif/internal/check"
	"verif/internal/e1"
	"verif/internal/e2"
	"verif/internal/sut"
)

var blockClasses = []string{"mutation-x-mutation", "same-key-writers(action)", "join-x-mutation", "leave-x-mutation", "join-and-leave-x-mutation"}

// partConcurrent: E2 concurrent blocks (free-running and jittered) with the
// order-free oracles of C01 / C02.
func partConcurrent(c *check.Ctx, a *acc, prop string) {
	bin, err := c.WS.Build("lab", "plain")
	if err != nil {
		c.Inconc("build failed: " + err.Error())
		return
	}
	n := c.Pick(200, 2000)
	var mu sync.Mutex
	done, nontrivial, relays, views := 0, 0, 0, 0
	stepped, steppedReached := 0, 0
	stepSites := map[string]int{}
	sigs := map[string]map[string]int{}
	var samples []any
	workers := 16
	parallel(workers, workers, func(w int) {
		var p *sut.Proc
		defer func() {
			if p != nil {
				p.Kill()
			}
		}()
		pool := map[string]bool{}
		for i := w; i < n; i += workers {
			jitter := i%3 == 1
			var step *e2.Step
			if i%3 == 2 {
				// stepped block: park one arrival at a scheduling point the earlier
				// blocks of this worker passed (the first one only learns the points)
				step = &e2.Step{Hold: 25 * time.Millisecond}
				if len(pool) > 0 {
					var names []string
					for s := range pool {
						names = append(names, s)
					}
					sort.Strings(names)
					h := uint64(c.Seed)*0x9E3779B97F4A7C15 + uint64(i)*0xBF58476D1CE4E5B9
					h ^= h >> 31
					step.Site = names[h%uint64(len(names))]
					step.Skip = int((h >> 40) % 4)
					if (h>>50)%2 == 0 {
						step.Skip = 0
					}
				}
			}
			if p == nil || !p.Alive() {
				var err error
				p, err = c.WS.StartLab(bin, sut.LabOpts{Frame: 2 * time.Millisecond, Name: "block"})
				if err != nil {
					c.Inconc(err.Error())
					return
				}
			}
			if jitter {
				p.RT(fmt.Sprintf("op=mode&v=1&rate=%d&seed=%d", 8000+1000*(i%9), c.Seed*77+int64(i)))
			} else {
				p.RT("op=mode&v=0")
			}
			class := blockClasses[i%len(blockClasses)]
			cfg := e1.Config{Seed: c.Seed*4_000_037 + int64(i)*6151 + 9, Steps: 25 + (i*7)%40, MaxConns: 5, MaxSess: 1, Mods: modSubsets[(i/len(blockClasses))%len(modSubsets)],
				Profile: "view", Avoid: avoidList()}
			res := e2.BlockStepped(c.WS, p, cfg, class, step)
			for _, s := range res.SitesHit {
				if strings.HasPrefix(s, "models.") || strings.HasPrefix(s, "websocket.RealtimeHandler") || strings.HasPrefix(s, "vikja.") || strings.HasPrefix(s, "odal.") || strings.HasPrefix(s, "dagaz.") || strings.HasPrefix(s, "websocket.handler.") {
					pool[s] = true
				}
			}
			mu.Lock()
			done++
			if step != nil && step.Site != "" {
				stepped++
				if res.StepReached {
					steppedReached++
					stepSites[step.Site]++
				}
			}
			relays += res.Relays
			views += res.ViewsCompared
			if res.Inconclusive != "" {
				// a prefix that leaves fewer than two members is not a block: counted, not judged
				if res.Inconclusive != "prefix left no session with two members" {
					c.Inconc(res.Inconclusive)
				}
			} else if len(res.Findings) == 0 && res.Senders >= 2 && res.Relays > 0 {
				nontrivial++
				if sigs[class] == nil {
					sigs[class] = map[string]int{}
				}
				if res.OrderSig != "" {
					sigs[class][res.OrderSig]++
				}
				if len(samples) < 3 {
					samples = append(samples, map[string]any{"engine": "E2 concurrent block", "class": class, "jitter": jitter, "stepped": step != nil, "prefix_steps": cfg.Steps, "block": res.Desc, "relay_order_at_witness": res.OrderSig})
				}
			}
			for _, f := range res.Findings {
				c.Report(f)
			}
			bad := len(res.Findings) > 0
			mu.Unlock()
			if bad {
				p.Kill()
				p = nil
			}
		}
	})
	distinct := 0
	for _, m := range sigs {
		distinct += len(m)
	}
	c.Coverage["concurrent_blocks"] = done
	c.Coverage["concurrent_block_relays_attributed"] = relays
	c.Coverage["concurrent_block_views_compared"] = views
	c.Coverage["concurrent_block_interleaving_signatures_by_class"] = sigs
	c.Coverage["concurrent_block_distinct_signatures"] = distinct
	c.Coverage["stepped_blocks"] = stepped
	c.Coverage["stepped_blocks_gate_reached"] = steppedReached
	c.Coverage["stepped_blocks_distinct_sites_parked_at"] = len(stepSites)
	c.Coverage["stepped_blocks_sites"] = stepSites
	a.add(done, nontrivial, "E2 concurrent blocks: after a sequential prefix judged by the model, 2-3 members of one session fire 1-4 requests each at once (classes: mutations on different keys, same-key writers, with a newcomer joining, with a member leaving, both), free-running, under jitter at injected scheduling points, or stepped (one arrival at a scheduling point that earlier blocks passed is parked for 25 ms while the others run); after a frame barrier and a barrier on every connection: exactly-once / never-echoed / per-sender order by origin tag, and every member's folded view (and the newcomer's) against the state handed to a probe; non-trivial when at least 2 senders' relays were attributed", samples...)
}

// partIntegrityStorm: E2 integrity storms (pipelined requests with unique
// content from all members of two sessions at once).
func partIntegrityStorm(c *check.Ctx, a *acc) {
	bin, err := c.WS.Build("lab", "plain")
	if err != nil {
		c.Inconc("build failed: " + err.Error())
		return
	}
	n := c.Pick(16, 160)
	var mu sync.Mutex
	done, reqs, relays, answers := 0, 0, 0, 0
	workers := 8
	parallel(workers, workers, func(w int) {
		opts := sut.LabOpts{Frame: 3 * time.Millisecond, Name: "integrity"}
		if w%2 == 1 {
			opts.RT = "jitter"
		}
		p, err := c.WS.StartLab(bin, opts)
		if err != nil {
			c.Inconc(err.Error())
			return
		}
		defer p.Kill()
		for i := w; i < n; i += workers {
			if !p.Alive() {
				return
			}
			st := e2.IntegrityStorm(p, 2+i%2, 3+i%3, 30+(i*7)%40, c.Seed*1_000_003+int64(i))
			mu.Lock()
			if st.Inconclusive != "" {
				c.Inconc(st.Inconclusive)
			} else {
				done++
				reqs += st.Requests
				relays += st.Relays
				answers += st.Answers
			}
			for _, f := range st.Findings {
				c.Report(f)
			}
			bad := len(st.Findings) > 0
			mu.Unlock()
			if bad {
				return
			}
		}
	})
	c.Coverage["integrity_storms"] = done
	c.Coverage["integrity_storm_requests"] = reqs
	c.Coverage["integrity_storm_answers_matched"] = answers
	c.Coverage["integrity_storm_relays_attributed_and_compared"] = relays
	a.add(done, done, "E2 integrity storms: all members (3-5) of 2-3 sessions pipeline 30-70 requests each at once (custom messages, entity adds, actions and asset adds on own entities, all with unique content; request ids unique across connections), free-running or jittered; after barriers: every request id answered exactly once on its own connection, every accepted relay at every other member of its session exactly once, in the sender's order, with exactly the content sent, never at the sender, never in another session",
		map[string]any{"engine": "E2 integrity storm", "storms": done, "requests": reqs, "relays_compared": relays})
}

// partStoreStress: E6 - concurrent Add/Update/Delete/List/DeleteByEntityID on
// the real component store in a -race child, porcupine per key.
func partStoreStress(c *check.Ctx, a *acc) {
	bin, err := c.WS.BuildMain("./sut/e6store", "race")
	if err != nil {
		c.Inconc("build failed: " + err.Error())
		return
	}
	cmd := exec.Command(bin, "-seed", fmt.Sprint(c.Seed), "-n", fmt.Sprint(c.Pick(300, 3000)), "-mass", fmt.Sprint(c.Pick(400000, 1500000)))
	var out, errb bytes.Buffer
	cmd.Stdout, cmd.Stderr = &out, &errb
	done := make(chan error, 1)
	go func() { done <- cmd.Run() }()
	select {
	case err = <-done:
	case <-time.After(20 * time.Minute):
		cmd.Process.Kill()
		c.Inconc("C12: component store batch exceeded its watchdog")
		return
	}
	var r struct {
		Histories   int      `json:"histories"`
		Operations  int      `json:"operations"`
		KeyOps      int      `json:"per_key_operations_checked"`
		Overlapping int      `json:"histories_with_overlapping_operations"`
		Unknown     int      `json:"checker_timeouts"`
		TypeChecks  int      `json:"type_registration_checks"`
		MassNames   int      `json:"mass_registration_names"`
		Violations  []string `json:"violations"`
		Sample      []string `json:"sample_history"`
	}
	if err != nil || json.Unmarshal(out.Bytes(), &r) != nil {
		msg := errb.String()
		if len(msg) > 3000 {
			msg = msg[:3000]
		}
		c.Report(&check.Finding{Props: []string{"C12", "C09"}, Clause: "store/crash-or-race", Trigger: "component store", Engine: "E6 component store",
			Detail: fmt.Sprintf("the component store child (-race build) failed: %v\n%s", err, msg)})
		return
	}
	for _, v := range r.Violations {
		if strings.Contains(v, "type name") || strings.Contains(v, "type id") || strings.Contains(v, "GetType") {
			c.Report(&check.Finding{Props: []string{"C12", "C10"}, Clause: "type/registration-not-one-to-one", Trigger: "concurrent registration", Engine: "E6 component store", Detail: v})
			continue
		}
		c.Report(&check.Finding{Props: []string{"C12"}, Clause: "store/not-a-map", Trigger: "component store", Engine: "E6 component store", Detail: v})
	}
	for i := 0; i < r.Unknown; i++ {
		c.Inconc("porcupine timed out on a component store history")
	}
	c.Coverage["store_histories"] = r.Histories
	c.Coverage["store_operations"] = r.Operations
	c.Coverage["store_per_key_operations_checked"] = r.KeyOps
	c.Coverage["store_histories_with_overlapping_operations"] = r.Overlapping
	c.Coverage["store_type_registration_checks"] = r.TypeChecks
	c.Coverage["store_distinct_type_names_in_one_store"] = r.MassNames
	a.add(r.Histories, r.Overlapping, "E6: 2-5 goroutines run Add/Update/Delete/List/DeleteByEntityID with unique payloads on 6 keys of the real component store (-race child); the recorded history is checked with porcupine key by key against a register-per-key model (List and DeleteByEntityID decomposed per key); concurrent registration of the same and of different type names is checked for idempotence and mutual resolution; 400 000 (thorough: 1.5 million) distinct names of five shapes are registered in one store - every one gets its own id, resolves to it and back, and unregistered names do not resolve (enough names for any 32-bit digest of a name to collide); a history is non-trivial when operations overlapped",
		map[string]any{"engine": "E6 component store", "first_operations": r.Sample})
}

// partEntityAddStorm: ownership rests on ids nobody else holds (C05, C10).
func partEntityAddStorm(c *check.Ctx, a *acc) {
	bin, err := c.WS.Build("lab", "plain")
	if err != nil {
		c.Inconc("build failed: " + err.Error())
		return
	}
	n := c.Pick(4, 24)
	var mu sync.Mutex
	done, adds := 0, 0
	parallel(n, 2, func(i int) {
		p, err := c.WS.StartLab(bin, sut.LabOpts{Name: "addstorm"})
		if err != nil {
			c.Inconc(err.Error())
			return
		}
		defer p.Kill()
		st := e2.EntityAddStorm(p, 8+4*(i%3), 4000+2000*(i%2))
		mu.Lock()
		defer mu.Unlock()
		if st.Inconclusive != "" {
			c.Inconc(st.Inconclusive)
		} else {
			done++
			adds += st.Adds
		}
		for _, f := range st.Findings {
			c.Report(f)
		}
	})
	c.Coverage["entity_add_storms"] = done
	c.Coverage["entity_add_storm_ids_compared"] = adds
	a.add(done, done, "E2 entity-add storms: 8-16 members of one session pipeline 4000-6000 entity adds each at the same time (add relays switched off by the connections' own flag, so the load is id allocation); every add answered exactly once, no entity id given to two participants, and a newcomer is handed every entity with the participant that was told it created it",
		map[string]any{"engine": "E2 entity-add storm", "storms": done, "ids_compared": adds})
}
