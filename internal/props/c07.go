package props

import (
	"time"

	"verif/internal/check"
	"verif/internal/e1"
	"verif/internal/e2"
	"verif/internal/sut"
)

// partGated runs gated scenarios, each on a fresh lab SUT in sched mode.
func partGated(c *check.Ctx, a *acc, scenarios []func(*sut.Proc) *e2.Result, repeat int) {
	bin, err := c.WS.Build("lab", "plain")
	if err != nil {
		c.Inconc("build failed: " + err.Error())
		return
	}
	reached, runs := 0, 0
	sigs := map[string]int{}
	for rep := 0; rep < repeat; rep++ {
		for _, sc := range scenarios {
			p, err := c.WS.StartLab(bin, sut.LabOpts{Frame: 5 * time.Millisecond, RT: "sched", Name: "gated"})
			if err != nil {
				c.Inconc(err.Error())
				continue
			}
			res := sc(p)
			p.Kill()
			runs++
			if res.GateReached {
				reached++
			}
			if res.Signature != "" {
				sigs[res.Name+": "+res.Signature]++
			}
			if res.Inconclusive != "" {
				c.Inconc(res.Inconclusive)
			}
			for _, f := range res.Findings {
				c.Report(f)
			}
		}
	}
	c.Coverage["gated_runs"] = runs
	c.Coverage["gated_runs_gate_reached"] = reached
	c.Coverage["interleaving_signatures_observed"] = sigs
	samples := []any{}
	for s, n := range sigs {
		samples = append(samples, map[string]any{"engine": "E2 gated interleaving", "scenario_and_observed_order": s, "times": n})
	}
	a.add(runs, reached, "E2 gated: each scenario holds goroutines at injected scheduling points between critical sections (verifrt gates) to force one interleaving, then applies order-free oracles at quiescence; non-trivial when the gate was actually reached", samples...)
}

func init() {
	registry["C07"] = func(c *check.Ctx) int {
		a := &acc{}
		partE1(c, a, e1Batch{Profiles: []string{"registry", "isolation"}, Histories: c.Pick(160, 1600), Steps: c.Pick(100, 160), MaxConns: 6, MaxSess: 3, Census: true},
			"at least one session ended and its id was reused by a later session",
			func(s *e1.Stats) bool { return s.SessionsEnded >= 1 && s.SIDsReused >= 1 })
		partGated(c, a, []func(*sut.Proc) *e2.Result{e2.G1JoinVsLastLeave, e2.G2TwoLastLeaves, e2.G3LateUnregister}, c.Pick(2, 10))
		return a.finish(c)
	}
}
