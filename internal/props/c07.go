package props

import (
	"sync"
	"time"
	"verif/internal/scen"

	"verif/internal/check"
	"verif/internal/e1"
	"verif/internal/e2"
	"verif/internal/sut"
)

// partGated runs gated scenarios, each on a fresh lab SUT in sched mode.
func partGated(c *check.Ctx, a *acc, scenarios []func(*sut.Proc) *e2.Result, repeat int) {
	bin, err := c.WS.Build("lab", "plain")
	if err != nil {
		c.Inconc("build failed: " + err.Error())
		return
	}
	reached, runs := 0, 0
	sigs := map[string]int{}
	for rep := 0; rep < repeat; rep++ {
		for _, sc := range scenarios {
			p, err := c.WS.StartLab(bin, sut.LabOpts{Frame: 5 * time.Millisecond, RT: "sched", Name: "gated"})
			if err != nil {
				c.Inconc(err.Error())
				continue
			}
			res := sc(p)
			p.Kill()
			runs++
			if res.GateReached {
				reached++
			}
			if res.Signature != "" {
				sigs[res.Name+": "+res.Signature]++
			}
			if res.Inconclusive != "" {
				c.Inconc(res.Inconclusive)
			}
			for _, f := range res.Findings {
				if scen.DefaultFlags != "" {
					f.Props = append(f.Props, "C17")
					f.Trigger += " under all DISABLE_* flags"
				}
				c.Report(f)
			}
		}
	}
	c.Coverage["gated_runs"] = runs
	c.Coverage["gated_runs_gate_reached"] = reached
	c.Coverage["interleaving_signatures_observed"] = sigs
	samples := []any{}
	for s, n := range sigs {
		samples = append(samples, map[string]any{"engine": "E2 gated interleaving", "scenario_and_observed_order": s, "times": n})
	}
	a.add(runs, reached, "E2 gated: each scenario holds goroutines at injected scheduling points between critical sections (verifrt gates) to force one interleaving, then applies order-free oracles at quiescence; non-trivial when the gate was actually reached", samples...)
}

func init() {
	registry["C07"] = func(c *check.Ctx) int {
		a := &acc{}
		partE1(c, a, e1Batch{Profiles: []string{"registry", "isolation"}, Histories: c.Pick(160, 1600), Steps: c.Pick(100, 160), MaxConns: 6, MaxSess: 3, Census: true},
			"at least one session ended and its id was reused by a later session",
			func(s *e1.Stats) bool { return s.SessionsEnded >= 1 && s.SIDsReused >= 1 })
		partGated(c, a, []func(*sut.Proc) *e2.Result{e2.G1JoinVsLastLeave, e2.G2TwoLastLeaves, e2.G3LateUnregister, e2.G3cLastLeaveVsCreate}, c.Pick(2, 10))
		partRegistryStorms(c, a)
		partStepThrough(c, a, []string{"lastleave", "create", "switch", "join", "leave", "join-vs-lastleave", "switch-vs-lastleave"})
		partStepPairs(c, a, [][2]string{{"lastleave", "join2"}, {"lastleave", "leave2"}, {"switch", "join2"}, {"leave", "join2"}, {"join", "leave2"}})
		partRealRegistryAcrossReregistration(c, a) // sessions that outlive a change of the server id still end
		return a.finish(c)
	}
}

func partRegistryStorms(c *check.Ctx, a *acc) {
	bin, err := c.WS.Build("lab", "plain")
	if err != nil {
		c.Inconc("build failed: " + err.Error())
		return
	}
	n := c.Pick(8, 48)
	var mu sync.Mutex
	total, done := 0, 0
	races, racesAccepted := 0, 0
	parallel(n, 4, func(i int) {
		opts := sut.LabOpts{Name: "regstorm"}
		if i%2 == 1 {
			opts.RT = "jitter"
		}
		p, err := c.WS.StartLab(bin, opts)
		if err != nil {
			c.Inconc(err.Error())
			return
		}
		defer p.Kill()
		created, findings, inc := e2.RegistryStorm(p, 8, c.Pick(40, 120))
		nr, na, f2, inc2 := e2.JoinLeaveRaceStorm(p, 8, c.Pick(40, 160), c.Seed*31+int64(i))
		findings = append(findings, f2...)
		inc = append(inc, inc2...)
		mu.Lock()
		defer mu.Unlock()
		done++
		total += created
		races += nr
		racesAccepted += na
		for _, f := range findings {
			c.Report(f)
		}
		for _, s := range inc {
			c.Inconc(s)
		}
	})
	c.Coverage["registry_storms"] = done
	c.Coverage["registry_storm_sessions_created_and_probed"] = total
	c.Coverage["join_vs_last_departure_races"] = races
	c.Coverage["join_vs_last_departure_races_join_accepted"] = racesAccepted
	a.add(done, done, "registry storms: 8 pairs of connections create a session, join it by id at once and end it, concurrently (free-running or jittered): every just-created session with a live member must be joinable under its id with the same uuid; gauge and frame workers are checked at the end",
		map[string]any{"engine": "E2 registry storm", "pairs": 8, "sessions_created": total})
}
