package props

import (
	"fmt"
	"os"

	"verif/internal/check"
	"verif/internal/e1"
	"verif/internal/sut"
)

var modSubsets = []string{"vod", "", "v", "o", "d", "vo", "vd", "od"}

// e1Batch describes a batch of sequential histories for one property.
type e1Batch struct {
	Profiles  []string
	Histories int
	Steps     int
	MaxConns  int
	MaxSess   int
	Mods      []string
	Census    bool
	// Nontrivial decides whether a history counts for distinct_nontrivial.
	Nontrivial func(h e1.HistorySummary) bool
}

func (b e1Batch) configs(seed int64) []e1.Config {
	var out []e1.Config
	mods := b.Mods
	if len(mods) == 0 {
		mods = modSubsets
	}
	for i := 0; i < b.Histories; i++ {
		out = append(out, e1.Config{
			Seed:       seed*1_000_003 + int64(i)*7919 + 17,
			Steps:      b.Steps,
			MaxConns:   b.MaxConns,
			MaxSess:    b.MaxSess,
			Mods:       mods[i%len(mods)],
			Profile:    b.Profiles[i%len(b.Profiles)],
			CheckEvery: 1 + (i*3)%10,
			Census:     b.Census,
			Avoid:      avoidList(),
		})
	}
	return out
}

// avoidList: triggers of listed known findings that generic histories must
// not hit (each has its own deterministic reproducer).
func avoidList() []string {
	var out []string
	for _, k := range check.LoadKnown() {
		switch k.Sig {
		}
		_ = k
	}
	return out
}

// runE1 runs a batch and files the failures; it returns the pool result.
func runE1(c *check.Ctx, b e1Batch) *e1.PoolResult {
	bin, err := c.WS.Build("lab", "plain")
	if err != nil {
		fmt.Println(err)
		c.Inconc("build failed: " + err.Error())
		return &e1.PoolResult{}
	}
	res := e1.RunPool(c.WS, bin, sut.LabOpts{Frame: 2_000_000}, b.configs(c.Seed), 16, false)
	if res.StartErr != nil {
		c.Inconc("SUT start failed: " + res.StartErr.Error())
	}
	for _, f := range res.Failures {
		fd := e1Finding(f)
		fd.Replay = map[string]any{"e1": cfgOf(res, f)}
		c.Report(fd)
	}
	for _, s := range res.Inconclusive {
		c.Inconc(s)
	}
	return res
}

func cfgOf(res *e1.PoolResult, f *e1.Failure) any {
	for _, h := range res.PerHistory {
		if h.Cfg.String() == f.Config {
			return h.Cfg
		}
	}
	return nil
}

func e1Coverage(c *check.Ctx, res *e1.PoolResult) {
	s := res.Stats
	if s == nil {
		return
	}
	c.Coverage["histories"] = res.Histories
	c.Coverage["steps"] = s.Steps
	c.Coverage["requests_by_kind"] = s.Kinds
	c.Coverage["accepted_by_kind"] = s.Accepted
	c.Coverage["refused_by_kind"] = s.Refused
	c.Coverage["refusal_reasons"] = s.RefusalReasons
	c.Coverage["relays_matched_must"] = s.RelaysMatched
	c.Coverage["relays_matched_may"] = s.MayMatched
	c.Coverage["checkpoints"] = s.Checkpoints
	c.Coverage["view_comparisons"] = s.ViewCompares
	c.Coverage["joins"] = s.Joins
	c.Coverage["handed_state_messages_checked"] = s.HandedStates
	c.Coverage["departures"] = s.Departures
	c.Coverage["sessions_ended"] = s.SessionsEnded
	c.Coverage["session_ids_reused"] = s.SIDsReused
	c.Coverage["wire_events_by_type"] = s.EventsByType
	c.Coverage["max_members_in_a_session"] = s.MaxMembers
}

func init() {
	registry["E1"] = func(c *check.Ctx) int {
		res := runE1(c, e1Batch{Profiles: []string{"mixed", "view", "relay", "refusal", "owner", "departure", "registry", "component", "subscribe", "custom", "module", "pose", "ids", "isolation"},
			Histories: c.Pick(48, 400), Steps: 80, MaxConns: 6, MaxSess: 3, Census: true})
		e1Coverage(c, res)
		for _, f := range res.Failures {
			fmt.Printf("FAIL %v %s [%s]\n   %s\n", f.Props, f.Clause, f.Trigger, f.Detail)
			if os.Getenv("VERIF_DEBUG") != "" {
				h := f.History
				if len(h) > 25 {
					h = h[len(h)-25:]
				}
				for _, l := range h {
					fmt.Println("      |", l)
				}
				fmt.Println("      cfg:", f.Config)
			}
		}
		return c.Finish(res.Histories, res.Histories, "debug batch", nil)
	}
}
