package props

import (
	"fmt"
	"os"

	"verif/internal/check"
	"verif/internal/e1"
	"verif/internal/e2"
	"verif/internal/sut"
)

var modSubsets = []string{"vod", "", "v", "o", "d", "vo", "vd", "od"}

// e1Batch describes a batch of sequential histories for one property.
type e1Batch struct {
	Profiles          []string
	Histories         int
	Steps             int
	MaxConns          int
	MaxSess           int
	Mods              []string
	Census            bool
	ProbeAfterRefusal float64
	// Nontrivial decides whether a history counts for distinct_nontrivial.
	Nontrivial func(h e1.HistorySummary) bool
}

func (b e1Batch) configs(seed int64) []e1.Config {
	var out []e1.Config
	mods := b.Mods
	if len(mods) == 0 {
		mods = modSubsets
	}
	for i := 0; i < b.Histories; i++ {
		out = append(out, e1.Config{
			Seed:              seed*1_000_003 + int64(i)*7919 + 17,
			Steps:             b.Steps,
			MaxConns:          b.MaxConns,
			MaxSess:           b.MaxSess,
			Mods:              mods[i%len(mods)],
			Profile:           b.Profiles[i%len(b.Profiles)],
			CheckEvery:        1 + (i*3)%10,
			Census:            b.Census,
			ProbeAfterRefusal: b.ProbeAfterRefusal,
			Avoid:             avoidList(),
		})
	}
	return out
}

// avoidList: triggers of listed known findings that generic histories must
// not hit (each has its own deterministic reproducer).
func avoidList() []string {
	var out []string
	seen := map[string]bool{}
	for _, k := range check.LoadKnown() {
		switch k.Sig {
		case "isolation/deferred-update-crosses-session-boundary":
			if !seen[k.Sig] {
				out = append(out, "deferred-update-crosses-session-boundary")
			}
			seen[k.Sig] = true
		}
	}
	return out
}

// runE1 runs a batch and files the failures; it returns the pool result.
func runE1(c *check.Ctx, b e1Batch) *e1.PoolResult {
	bin, err := c.WS.Build("lab", "plain")
	if err != nil {
		fmt.Println(err)
		c.Inconc("build failed: " + err.Error())
		return &e1.PoolResult{}
	}
	res := e1.RunPool(c.WS, bin, sut.LabOpts{Frame: 2_000_000}, b.configs(c.Seed), 16, false)
	if res.StartErr != nil {
		c.Inconc("SUT start failed: " + res.StartErr.Error())
	}
	for _, f := range res.Failures {
		fd := e1Finding(f)
		fd.Replay = map[string]any{"e1": cfgOf(res, f)}
		c.Report(fd)
	}
	for _, s := range res.Inconclusive {
		c.Inconc(s)
	}
	return res
}

func cfgOf(res *e1.PoolResult, f *e1.Failure) any {
	for _, h := range res.PerHistory {
		if h.Cfg.String() == f.Config {
			return h.Cfg
		}
	}
	return nil
}

func e1Coverage(c *check.Ctx, res *e1.PoolResult) {
	s := res.Stats
	if s == nil {
		return
	}
	c.Coverage["histories"] = res.Histories
	c.Coverage["steps"] = s.Steps
	c.Coverage["requests_by_kind"] = s.Kinds
	c.Coverage["accepted_by_kind"] = s.Accepted
	c.Coverage["refused_by_kind"] = s.Refused
	c.Coverage["refusal_reasons"] = s.RefusalReasons
	c.Coverage["relays_matched_must"] = s.RelaysMatched
	c.Coverage["relays_matched_may"] = s.MayMatched
	c.Coverage["checkpoints"] = s.Checkpoints
	c.Coverage["view_comparisons"] = s.ViewCompares
	c.Coverage["joins"] = s.Joins
	c.Coverage["handed_state_messages_checked"] = s.HandedStates
	c.Coverage["departures"] = s.Departures
	c.Coverage["sessions_ended"] = s.SessionsEnded
	c.Coverage["session_ids_reused"] = s.SIDsReused
	c.Coverage["wire_events_by_type"] = s.EventsByType
	c.Coverage["max_members_in_a_session"] = s.MaxMembers
}

func init() {
	registry["E1"] = func(c *check.Ctx) int {
		res := runE1(c, e1Batch{Profiles: []string{"mixed", "view", "relay", "refusal", "owner", "departure", "registry", "component", "subscribe", "custom", "module", "pose", "ids", "isolation"},
			Histories: c.Pick(48, 400), Steps: 80, MaxConns: 6, MaxSess: 3, Census: true})
		e1Coverage(c, res)
		for _, f := range res.Failures {
			fmt.Printf("FAIL %v %s [%s]\n   %s\n", f.Props, f.Clause, f.Trigger, f.Detail)
			if os.Getenv("VERIF_DEBUG") != "" {
				h := f.History
				if len(h) > 25 {
					h = h[len(h)-25:]
				}
				for _, l := range h {
					fmt.Println("      |", l)
				}
				fmt.Println("      cfg:", f.Config)
			}
		}
		return c.Finish(res.Histories, res.Histories, "debug batch", nil)
	}
}

func init() {
	registry["C01"] = func(c *check.Ctx) int {
		a := &acc{}
		partE1(c, a, e1Batch{Profiles: []string{"view", "mixed", "module", "component", "subscribe", "departure"}, Histories: c.Pick(240, 2400), Steps: c.Pick(90, 160), MaxConns: 6, MaxSess: 3},
			"at least 3 members were in one session, accepted changes of at least 3 state classes occurred and at least one view comparison ran",
			func(s *e1.Stats) bool { return s.MaxMembers >= 3 && len(s.ClassesChanged) >= 3 && s.ViewCompares > 0 })
		partConcurrent(c, a, "C01")
		partStepThrough(c, a, []string{"join", "switch", "leave", "delete", "compadd-vs-delete", "compadd-vs-leave", "action-vs-delete", "action-vs-leave", "entityadd", "assetadd"})
		partStepPairs(c, a, [][2]string{{"leave", "join2"}, {"join", "leave2"}, {"join", "join2"}, {"delete", "join2"}})
		partGated(c, a, []func(*sut.Proc) *e2.Result{e2.G6SameKeyActionWriters, e2.G5SameKeyComponentWriters, e2.G4ModuleStateRace}, 1)
		partLagSenders(c, a)
		partBigSession(c, a) // the views of hundreds of subscribers of one type
		return a.finish(c)
	}
	registry["C02"] = func(c *check.Ctx) int {
		a := &acc{}
		partE1(c, a, e1Batch{Profiles: []string{"relay", "mixed", "custom", "module", "departure"}, Histories: c.Pick(240, 2400), Steps: c.Pick(90, 160), MaxConns: 6, MaxSess: 2},
			"an accepted relay-causing request had at least 2 entitled recipients and at least one request was refused, all attributed",
			func(s *e1.Stats) bool {
				refused := 0
				for _, n := range s.Refused {
					refused += n
				}
				return marks(s, "relay:multi-recipient") && refused > 0
			})
		partConcurrent(c, a, "C02")
		partIntegrityStorm(c, a)
		partStepThrough(c, a, []string{"join", "leave", "delete", "entityadd", "compdel", "custom", "switch-vs-lastleave"})
		partStepPairs(c, a, [][2]string{{"leave", "join2"}, {"join", "leave2"}, {"leave", "leave2"}})
		partLagging(c, a)
		partLagSenders(c, a)
		partRealBinaryIntegrity(c, a, false)
		return a.finish(c)
	}
	registry["C04"] = func(c *check.Ctx) int {
		a := &acc{}
		partE1(c, a, e1Batch{Profiles: []string{"refusal", "mixed", "component", "module", "owner"}, Histories: c.Pick(240, 2400), Steps: c.Pick(90, 160), MaxConns: 5, MaxSess: 3, ProbeAfterRefusal: 0.3},
			"at least 5 distinct request kinds, at least one success and at least 3 distinct refusal reasons were answered and matched",
			func(s *e1.Stats) bool { return len(s.Kinds) >= 5 && len(s.Accepted) >= 1 && distinctReasons(s) >= 3 })
		reproDeferredCrossing(c, a)
		partIntegrityStorm(c, a)
		partStepThrough(c, a, []string{"compadd-vs-compadd", "join", "entityadd"}) // (every request is answered: nothing wedges)
		partSignedLatency(c, a)                                                    // (a refused request in the middle of a measurement changes nothing)
		partReceiptAnswers(c, a)
		partRealRegistryAcrossReregistration(c, a) // a join by the id the server gave out is answered with the session, whatever happened to the server id since
		return a.finish(c)
	}
	registry["C05"] = func(c *check.Ctx) int {
		a := &acc{}
		partE1(c, a, e1Batch{Profiles: []string{"owner"}, Histories: c.Pick(240, 2400), Steps: c.Pick(100, 160), MaxConns: 5, MaxSess: 2, Mods: []string{"vod", "o", "od", "vo"}},
			"foreign delete, pose and asset attempts against existing entities all occurred, at least one of them after the owner had left",
			func(s *e1.Stats) bool {
				after := s.Marks["foreign-after-owner-left:entity_del"] + s.Marks["foreign-after-owner-left:pose"] + s.Marks["foreign-after-owner-left:asset_add"]
				return marks(s, "foreign:entity_del", "foreign:pose", "foreign:asset_add") && after > 0
			})
		partIntegrityStorm(c, a)
		partEntityAddStorm(c, a)
		return a.finish(c)
	}
	registry["C12"] = func(c *check.Ctx) int {
		a := &acc{}
		partE1(c, a, e1Batch{Profiles: []string{"component"}, Histories: c.Pick(240, 2400), Steps: c.Pick(110, 180), MaxConns: 4, MaxSess: 2},
			"accepted add, refused duplicate add, update of an existing and of a missing component, delete, list and a cascade by entity removal all occurred",
			func(s *e1.Stats) bool {
				return s.Accepted["comp_add"] > 0 && marks(s, "comp_add:duplicate", "comp_upd:existing", "comp_upd:missing") && s.Accepted["comp_del"] > 0 &&
					s.Accepted["comp_list"] > 0 && s.Marks["cascade:entity_del"]+s.Marks["cascade:departure"] > 0
			})
		partStoreStress(c, a)
		partStepThrough(c, a, []string{"compadd-vs-compadd", "compadd-vs-delete", "compadd-vs-leave", "delete", "leave", "compdel"})
		return a.finish(c)
	}
	registry["C13"] = func(c *check.Ctx) int {
		a := &acc{}
		partE1(c, a, e1Batch{Profiles: []string{"subscribe"}, Histories: c.Pick(240, 2400), Steps: c.Pick(120, 200), MaxConns: 6, MaxSess: 1},
			"a component change happened with at least 2 subscribers and 1 non-subscriber present, and another with no subscriber at all",
			func(s *e1.Stats) bool {
				return marks(s, "comp-change:2-subscribers-1-other", "comp-change:no-subscriber")
			})
		partStepThrough(c, a, []string{"compupd-vs-unsub", "sub-vs-sub", "leave"})
		partBigSession(c, a)
		return a.finish(c)
	}
	registry["C14"] = func(c *check.Ctx) int {
		a := &acc{}
		partE1(c, a, e1Batch{Profiles: []string{"custom"}, Histories: c.Pick(240, 2400), Steps: c.Pick(80, 140), MaxConns: 6, MaxSess: 2, Mods: []string{"", "vod"}},
			"a body within 2 bytes of the limit was sent, or a recipient list contained a duplicate, a stranger or the sender",
			func(s *e1.Stats) bool {
				return s.Marks["custom:near-limit"] > 0 || s.Marks["custom:duplicate-recipient"]+s.Marks["custom:stranger-recipient"]+s.Marks["custom:self-recipient"] > 0
			})
		partIntegrityStorm(c, a)
		partStepThrough(c, a, []string{"customto-vs-customto", "custom"})
		partBigSession(c, a)
		partLagSenders(c, a) // plain and addressed messages towards a member that lags and catches up
		return a.finish(c)
	}
	registry["C16"] = func(c *check.Ctx) int {
		a := &acc{}
		partE1(c, a, e1Batch{Profiles: []string{"module"}, Histories: c.Pick(240, 2400), Steps: c.Pick(120, 200), MaxConns: 4, MaxSess: 2, Mods: []string{"vod", "vo"}},
			"an older action was refused, an equal-timestamp action accepted and an asset replaced, with the result checked at a later joiner",
			func(s *e1.Stats) bool {
				return marks(s, "action:older-timestamp", "action:equal-timestamp", "asset:replacement-attempt") && s.Joins >= 2
			})
		partStepThrough(c, a, []string{"action-vs-action", "action-vs-delete", "action-vs-leave", "delete", "leave", "join", "assetadd"})
		partStepPairs(c, a, [][2]string{{"join", "join2"}})
		partRealBinaryIntegrity(c, a, false)
		return a.finish(c)
	}
}
