// Package props holds one check per property.
package props

import (
	"encoding/json"
	"fmt"
	"os"
	"sort"

	"verif/internal/check"
	"verif/internal/e1"
	"verif/internal/sut"
)

type checkFn func(c *check.Ctx) int

var registry = map[string]checkFn{}

// Run runs the check of one property and returns the exit code.
func Run(prop, tier string, seed int64) int {
	fn, ok := registry[prop]
	if !ok {
		fmt.Fprintf(os.Stderr, "no check for property %q\n", prop)
		return 2
	}
	c, err := check.NewCtx(prop, tier, seed)
	if err != nil {
		fmt.Fprintln(os.Stderr, "cannot create workspace:", err)
		return 2
	}
	return fn(c)
}

// Replay re-runs the case recorded in a replay file.
func Replay(path string) int {
	b, err := os.ReadFile(path)
	if err != nil {
		fmt.Fprintln(os.Stderr, err)
		return 2
	}
	var rp struct {
		Property string `json:"property"`
		Tier     string `json:"tier"`
		Seed     int64  `json:"seed"`
		Finding  struct {
			Replay map[string]any `json:"replay"`
		} `json:"finding"`
	}
	if err := json.Unmarshal(b, &rp); err != nil {
		fmt.Fprintln(os.Stderr, err)
		return 2
	}
	if cfgRaw, ok := rp.Finding.Replay["e1"]; ok {
		cb, _ := json.Marshal(cfgRaw)
		var cfg e1.Config
		json.Unmarshal(cb, &cfg)
		c, err := check.NewCtx(rp.Property, rp.Tier, rp.Seed)
		if err != nil {
			return 2
		}
		bin, err := c.WS.Build("lab", "plain")
		if err != nil {
			fmt.Fprintln(os.Stderr, err)
			return 2
		}
		res := e1.RunPool(c.WS, bin, sut.LabOpts{}, []e1.Config{cfg}, 1, true)
		for _, f := range res.Failures {
			c.Report(e1Finding(f))
		}
		return c.Finish(1, 2, "replay of one recorded sequential history", []any{cfg.String()})
	}
	// everything else: re-run the property's check with the recorded seed and tier
	return Run(rp.Property, rp.Tier, rp.Seed)
}

func e1Finding(f *e1.Failure) *check.Finding {
	hist := f.History
	if len(hist) > 60 {
		hist = append([]string{fmt.Sprintf("… %d earlier steps …", len(hist)-60)}, hist[len(hist)-60:]...)
	}
	return &check.Finding{Props: f.Props, Clause: f.Clause, Trigger: f.Trigger, Detail: f.Detail, Engine: "E1 seq",
		Config: f.Config, History: hist, Extra: f.Extra}
}

func sortedKeys[V any](m map[string]V) []string {
	out := make([]string, 0, len(m))
	for k := range m {
		out = append(out, k)
	}
	sort.Strings(out)
	return out
}
