package props

import (
	"bytes"
	"encoding/json"
	"fmt"
	"os/exec"
	"sync"
	"time"

	"verif/internal/check"
	"verif/internal/e1"
	"verif/internal/e2"
	"verif/internal/sut"
)

func partIDGenerator(c *check.Ctx, a *acc) {
	bin, err := c.WS.BuildMain("./sut/e6ids", "race")
	if err != nil {
		c.Inconc("build failed: " + err.Error())
		return
	}
	maxLen := c.Pick(8, 10)
	cmd := exec.Command(bin, "-len", fmt.Sprint(maxLen), "-reps", fmt.Sprint(c.Pick(3, 6)), "-hist", fmt.Sprint(c.Pick(400, 4000)), "-seed", fmt.Sprint(c.Seed))
	var out, errb bytes.Buffer
	cmd.Stdout, cmd.Stderr = &out, &errb
	done := make(chan error, 1)
	go func() { done <- cmd.Run() }()
	select {
	case err = <-done:
	case <-time.After(20 * time.Minute):
		cmd.Process.Kill()
		c.Inconc("C10: id generator batch exceeded its watchdog")
		return
	}
	var r struct {
		Sequences   int      `json:"sequences"`
		Executions  int      `json:"executions"`
		Reissued    int      `json:"ids_handed_out_again_after_release"`
		Histories   int      `json:"concurrent_histories"`
		HistoryOps  int      `json:"concurrent_operations"`
		Overlapping int      `json:"histories_with_overlapping_allocations"`
		Unknown     int      `json:"checker_timeouts"`
		Violations  []string `json:"violations"`
		SampleSeq   []string `json:"sample_sequences"`
	}
	if err != nil || json.Unmarshal(out.Bytes(), &r) != nil {
		msg := errb.String()
		if len(msg) > 3000 {
			msg = msg[:3000]
		}
		c.Report(&check.Finding{Props: []string{"C10", "C09"}, Clause: "idgen/crash-or-race", Trigger: "id generator", Engine: "E6 id generator",
			Detail: fmt.Sprintf("the id generator child (-race build) failed: %v\n%s", err, msg)})
		return
	}
	for _, v := range r.Violations {
		c.Report(&check.Finding{Props: []string{"C10"}, Clause: "idgen/id-issued-while-held", Trigger: "id generator", Engine: "E6 id generator", Detail: v})
	}
	for i := 0; i < r.Unknown; i++ {
		c.Inconc("porcupine timed out on a concurrent id-generator history")
	}
	c.Coverage["idgen_sequences_enumerated"] = r.Sequences
	c.Coverage["idgen_executions"] = r.Executions
	c.Coverage["idgen_max_sequence_length"] = maxLen
	c.Coverage["idgen_ids_reissued_after_release"] = r.Reissued
	c.Coverage["idgen_concurrent_histories"] = r.Histories
	c.Coverage["idgen_concurrent_operations"] = r.HistoryOps
	c.Coverage["idgen_histories_with_overlapping_allocations"] = r.Overlapping
	c.Coverage["exhaustive"] = true
	c.Coverage["exhaustive_dimension"] = fmt.Sprintf("every New / Reuse(held id) sequence of the id source up to length %d (each repeated); everything else is sampled", maxLen)
	samples := []any{}
	for _, s := range r.SampleSeq {
		samples = append(samples, map[string]any{"engine": "E6 id generator", "sequence": s})
	}
	a.add(r.Sequences+r.Histories, r.Sequences+r.Overlapping, "E6: the real SequentialIDGenerator in a -race child: exhaustive enumeration of every New/Reuse(held id) sequence up to the length bound (oracle: New never returns a held id) and concurrent New/Reuse histories checked with porcupine against a free-set model; every enumerated sequence is distinct; a concurrent history is non-trivial when allocations overlapped", samples...)
}

func partAllocStorms(c *check.Ctx, a *acc) {
	bin, err := c.WS.Build("lab", "plain")
	if err != nil {
		c.Inconc("build failed: " + err.Error())
		return
	}
	n := c.Pick(16, 96)
	var mu sync.Mutex
	done, nontrivial := 0, 0
	tot := e2.AllocStats{}
	parallel(n, 8, func(i int) {
		opts := sut.LabOpts{Name: "alloc"}
		if i%2 == 1 {
			opts.RT = "jitter"
		}
		p, err := c.WS.StartLab(bin, opts)
		if err != nil {
			c.Inconc(err.Error())
			return
		}
		defer p.Kill()
		st := e2.AllocStorm(p, 16, 24, c.Seed*17+int64(i))
		mu.Lock()
		defer mu.Unlock()
		done++
		if st.OverlappingAllocations > 0 {
			nontrivial++
		}
		tot.Entities += st.Entities
		tot.Assets += st.Assets
		tot.Participants += st.Participants
		tot.TypeRegs += st.TypeRegs
		tot.SessionsCreated += st.SessionsCreated
		tot.OverlappingAllocations += st.OverlappingAllocations
		for _, f := range st.Findings {
			c.Report(f)
		}
		for _, s := range st.Inconclusive {
			c.Inconc(s)
		}
	})
	c.Coverage["alloc_storms"] = done
	c.Coverage["alloc_entity_ids"] = tot.Entities
	c.Coverage["alloc_asset_ids"] = tot.Assets
	c.Coverage["alloc_participant_ids"] = tot.Participants
	c.Coverage["alloc_type_registrations"] = tot.TypeRegs
	c.Coverage["alloc_sessions_created"] = tot.SessionsCreated
	c.Coverage["alloc_overlapping_allocations"] = tot.OverlappingAllocations
	a.add(done, nontrivial, "E2 allocation storms: 16 connections allocate at once (entity adds, asset adds, registrations of the same and of different type names, session create/end cycles), free-running or jittered; ids are collected from the answers and the uniqueness clauses evaluated at the end; non-trivial when at least 2 allocations overlapped",
		map[string]any{"engine": "E2 allocation storm", "connections": 16, "rounds_per_connection": 24})
}

func init() {
	registry["C10"] = func(c *check.Ctx) int {
		a := &acc{}
		partE1(c, a, e1Batch{Profiles: []string{"ids", "registry"}, Histories: c.Pick(160, 1600), Steps: c.Pick(110, 180), MaxConns: 6, MaxSess: 3},
			"a release was followed by further allocations in the same id space (a session id reused, or an entity deleted before later entity adds)",
			func(s *e1.Stats) bool {
				return s.SIDsReused >= 1 || (s.Accepted["entity_del"] >= 1 && s.Accepted["entity_add"] >= 2)
			})
		partIDGenerator(c, a)
		partAllocStorms(c, a)
		partStoreStress(c, a) // concurrent registration of type names (ids and names one-to-one)
		partStepThrough(c, a, []string{"create", "lastleave", "switch", "join-vs-lastleave"})
		partRealRegistryAcrossReregistration(c, a)
		partIDScripts(c, a)
		return a.finish(c)
	}
}
