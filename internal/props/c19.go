package props

import (
	"bytes"
	"fmt"
	"math/big"
	"math/rand"
	"strings"
	"sync"
	"time"

	"github.com/aukilabs/hagall-common/messages/hagallpb"

	"verif/internal/check"
	d "verif/internal/driver"
	"verif/internal/fakes"
	"verif/internal/scen"
	"verif/internal/sut"
	"verif/internal/xcrypto"
)

type receiptCase struct {
	Name       string
	Receipt    string
	Hash, Sig  []byte
	Valid      bool // by the harness's independent check
	EmptyField bool
}

var secpN = []byte{0xFF, 0xFF, 0xFF, 0xFF, 0xFF, 0xFF, 0xFF, 0xFF, 0xFF, 0xFF, 0xFF, 0xFF, 0xFF, 0xFF, 0xFF, 0xFE,
	0xBA, 0xAE, 0xDC, 0xE6, 0xAF, 0x48, 0xA0, 0x3B, 0xBF, 0xD2, 0x5E, 0x8C, 0xD0, 0x36, 0x41, 0x41}

// independentlyValid is the harness's own reading of C19: the hash is the
// Keccak-256 of the receipt text and the signature is recoverable over it.
func independentlyValid(receipt string, hash, sig []byte) bool {
	if !bytes.Equal(xcrypto.Keccak256([]byte(receipt)), hash) {
		return false
	}
	_, err := xcrypto.Recover(hash, sig)
	return err == nil
}

func receiptCases(r *rand.Rand, tag string, n int) []receiptCase {
	var out []receiptCase
	const key = "59c6995e998f97a5a0044966f0945389dc9e86dae88c7a8412f4603b6b78690d"
	for i := 0; i < n; i++ {
		// texts of the shape clients really submit (hagall-common's ncsclient.Receipt),
		// with every field at ordinary and at hostile values; the text is opaque to
		// the relay: whatever it says, a well-formed triple is forwarded unchanged
		nums := []string{"0", "1", "-1", "4096", "9223372036854775807", "-9223372036854775808", "123456789012"}
		times := []string{"2024-05-01T10:00:00Z", "0001-01-01T00:00:00Z", "9999-12-31T23:59:59Z", "1970-01-01T00:00:00.000000001+14:00"}
		strs := []string{"app", "", "ünï-cødé ✓", strings.Repeat("x", 300), `q\"uote`}
		text := fmt.Sprintf(`{"app_id":"%s","client_id":"%s-%d","session_id":"%sx%x","hagall_wallet_addr":"0x%040x","participant_id":%s,"created_at":"%s","session_joined_at":"%s","bytes_sent":%s,"bytes_received":%s}`,
			strs[r.Intn(len(strs))], tag, i, strs[r.Intn(2)], r.Intn(1000), r.Int63(), nums[r.Intn(4)], times[r.Intn(len(times))], times[r.Intn(len(times))], nums[r.Intn(len(nums))], nums[r.Intn(len(nums))])
		if i%5 == 4 {
			text = fmt.Sprintf(`{"id":"%s-%d","amount":%d}`, tag, i, r.Intn(1000)) // and texts of another shape altogether
		}
		hash := xcrypto.Keccak256([]byte(text))
		sig, err := xcrypto.Sign(key, hash)
		if err != nil {
			panic(err)
		}
		mk := func(name, t string, h, s []byte) {
			rc := receiptCase{Name: name, Receipt: t, Hash: h, Sig: s}
			rc.EmptyField = t == "" || len(h) == 0 || len(s) == 0
			rc.Valid = !rc.EmptyField && independentlyValid(t, h, s)
			out = append(out, rc)
		}
		cp := func(b []byte) []byte { return append([]byte(nil), b...) }
		switch i % 19 {
		case 18:
			// every field of the triple agrees (the hash is the digest of the empty
			// text, the signature is genuine) but the text is empty: bad request,
			// never queued, never forwarded
			eh := xcrypto.Keccak256(nil)
			es, err := xcrypto.Sign(key, eh)
			if err != nil {
				panic(err)
			}
			mk("empty-receipt-consistent-hash-and-signature", "", eh, es)
		case 14:
			mk("hash-junk-prepended-36", text, append([]byte{0xde, 0xad, 0xbe, 0xef}, hash...), sig)
		case 15:
			mk("hash-junk-prepended-64", text, append(cp(hash), hash...), sig)
		case 16:
			mk("hash-junk-appended-33", text, append(cp(hash), 0), sig)
		case 17:
			// a digest whose leading zero byte is stripped (31 bytes): the text is searched for
			t2, h2 := text, hash
			for k := 0; k < 100000 && h2[0] != 0; k++ {
				t2 = fmt.Sprintf(`{"id":"%s-%d","amount":%d,"n":%d}`, tag, i, k, k)
				h2 = xcrypto.Keccak256([]byte(t2))
			}
			if h2[0] == 0 {
				s2, err := xcrypto.Sign(key, h2)
				if err != nil {
					panic(err)
				}
				mk("hash-leading-zero-stripped-31", t2, h2[1:], s2)
			} else {
				mk("hash-truncated-31", text, hash[:31], sig)
			}
		case 0, 1, 2:
			mk("valid", text, hash, sig)
		case 3:
			// the other encoding of the same signature: (r, N-s) with the recovery
			// bit flipped recovers the same key ("high-s"; signers normalise it
			// away, recovery accepts it)
			hs := cp(sig)
			sv := new(big.Int).Sub(new(big.Int).SetBytes(secpN), new(big.Int).SetBytes(sig[32:64]))
			sv.FillBytes(hs[32:64])
			hs[64] ^= 1
			mk("valid-high-s", text, hash, hs)
		case 4:
			h := cp(hash)
			h[r.Intn(32)] ^= 1 << uint(r.Intn(8))
			mk("hash-bit-flip", text, h, sig)
		case 5:
			mk("receipt-edited", text+" ", hash, sig)
		case 6:
			mk("sig-64-bytes", text, hash, sig[:64])
		case 7:
			mk("sig-66-bytes", text, hash, append(cp(sig), 0))
		case 8:
			s := cp(sig)
			s[64] = byte(4 + r.Intn(250))
			mk("recovery-id-out-of-range", text, hash, s)
		case 9:
			s := cp(sig)
			for k := 0; k < 32; k++ {
				s[k] = 0
			}
			mk("r-zero", text, hash, s)
		case 10:
			s := cp(sig)
			for k := 32; k < 64; k++ {
				s[k] = 0
			}
			mk("s-zero", text, hash, s)
		case 11:
			s := cp(sig)
			copy(s[0:32], secpN)
			mk("r-equals-N", text, hash, s)
		case 12:
			s := cp(sig)
			copy(s[32:64], secpN)
			mk("s-equals-N", text, hash, s)
		case 13:
			switch r.Intn(3) {
			case 0:
				mk("empty-receipt", "", hash, sig)
			case 1:
				mk("empty-hash", text, nil, sig)
			default:
				mk("empty-signature", text, hash, nil)
			}
		}
	}
	return out
}

func c19f(clause, trigger, format string, a ...any) *check.Finding {
	props := []string{"C19"}
	if strings.HasPrefix(clause, "answer/") {
		props = append(props, "C04") // a receipt request is a request: answered exactly once, success or error
	}
	return &check.Finding{Props: props, Clause: clause, Trigger: trigger, Detail: fmt.Sprintf(format, a...), Engine: "C19 receipts"}
}

// partReceiptAnswers: the answers to receipt requests (C04) - pipelined bursts
// and the deterministic queue-full scenario.
func partReceiptAnswers(c *check.Ctx, a *acc) {
	bin, err := c.WS.Build("lab", "plain")
	if err != nil {
		c.Inconc("build failed: " + err.Error())
		return
	}
	var mu sync.Mutex
	st := &c19stats{}
	runReceiptBurst(c, bin, 8, c.Pick(57, 190), st, &mu)
	reached := queueFull(c, bin, st)
	c.Coverage["receipt_requests_submitted"] = st.submitted
	c.Coverage["receipt_requests_answered"] = st.answered
	c.Coverage["receipt_too_busy_answers"] = st.tooBusy
	c.Coverage["receipt_queue_full_gate_reached"] = reached
	c.Coverage["receipt_one_free_slot_rounds"] = st.raceRounds
	a.add(st.submitted, st.answered, "receipt requests: pipelined bursts from 8 connections and a deterministic queue-full scenario (verifier held at a gate, 140 submissions against 128 slots): every request id answered exactly once - accepted, bad request or too busy, never two of them",
		map[string]any{"engine": "C19 receipts", "submitted": st.submitted, "too_busy": st.tooBusy})
}

// awaitForwards waits until forwarding is over: in one (stop-the-world)
// goroutine dump no forwarding goroutine exists and every goroutine of the
// receipt handler is parked waiting for the next receipt - so the queue is
// empty and whatever was taken from it has been verified and, if valid,
// forwarded. (Looking at forwarding goroutines alone is not enough: between two
// receipts of a long queue there are moments without any.) Called once every
// submission has been answered, so nothing new can arrive.
func awaitForwards(p *sut.Proc) bool {
	for round := 0; round < 3000; round++ {
		dump, err := p.Goroutines()
		if err != nil {
			return false
		}
		if sut.CountGoroutines(dump, "ReceiptHandler).ForwardToNCS") == 0 && sut.CountGoroutines(dump, "ReceiptHandler.ForwardToNCS") == 0 {
			idle, busy := 0, 0
			for _, g := range strings.Split(dump, "\n\n") {
				if !strings.Contains(g, "ReceiptHandler.HandleReceipts") && !strings.Contains(g, "ReceiptHandler).HandleReceipts") {
					continue
				}
				head := g
				if i := strings.Index(g, "\n"); i > 0 {
					head = g[:i]
				}
				if strings.Contains(head, "[select") || strings.Contains(head, "[chan receive") {
					idle++
				} else {
					busy++
				}
			}
			if idle > 0 && busy == 0 {
				return true
			}
		}
		time.Sleep(10 * time.Millisecond)
	}
	return false
}

type c19stats struct {
	submitted, valid, invalid, empty, forwarded, answered, tooBusy int
	raceRounds                                                     int // rounds of simultaneous submissions with one slot free
}

// runReceiptScenario submits cases from nConn connections against a fresh SUT
// whose credit service is in the given mode.
func runReceiptScenario(c *check.Ctx, bin, mode string, nConn int, cases []receiptCase, st *c19stats, mu *sync.Mutex) {
	trig := "ncs-" + mode
	var ncs *fakes.NCS
	url := fakes.ClosedPortURL()
	if mode != "down" {
		var err error
		ncs, err = fakes.NewNCS(mode)
		if err != nil {
			c.Inconc(err.Error())
			return
		}
		defer ncs.Close()
		url = ncs.URL()
	}
	p, err := c.WS.StartLab(bin, sut.LabOpts{NCS: url, Name: "rcpt"})
	if err != nil {
		c.Inconc(err.Error())
		return
	}
	defer p.Kill()
	var wg sync.WaitGroup
	for ci := 0; ci < nConn; ci++ {
		wg.Add(1)
		go func(ci int) {
			defer wg.Done()
			defer func() {
				if r := recover(); r != nil {
					c.Inconc(fmt.Sprint("C19: ", r))
				}
			}()
			cl := scen.MustDial(p, "vod")
			defer cl.Close()
			if ci%2 == 0 {
				cl.Join("") // receipts need no session: half of the submitters are members, half are not
			}
			for i := ci; i < len(cases); i += nConn {
				rc := cases[i]
				id := cl.NextReqID()
				a, rest, err := cl.Do(&hagallpb.ReceiptRequest{Type: d.TReceiptReq, Timestamp: d.NewTag(), RequestId: id, Receipt: rc.Receipt, Hash: rc.Hash, Signature: rc.Sig})
				mu.Lock()
				st.submitted++
				mu.Unlock()
				if err != nil {
					c.Report(c19f("answer/connection-blocked-or-ended", trig, "submitting %s (%q): the connection barrier failed: %v", rc.Name, rc.Receipt, err))
					return
				}
				for _, e := range rest {
					if rid, ok := e.M.(*hagallpb.ErrorResponse); ok && rid.RequestId == id {
						c.Report(c19f("answer/more-than-one", trig, "submitting %s: a second answer %s", rc.Name, e))
					}
				}
				switch {
				case a == nil:
					c.Report(c19f("answer/none", trig, "submitting %s (%q): no answer before the pong", rc.Name, rc.Receipt))
				case rc.EmptyField:
					if code, ok := scen.IsErr(a); !ok || code != 400 {
						c.Report(c19f("answer/empty-field-not-bad-request", trig, "submitting %s: answered %s", rc.Name, a))
					}
				default:
					if code, ok := scen.IsErr(a); ok {
						if code != 503 {
							c.Report(c19f("answer/unexpected-error", trig, "submitting %s: answered with error %d", rc.Name, code))
						} else {
							mu.Lock()
							st.tooBusy++
							mu.Unlock()
						}
					} else if a.Type != d.TReceiptResp {
						c.Report(c19f("answer/wrong-type", trig, "submitting %s: answered %s", rc.Name, a))
					}
				}
				mu.Lock()
				st.answered++
				mu.Unlock()
			}
		}(ci)
	}
	wg.Wait()
	if !awaitForwards(p) {
		if mode == "down" || mode == "slow" || mode == "hang" || mode == "drop" {
			// bounded wait only; no verdict is drawn from it
		} else {
			c.Report(c19f("forward/valid-receipt-not-forwarded", trig, "30 s after every submission was answered, forwarding to the reachable credit service (mode %s: it answers at once) has not finished", mode))
			return
		}
	}
	if ncs == nil {
		return
	}
	posts := ncs.Posts()
	byText := map[string][]fakes.Post{}
	for _, po := range posts {
		byText[po.Receipt] = append(byText[po.Receipt], po)
		if po.Path != "/receipt" {
			c.Report(c19f("forward/wrong-path", trig, "POST to %s", po.Path))
		}
	}
	mu.Lock()
	defer mu.Unlock()
	st.forwarded += len(posts)
	for _, rc := range cases {
		if rc.EmptyField {
			st.empty++
		} else if rc.Valid {
			st.valid++
		} else {
			st.invalid++
		}
		got := byText[rc.Receipt]
		if rc.Receipt == "" {
			if len(got) > 0 {
				c.Report(c19f("forward/refused-receipt-forwarded", rc.Name, "the %s triple (hash %x signature %x) is answered with bad request, yet a receipt with empty text was POSTed to the credit service %d times", rc.Name, rc.Hash, rc.Sig, len(got)))
			}
			continue
		}
		switch {
		case !rc.Valid && len(got) > 0:
			c.Report(c19f("forward/invalid-receipt-forwarded", rc.Name, "the %s triple (receipt %q hash %x signature %x) fails the independent check but was POSTed to the credit service", rc.Name, rc.Receipt, rc.Hash, rc.Sig))
		case rc.Valid && len(got) == 0 && st.tooBusy == 0 && mode != "drop":
			c.Report(c19f("forward/valid-receipt-not-forwarded", trig, "the valid receipt %q was accepted but never POSTed to the (reachable) credit service", rc.Receipt))
		case rc.Valid && len(got) > 1:
			c.Report(c19f("forward/more-than-once", trig, "the receipt %q was POSTed %d times", rc.Receipt, len(got)))
		case rc.Valid && len(got) == 1:
			if !bytes.Equal(got[0].Hash, rc.Hash) || !bytes.Equal(got[0].Signature, rc.Sig) {
				c.Report(c19f("forward/altered", trig, "the receipt %q was forwarded with hash %x signature %x, submitted %x %x", rc.Receipt, got[0].Hash, got[0].Signature, rc.Hash, rc.Sig))
			}
		}
	}
}

// runReceiptBurst: nConn connections pipeline their receipts without waiting
// for answers (many submissions are in the queue, in verification and being
// forwarded at the same time), then a barrier each. Every submission gets
// exactly one answer; a valid triple answered "accepted" is POSTed exactly
// once and unchanged, every other one never.
func runReceiptBurst(c *check.Ctx, bin string, nConn, per int, st *c19stats, mu *sync.Mutex) {
	const trig = "pipelined-burst"
	ncs, err := fakes.NewNCS("ok")
	if err != nil {
		c.Inconc(err.Error())
		return
	}
	defer ncs.Close()
	p, err := c.WS.StartLab(bin, sut.LabOpts{NCS: ncs.URL(), Name: "rcptburst"})
	if err != nil {
		c.Inconc(err.Error())
		return
	}
	defer p.Kill()
	type sub struct {
		rc       receiptCase
		id       uint32
		accepted bool
		answers  int
	}
	all := make([][]*sub, nConn)
	var wg sync.WaitGroup
	start := make(chan struct{})
	for ci := 0; ci < nConn; ci++ {
		cases := receiptCases(rand.New(rand.NewSource(c.Seed*977+int64(ci))), fmt.Sprintf("b%d", ci), per)
		wg.Add(1)
		go func(ci int) {
			defer wg.Done()
			defer func() {
				if r := recover(); r != nil {
					c.Inconc(fmt.Sprint("C19 burst: ", r))
				}
			}()
			cl := scen.MustDial(p, "vod")
			defer cl.Close()
			<-start
			byID := map[uint32]*sub{}
			for _, rc := range cases {
				s := &sub{rc: rc, id: cl.NextReqID()}
				all[ci] = append(all[ci], s)
				byID[s.id] = s
				if err := cl.Send(&hagallpb.ReceiptRequest{Type: d.TReceiptReq, Timestamp: d.NewTag(), RequestId: s.id, Receipt: rc.Receipt, Hash: rc.Hash, Signature: rc.Sig}); err != nil {
					c.Report(c19f("answer/connection-blocked-or-ended", trig, "pipelining receipts: %v", err))
					return
				}
			}
			win, err := cl.Barrier()
			if err != nil {
				c.Report(c19f("answer/connection-blocked-or-ended", trig, "after %d pipelined receipts the connection barrier failed: %v", len(cases), err))
				return
			}
			for _, e := range win {
				switch m := e.M.(type) {
				case *hagallpb.ReceiptResponse:
					if s := byID[m.RequestId]; s != nil {
						s.answers++
						s.accepted = true
					}
				case *hagallpb.ErrorResponse:
					if s := byID[m.RequestId]; s != nil {
						s.answers++
						if m.Code == 503 {
							mu.Lock()
							st.tooBusy++
							mu.Unlock()
						}
					}
				}
			}
		}(ci)
	}
	close(start)
	wg.Wait()
	if !awaitForwards(p) {
		c.Report(c19f("forward/valid-receipt-not-forwarded", trig, "30 s after a burst of %d receipts was answered, forwarding to the reachable credit service (which answers at once) has not finished: %d POSTs were received", nConn*per, len(ncs.Posts())))
		return
	}
	byText := map[string][]fakes.Post{}
	for _, po := range ncs.Posts() {
		byText[po.Receipt] = append(byText[po.Receipt], po)
	}
	mu.Lock()
	defer mu.Unlock()
	st.forwarded += len(ncs.Posts())
	for _, subs := range all {
		for _, s := range subs {
			st.submitted++
			st.answered += s.answers
			rc := s.rc
			if rc.EmptyField {
				st.empty++
			} else if rc.Valid {
				st.valid++
			} else {
				st.invalid++
			}
			if s.answers != 1 {
				c.Report(c19f("answer/exactly-once", trig, "a pipelined %s submission got %d answers", rc.Name, s.answers))
				continue
			}
			if rc.Receipt == "" {
				continue
			}
			got := byText[rc.Receipt]
			switch {
			case !rc.Valid && len(got) > 0:
				c.Report(c19f("forward/invalid-receipt-forwarded", rc.Name, "pipelined burst: the %s triple (receipt %q) fails the independent check but was POSTed", rc.Name, rc.Receipt))
			case rc.Valid && s.accepted && len(got) == 0:
				c.Report(c19f("forward/valid-receipt-not-forwarded", trig, "the valid receipt %q, submitted in a burst from %d connections, was answered accepted but never POSTed to the (reachable) credit service", rc.Receipt, nConn))
			case rc.Valid && len(got) > 1:
				c.Report(c19f("forward/more-than-once", trig, "the receipt %q was POSTed %d times", rc.Receipt, len(got)))
			case rc.Valid && !s.accepted && len(got) > 0:
				c.Report(c19f("forward/refused-receipt-forwarded", trig, "the receipt %q was refused (queue full) and POSTed all the same", rc.Receipt))
			case rc.Valid && len(got) == 1:
				if !bytes.Equal(got[0].Hash, rc.Hash) || !bytes.Equal(got[0].Signature, rc.Sig) {
					c.Report(c19f("forward/altered", trig, "the receipt %q was forwarded with hash %x signature %x, submitted %x %x", rc.Receipt, got[0].Hash, got[0].Signature, rc.Hash, rc.Sig))
				}
			}
		}
	}
}

// queueFull: G11 - the verifier is held at VerifyPayload so that the queue
// (128) fills deterministically; the submitters must be told too-busy and must
// not block.
func queueFull(c *check.Ctx, bin string, st *c19stats) bool {
	const trig = "queue-full"
	ncs, err := fakes.NewNCS("ok")
	if err != nil {
		c.Inconc(err.Error())
		return false
	}
	defer ncs.Close()
	p, err := c.WS.StartLab(bin, sut.LabOpts{NCS: ncs.URL(), RT: "sched", Name: "rcptq"})
	if err != nil {
		c.Inconc(err.Error())
		return false
	}
	defer p.Kill()
	if _, err := p.RT("op=hold&site=receipt.ReceiptHandler.VerifyPayload"); err != nil {
		c.Inconc(err.Error())
		return false
	}
	cases := receiptCases(rand.New(rand.NewSource(c.Seed)), "q", 19*9)
	var valid []receiptCase
	for _, rc := range cases {
		if rc.Valid {
			valid = append(valid, rc)
		}
	}
	cls := make([]*scen.C, 4)
	for i := range cls {
		cls[i] = scen.MustDial(p, "vod")
		defer cls[i].Close()
	}
	accepted, busy := 0, 0
	reached := false
	total := 140
	for i := 0; i < total && i < len(valid)*4; i++ {
		rc := valid[i%len(valid)]
		rc.Receipt = fmt.Sprintf("%s#%d", rc.Receipt, i) // invalid hash now, but unique; only the answers matter here
		cl := cls[i%len(cls)]
		id := cl.NextReqID()
		a, _, err := cl.Do(&hagallpb.ReceiptRequest{Type: d.TReceiptReq, Timestamp: d.NewTag(), RequestId: id, Receipt: rc.Receipt, Hash: rc.Hash, Signature: rc.Sig})
		if err != nil {
			c.Report(c19f("answer/connection-blocked-or-ended", trig, "submission %d with the queue held full: the connection barrier failed: %v", i, err))
			return reached
		}
		if i == 0 {
			if _, err := p.RT("op=wait&site=receipt.ReceiptHandler.VerifyPayload&n=1&ms=4000"); err != nil {
				c.Inconc("G11: the verifier never reached VerifyPayload")
				return false
			}
			reached = true
		}
		if i%14 == 3 || i == total-1 {
			// an empty-field receipt is a bad request whatever the state of the
			// queue, and takes no slot in it (the capacity count below is unchanged)
			eh := xcrypto.Keccak256(nil)
			es, _ := xcrypto.Sign("59c6995e998f97a5a0044966f0945389dc9e86dae88c7a8412f4603b6b78690d", eh)
			ea, _, err := cl.Do(&hagallpb.ReceiptRequest{Type: d.TReceiptReq, Timestamp: d.NewTag(), RequestId: cl.NextReqID(), Receipt: "", Hash: eh, Signature: es})
			if err != nil {
				c.Report(c19f("answer/connection-blocked-or-ended", trig, "an empty-field submission with the queue held: the connection barrier failed: %v", err))
				return reached
			}
			if code, ok := scen.IsErr(ea); !ok || code != 400 {
				c.Report(c19f("answer/empty-field-not-bad-request", trig, "an empty-text receipt submitted while the verifier is held (%d accepted, %d too busy so far) was answered %s", accepted, busy, ea))
			}
		}
		switch code, isErr := scen.IsErr(a); {
		case a == nil:
			c.Report(c19f("answer/none", trig, "submission %d with the verifier held: no answer", i))
		case isErr && code == 503:
			busy++
		case isErr:
			c.Report(c19f("answer/unexpected-error", trig, "submission %d with the verifier held: error %d", i, code))
		default:
			accepted++
			if busy > 0 {
				c.Report(c19f("answer/accepted-after-too-busy", trig, "submission %d was accepted although the queue had been reported full and nothing was consumed since", i))
			}
		}
	}
	// 1 held by the verifier + 128 queued
	if accepted != 129 || busy != total-129 {
		c.Report(c19f("queue/capacity", trig, "with the verifier held, %d submissions were accepted and %d told too busy (want 129 and %d)", accepted, busy, total-129))
	}
	// --- one free slot, several submitters at the same instant: the verifier is
	// stepped by one receipt (one slot becomes free, the verifier parks again on
	// the next receipt), then every connection submits at once. Exactly one is
	// accepted, the others are told too busy, and everybody is answered.
	if accepted == 129 && busy == total-129 {
		rounds := c.Pick(120, 1200)
		for round := 0; round < rounds; round++ {
			if _, err := p.RT("op=step&site=receipt.ReceiptHandler.VerifyPayload"); err != nil {
				c.Inconc("G11 rounds: " + err.Error())
				break
			}
			if _, err := p.RT("op=wait&site=receipt.ReceiptHandler.VerifyPayload&n=1&ms=4000"); err != nil {
				c.Inconc("G11 rounds: the verifier did not come back to the gate")
				break
			}
			rc := valid[round%len(valid)]
			ids := make([]uint32, len(cls))
			var wg sync.WaitGroup
			start := make(chan struct{})
			for i, cl := range cls {
				ids[i] = cl.NextReqID()
				wg.Add(1)
				go func(i int, cl *scen.C) {
					defer wg.Done()
					<-start
					cl.Send(&hagallpb.ReceiptRequest{Type: d.TReceiptReq, Timestamp: d.NewTag(), RequestId: ids[i], Receipt: fmt.Sprintf("%s#r%d-%d", rc.Receipt, round, i), Hash: rc.Hash, Signature: rc.Sig})
				}(i, cl)
			}
			close(start)
			wg.Wait()
			acc, bz := 0, 0
			stuck := false
			for i, cl := range cls {
				cl.Timeout = 5 * time.Second
				win, err := cl.Barrier()
				if err != nil {
					c.Report(c19f("answer/connection-blocked-or-ended", trig, "round %d: %d connections submitted a receipt at the same instant with one slot free in the queue (verifier held); connection %d then got no pong for 5 s: its main loop is blocked submitting (%v)", round, len(cls), i, err))
					stuck = true
					break
				}
				n := 0
				for _, e := range win {
					if f := e.M.ProtoReflect().Descriptor().Fields().ByName("request_id"); f != nil && uint32(e.M.ProtoReflect().Get(f).Uint()) == ids[i] {
						n++
						if code, isErr := scen.IsErr(e); isErr && code == 503 {
							bz++
						} else if !isErr {
							acc++
						}
					}
				}
				if n != 1 {
					c.Report(c19f("answer/exactly-once", trig, "round %d: the receipt request %d of connection %d got %d answers", round, ids[i], i, n))
					stuck = true
					break
				}
			}
			if stuck {
				break
			}
			st.submitted += len(cls)
			st.answered += acc + bz
			st.tooBusy += bz
			if acc != 1 || bz != len(cls)-1 {
				c.Report(c19f("queue/capacity", trig, "round %d: one slot was free and %d connections submitted at the same instant: %d accepted, %d told too busy (want 1 and %d)", round, len(cls), acc, bz, len(cls)-1))
				break
			}
			st.raceRounds++
		}
	}
	p.RT("op=release&site=receipt.ReceiptHandler.VerifyPayload")
	st.tooBusy += busy
	st.submitted += total
	st.answered += accepted + busy
	return reached
}

func partReceipts(c *check.Ctx, a *acc) {
	bin, err := c.WS.Build("lab", "plain")
	if err != nil {
		c.Inconc("build failed: " + err.Error())
		return
	}
	var mu sync.Mutex
	st := &c19stats{}
	r := rand.New(rand.NewSource(c.Seed*13 + 1))
	type sc struct {
		mode  string
		conns int
		n     int
	}
	var scs []sc
	for i, mode := range []string{"ok", "ok", "slow", "500", "down", "ok", "hang", "drop"} {
		n := c.Pick(72, 360)
		if mode == "hang" || mode == "drop" {
			n = 36 // each forward takes seconds
		}
		scs = append(scs, sc{mode, []int{1, 4, 2, 3, 2, 16, 4, 4}[i], n})
	}
	allCases := make([][]receiptCase, len(scs))
	for i := range scs {
		allCases[i] = receiptCases(r, fmt.Sprintf("s%d", i), scs[i].n)
	}
	parallel(len(scs), len(scs), func(i int) {
		runReceiptScenario(c, bin, scs[i].mode, scs[i].conns, allCases[i], st, &mu)
	})
	runReceiptBurst(c, bin, 8, c.Pick(57, 190), st, &mu)
	if !c.Quick() {
		runReceiptBurst(c, bin, 16, 95, st, &mu)
	}
	gateReached := queueFull(c, bin, st)
	c.Coverage["receipts_submitted"] = st.submitted
	c.Coverage["receipts_answered"] = st.answered
	c.Coverage["triples_valid"] = st.valid
	c.Coverage["triples_corrupted"] = st.invalid
	c.Coverage["triples_with_empty_field"] = st.empty
	c.Coverage["posts_seen_at_fake_credit_service"] = st.forwarded
	c.Coverage["too_busy_answers"] = st.tooBusy
	c.Coverage["queue_full_gate_reached"] = gateReached
	c.Coverage["one_free_slot_simultaneous_submission_rounds"] = st.raceRounds
	nontrivial := st.valid + st.invalid
	samples := []any{}
	for _, rc := range allCases[0][:8] {
		samples = append(samples, map[string]any{"engine": "C19 receipts", "case": rc.Name, "receipt": rc.Receipt, "independently_valid": rc.Valid})
	}
	a.add(st.submitted, nontrivial, "C19: valid triples (harness-signed) and every single-field corruption (hash bit flip, receipt edit, signature of 64/66 bytes, recovery id >= 4, r or s zero / = N, empty fields) submitted from 1-16 connections with the credit service ok / slow / hanging for seconds / dropping the connection after reading / answering 500 / down, plus a deterministic queue-full scenario (verifier held at a gate) followed by rounds in which the verifier is stepped by one receipt and four connections submit at the same instant into the single free slot (one accepted, three too busy, everybody answered); a case is a submitted triple, non-trivial when its forwarding (or absence) at the fake credit service was decided after all forwarding goroutines had ended and compared byte for byte", samples...)
}

// partReceiptsRealBinary: the wiring in cmd/main.go (receipt channel, receipt
// handler started, credit-service endpoint from the configuration).
func partReceiptsRealBinary(c *check.Ctx, a *acc) {
	bin, err := c.WS.Build("real", "plain")
	if err != nil {
		c.Inconc("real build failed: " + err.Error())
		return
	}
	defer func() {
		if r := recover(); r != nil {
			c.Inconc(fmt.Sprint("C19 real binary: ", r))
		}
	}()
	hds, err := fakes.NewHDS()
	if err != nil {
		panic(err)
	}
	defer hds.Close()
	ncs, err := fakes.NewNCS("ok")
	if err != nil {
		panic(err)
	}
	defer ncs.Close()
	p, err := c.WS.StartReal(bin, sut.RealOpts{HDS: hds.URL(), NCS: ncs.URL(), Name: "realrcpt"})
	if err != nil {
		panic(err)
	}
	defer p.Kill()
	started := time.Now()
	for k := 0; k < 4000 && hds.Secret() == ""; k++ {
		time.Sleep(10 * time.Millisecond)
	}
	if hds.Secret() == "" {
		panic("the real binary did not register")
	}
	token := signJWT("HS256", hds.Secret(), map[string]any{"alg": "HS256", "typ": "JWT"}, map[string]any{"exp": time.Now().Add(time.Hour).Unix()})
	cl, err := scen.DialReal(p, token)
	if err != nil {
		panic(err)
	}
	defer cl.Close()
	cases := receiptCases(rand.New(rand.NewSource(c.Seed*31+7)), "real", 36)
	valid, invalid := 0, 0
	for _, rc := range cases {
		a, _, err := cl.Do(&hagallpb.ReceiptRequest{Type: d.TReceiptReq, Timestamp: d.NewTag(), RequestId: cl.NextReqID(), Receipt: rc.Receipt, Hash: rc.Hash, Signature: rc.Sig})
		if err != nil || a == nil {
			c.Report(c19f("answer/none", "real-binary", "real binary: submitting %s got no answer (%v)", rc.Name, err))
			return
		}
	}
	if !awaitForwards(p) {
		c.Inconc("C19 real binary: forwarding goroutines did not finish")
		return
	}
	byText := map[string]int{}
	for _, po := range ncs.Posts() {
		byText[po.Receipt]++
	}
	for _, rc := range cases {
		if rc.Receipt == "" {
			if n := byText[""]; n > 0 {
				c.Report(c19f("forward/refused-receipt-forwarded", rc.Name, "real binary: the %s triple is answered with bad request, yet a receipt with empty text was POSTed to the credit service %d times", rc.Name, n))
			}
			invalid++
			continue
		}
		switch {
		case rc.Valid && byText[rc.Receipt] != 1:
			c.Report(c19f("forward/real-binary-valid-not-forwarded-once", "real-binary", "real binary: the valid receipt %q was POSTed %d times to the configured credit service", rc.Receipt, byText[rc.Receipt]))
		case !rc.Valid && byText[rc.Receipt] != 0:
			c.Report(c19f("forward/invalid-receipt-forwarded", rc.Name, "real binary: the %s triple was POSTed to the credit service", rc.Name))
		}
		if rc.Valid {
			valid++
		} else {
			invalid++
		}
	}
	c.Coverage["real_binary_receipts_valid"] = valid
	c.Coverage["real_binary_receipts_invalid"] = invalid
	// late submissions: the queue is still consumed and receipts are still
	// forwarded when the process has been up for a while (a consumer or a
	// forwarder living on a context with a deadline would have stopped)
	upFor := time.Duration(c.Pick(20, 75)) * time.Second
	if d := upFor - time.Since(started); d > 0 {
		time.Sleep(d)
	}
	late := receiptCases(rand.New(rand.NewSource(c.Seed*53+11)), "late", 8)
	lateValid := 0
	for _, rc := range late {
		if !rc.Valid {
			continue
		}
		lateValid++
		a, _, err := cl.Do(&hagallpb.ReceiptRequest{Type: d.TReceiptReq, Timestamp: d.NewTag(), RequestId: cl.NextReqID(), Receipt: rc.Receipt, Hash: rc.Hash, Signature: rc.Sig})
		if err != nil || a == nil || a.Type != d.TReceiptResp {
			c.Report(c19f("answer/unexpected-error", "real-binary-late", "real binary, up for %v: the valid receipt %q was answered %v (%v)", time.Since(started).Round(time.Second), rc.Receipt, a, err))
		}
	}
	if !awaitForwards(p) {
		c.Report(c19f("forward/valid-receipt-not-forwarded", "real-binary-late", "real binary, up for %v: the receipt handler is not waiting for receipts any more (its goroutine is gone or stuck): accepted receipts stay in the queue", time.Since(started).Round(time.Second)))
	}
	lateByText := map[string]int{}
	for _, po := range ncs.Posts() {
		lateByText[po.Receipt]++
	}
	for _, rc := range late {
		if rc.Valid && lateByText[rc.Receipt] != 1 {
			c.Report(c19f("forward/valid-receipt-not-forwarded", "real-binary-late", "real binary, up for %v: the valid receipt %q was answered accepted but POSTed %d times", time.Since(started).Round(time.Second), rc.Receipt, lateByText[rc.Receipt]))
		}
	}
	c.Coverage["real_binary_late_receipts_valid"] = lateValid
	c.Coverage["real_binary_uptime_at_late_submission"] = upFor.String()
	a.add(len(cases), valid+invalid, "E7: the same triples submitted to the real binary (cmd/main.go wiring of the receipt queue, the receipt handler and HAGALL_NCS_ENDPOINT) with a fake credit service: valid ones POSTed exactly once, invalid ones never",
		map[string]any{"engine": "C19 real binary", "valid": valid, "invalid": invalid})
}

func init() {
	registry["C19"] = func(c *check.Ctx) int {
		c.Level = "fault_enumeration"
		a := &acc{}
		// the real-binary part needs the process to have been up for a while before
		// its last phase: it runs next to the lab parts
		a2 := &acc{}
		var wg sync.WaitGroup
		wg.Add(1)
		go func() {
			defer wg.Done()
			partReceiptsRealBinary(c, a2)
		}()
		partReceipts(c, a)
		wg.Wait()
		a.add(a2.eval, a2.nontrivial, strings.Join(a2.rules, " || "), a2.samples...)
		return a.finish(c)
	}
}
