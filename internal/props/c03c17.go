package props

import (
	"fmt"
	"sort"
	"strings"
	"sync"
	"time"
	"verif/internal/e2"

	"github.com/aukilabs/hagall-common/messages/hagallpb"

	"verif/internal/check"
	d "verif/internal/driver"
	"verif/internal/e1"
	"verif/internal/fakes"
	"verif/internal/scen"
	"verif/internal/sut"
)

// parallel runs n jobs on up to w workers.
func parallel(n, w int, job func(i int)) {
	var wg sync.WaitGroup
	ch := make(chan int)
	for k := 0; k < w; k++ {
		wg.Add(1)
		go func() {
			defer wg.Done()
			for i := range ch {
				job(i)
			}
		}()
	}
	for i := 0; i < n; i++ {
		ch <- i
	}
	close(ch)
	wg.Wait()
}

func diffFinding(f *e1.Failure, engine string) *check.Finding {
	fd := e1Finding(f)
	fd.Engine = engine
	return fd
}

// partNoninterference: E5 for C03.
func partNoninterference(c *check.Ctx, a *acc, n int) {
	bin, err := c.WS.Build("lab", "plain")
	if err != nil {
		c.Inconc("build failed: " + err.Error())
		return
	}
	var mu sync.Mutex
	compared, nonEmpty, other, nontrivial, done := 0, 0, 0, 0, 0
	var samples []any
	profiles := []string{"isolation", "mixed", "relay", "component"}
	parallel(n, 16, func(i int) {
		cfg := e1.Config{Seed: c.Seed*2_000_003 + int64(i)*104729 + 5, Steps: 90, MaxConns: 6, MaxSess: 2, Mods: modSubsets[i%len(modSubsets)],
			Profile: profiles[i%len(profiles)], CheckEvery: 5, Avoid: avoidList()}
		res := e1.Noninterference(c.WS, bin, sut.LabOpts{Frame: 2 * time.Millisecond, Name: "ni"}, cfg)
		mu.Lock()
		defer mu.Unlock()
		done++
		if res.Fail != nil {
			c.Report(diffFinding(res.Fail, "E5 noninterference"))
			return
		}
		if res.Inconclusive != "" {
			c.Inconc(res.Inconclusive)
			return
		}
		compared += res.Compared
		nonEmpty += res.NonEmpty
		other += res.OtherSteps
		if res.Stats.Marks["sessions:coinciding-entity-ids"] > 0 && res.NonEmpty > 0 && res.OtherSteps > 0 {
			nontrivial++
			if len(samples) < 2 {
				samples = append(samples, map[string]any{"engine": "E5 noninterference", "config": cfg.String(), "first_steps": res.Head,
					"windows_compared": res.Compared, "non_empty": res.NonEmpty, "other_group_steps_checked_silent": res.OtherSteps})
			}
		}
	})
	c.Coverage["noninterference_runs"] = done
	c.Coverage["noninterference_windows_compared"] = compared
	c.Coverage["noninterference_nonempty_windows"] = nonEmpty
	c.Coverage["noninterference_foreign_steps_checked_silent"] = other
	a.add(done, nontrivial, "E5: a two-group history (connections of one group never share a session with the other) is re-run on a fresh process with the other group's traffic removed and the per-step windows of the remaining connections are compared after normalising timestamps, UUIDs and session id strings; non-trivial when at least 2 sessions with a coinciding entity id were live and non-empty windows were compared", samples...)
}

// reproDeferredCrossing is the deterministic reproducer of the listed finding
// isolation/deferred-update-crosses-session-boundary (G10): a pose update sent
// by a connection that is in no session is executed in the session it joins
// afterwards.
func reproDeferredCrossing(c *check.Ctx, a *acc) {
	bin, err := c.WS.Build("lab", "plain")
	if err != nil {
		c.Inconc("build failed: " + err.Error())
		return
	}
	observed := false
	for try := 0; try < 4 && !observed; try++ {
		func() {
			p, err := c.WS.StartLab(bin, sut.LabOpts{Frame: 300 * time.Millisecond, Name: "g10"})
			if err != nil {
				c.Inconc(err.Error())
				return
			}
			defer p.Kill()
			defer func() {
				if r := recover(); r != nil {
					c.Inconc(fmt.Sprint("G10: ", r))
				}
			}()
			w := scen.MustDial(p, "")
			defer w.Close()
			if _, _, err := w.Join(""); err != nil {
				panic(err)
			}
			w.AddEntity(false, 1) // entity 1 of the witness
			x := scen.MustDial(p, "")
			defer x.Close()
			// sent while x is in no session: names the id x's first entity will get
			tag, _ := x.Pose(2, 777)
			x.Barrier()
			if _, _, err := x.Join(w.SID); err != nil {
				panic(err)
			}
			w.Barrier() // consume the join relay
			eid, _ := x.AddEntity(false, 5)
			if ok, _, _ := p.WaitTicks(w.SID, 3, 5*time.Second); !ok {
				panic("no ticks")
			}
			x.Barrier()
			win, _ := w.Barrier()
			for _, e := range win {
				if pb, ok := e.M.(*hagallpb.EntityUpdatePoseBroadcast); ok && d.TagID(pb.OriginTimestamp) == d.TagID(tag) {
					observed = true
					c.Report(&check.Finding{Props: []string{"C03", "C04"}, Clause: "isolation/deferred-update-crosses-session-boundary", Engine: "G10 reproducer",
						Detail: fmt.Sprintf("x sent a pose update for entity 2 while in no session, then joined %s and created entity %d: the witness received %s", w.SID, eid, e)})
				}
			}
		}()
	}
	a.add(1, 0, "")
	c.Coverage["g10_reproducer_observed"] = observed
}

func init() {
	registry["C03"] = func(c *check.Ctx) int {
		a := &acc{}
		partE1(c, a, e1Batch{Profiles: []string{"isolation", "mixed", "dagaz"}, Histories: c.Pick(180, 1800), Steps: c.Pick(100, 160), MaxConns: 6, MaxSess: 3},
			"at least 2 sessions holding a coinciding entity id were live at once",
			func(s *e1.Stats) bool { return marks(s, "sessions:coinciding-entity-ids") })
		partNoninterference(c, a, c.Pick(64, 640))
		reproDeferredCrossing(c, a)
		partIntegrityStorm(c, a)
		partRealBinaryIntegrity(c, a, false)
		// what ends or begins in one session must not touch another one's registration
		partGated(c, a, []func(*sut.Proc) *e2.Result{e2.G3LateUnregister, e2.G3cLastLeaveVsCreate}, c.Pick(1, 4))
		partStepThrough(c, a, []string{"lastleave", "create", "leave"})
		partSwitchPending(c, a) // nothing of a member survives in the session it left by switching
		partLagSenders(c, a)    // a stalled member of one session does not hold up anybody outside it
		return a.finish(c)
	}
	registry["C17"] = checkC17
}

var allFlags = func() []string {
	var out []string
	for f := range e1.FlagClass {
		out = append(out, f)
	}
	sort.Strings(out)
	return out
}()

func flagSubset(mask int) []string {
	var out []string
	for i, f := range allFlags {
		if mask&(1<<i) != 0 {
			out = append(out, f)
		}
	}
	return out
}

func checkC17(c *check.Ctx) int {
	a := &acc{}
	bin, err := c.WS.Build("lab", "plain")
	if err != nil {
		c.Inconc("build failed: " + err.Error())
		return a.finish(c)
	}
	// configurations: quick = empty set, the 10 singletons, the full set, 40
	// seeded subsets, 4 sets with unknown names; thorough = all 1024 subsets x 3 histories
	type job struct {
		flags []string
		hist  int
	}
	var jobs []job
	unknown := [][]string{{"DISABLE_NOTHING"}, {"disable_session_state"}, {"DISABLE_ENTITY_ADD_BROADCAST ", "X"}, {"", "DISABLE_PARTICIPANT_JOIN"},
		{"", allFlags[int(c.Seed)%len(allFlags)]}, {allFlags[int(c.Seed+4)%len(allFlags)], "", allFlags[int(c.Seed+7)%len(allFlags)]}}
	if c.Quick() {
		jobs = append(jobs, job{nil, 0})
		for i := range allFlags {
			jobs = append(jobs, job{flagSubset(1 << i), i % 3})
		}
		jobs = append(jobs, job{flagSubset(1023), 1})
		x := uint64(c.Seed)*6364136223846793005 + 1442695040888963407
		for i := 0; i < 40; i++ {
			x = x*6364136223846793005 + 1442695040888963407
			jobs = append(jobs, job{flagSubset(int(x>>33) % 1024), i % 3})
		}
	} else {
		for m := 0; m < 1024; m++ {
			for h := 0; h < 3; h++ {
				jobs = append(jobs, job{flagSubset(m), h})
			}
		}
		c.Coverage["exhaustive"] = true
		c.Coverage["exhaustive_dimension"] = "all 1024 subsets of the ten DISABLE_* flags (x 3 histories each); histories themselves are sampled"
	}
	for i, u := range unknown {
		jobs = append(jobs, job{u, i % 3})
		jobs = append(jobs, job{append(append([]string(nil), u...), flagSubset(1<<uint(i))...), i % 3})
	}
	var mu sync.Mutex
	done, nontrivial, compared, suppressed := 0, 0, 0, 0
	subsets := map[string]bool{}
	var samples []any
	profiles := []string{"relay", "view", "subscribe", "departure", "component", "mixed"}
	parallel(len(jobs), 16, func(i int) {
		j := jobs[i]
		// the history is chosen by the position in the job list: every flag set
		// meets several histories over the seeds, and a run covers 12 of them
		h := (j.hist*4 + i) % 12
		cfg := e1.Config{Seed: c.Seed*3_000_017 + int64(h)*7907 + 3, Steps: 120, MaxConns: 5, MaxSess: 2, Mods: "vod",
			Profile: profiles[h%len(profiles)], CheckEvery: 6, Avoid: avoidList()}
		res := e1.FlagDiff(c.WS, bin, sut.LabOpts{Frame: 2 * time.Millisecond, Name: "flag"}, cfg, j.flags)
		mu.Lock()
		defer mu.Unlock()
		done++
		if res.Fail != nil {
			fd := diffFinding(res.Fail, "E5 flag differential")
			fd.Trigger = strings.Join(j.flags, "+")
			if !fd.Concerns("C17") {
				fd.Props = append(fd.Props, "C17")
			}
			c.Report(fd)
			return
		}
		if res.Inconclusive != "" {
			c.Inconc(res.Inconclusive)
			return
		}
		compared += res.Compared
		suppressed += res.Suppressed
		key := strings.Join(j.flags, ",")
		known := 0
		for _, f := range j.flags {
			if _, ok := e1.FlagClass[f]; ok {
				known++
			}
		}
		if (known == 0 || res.Suppressed > 0) && res.NonEmpty > res.Suppressed && !subsets[key] {
			subsets[key] = true
			nontrivial++
			if len(samples) < 3 && known > 0 {
				samples = append(samples, map[string]any{"engine": "E5 flag differential", "flags": j.flags, "config": cfg.String(), "first_steps": res.Head,
					"windows_compared": res.Compared, "events_suppressed": res.Suppressed})
			}
		}
	})
	c.Coverage["flag_sets_run"] = done
	c.Coverage["distinct_flag_sets_nontrivial"] = len(subsets)
	c.Coverage["windows_compared"] = compared
	c.Coverage["events_removed_by_flag_filter"] = suppressed
	partFlagScript(c, a, bin)
	partFlagsRealBinary(c, a)
	partRegistryUnderFlags(c, a)
	a.add(done, nontrivial, "E5: one recorded sequential history is executed without flags and again under a flag set (lab SUT, flags per connection); every per-step window under flags must equal the flag-free window minus the classes named by the set flags, and both runs are judged by the flag-aware reference model (state via a flag-free probe); a flag set is distinct by its members and non-trivial when at least one message was actually suppressed and at least one unsuppressed message was still delivered (unknown-name sets: nothing suppressed, something delivered)", samples...)
	return a.finish(c)
}

// partFlagsRealBinary: E7 sample - the real binary started with
// HAGALL_FEATURE_FLAGS (cmd/main.go -> featureflag.New): a fixed script, and
// the number of messages of each class must be the flag-free number, or zero
// for the classes named by the flags.
func partFlagsRealBinary(c *check.Ctx, a *acc) {
	bin, err := c.WS.Build("real", "plain")
	if err != nil {
		c.Inconc("real build failed: " + err.Error())
		return
	}
	want := map[int32]int{d.TSessionState: 3, d.TJoinBcast: 3, d.TEntityAddBcast: 2, d.TCompAddBcast: 2, d.TCompUpdateBcast: 2, d.TPoseBcast: 2,
		d.TCustomBcast: 2, d.TCompDelBcast: 2, d.TEntityDelBcast: 2, d.TLeaveBcast: 2}
	var sets [][]string
	sets = append(sets, nil, flagSubset(1023), []string{"DISABLE_UNKNOWN_THING", "disable_session_state"},
		[]string{"", allFlags[int(c.Seed+1)%len(allFlags)]}, []string{allFlags[int(c.Seed+2)%len(allFlags)], "", "DISABLE_NOTHING", allFlags[int(c.Seed+5)%len(allFlags)]})
	for i := range allFlags {
		if c.Quick() && i%3 != int(c.Seed)%3 {
			continue
		}
		sets = append(sets, flagSubset(1<<i))
	}
	x := uint64(c.Seed)*2862933555777941757 + 3037000493
	for i := 0; i < c.Pick(2, 12); i++ {
		x = x*2862933555777941757 + 3037000493
		sets = append(sets, flagSubset(int(x>>35)%1024))
	}
	var mu sync.Mutex
	done, nontrivial := 0, 0
	var samples []any
	parallel(len(sets), 6, func(i int) {
		flags := sets[i]
		trig := strings.Join(flags, "+")
		defer func() {
			if r := recover(); r != nil {
				c.Inconc(fmt.Sprint("C17 real binary ", flags, ": ", r))
			}
		}()
		hds, err := fakes.NewHDS()
		if err != nil {
			panic(err)
		}
		defer hds.Close()
		p, err := c.WS.StartReal(bin, sut.RealOpts{HDS: hds.URL(), NCS: fakes.ClosedPortURL(), Flags: flags, Frame: 2 * time.Millisecond, Name: "realflags"})
		if err != nil {
			panic(err)
		}
		defer p.Kill()
		for k := 0; k < 4000 && hds.Secret() == ""; k++ {
			time.Sleep(10 * time.Millisecond)
		}
		if hds.Secret() == "" {
			panic("not registered")
		}
		token := signJWT("HS256", hds.Secret(), map[string]any{"alg": "HS256", "typ": "JWT"}, map[string]any{"exp": time.Now().Add(time.Hour).Unix()})
		dial := func() *scen.C {
			cl, err := scen.DialReal(p, token)
			if err != nil {
				panic(err)
			}
			return cl
		}
		ok := func(e *d.Event, err error, what string) {
			if err != nil || e == nil || e.Type == d.TError {
				c.Report(&check.Finding{Props: []string{"C17"}, Clause: "flags/request-outcome-changed", Trigger: trig, Engine: "E7 real binary flags",
					Detail: fmt.Sprintf("under HAGALL_FEATURE_FLAGS=%v the request %q did not succeed: %v %v", flags, what, e, err)})
			}
		}
		A, B, C := dial(), dial(), dial()
		defer A.Close()
		defer B.Close()
		defer C.Close()
		var all []*d.Event
		keep := func(cl *scen.C) { all = append(all, cl.Extra...) }
		jr, ev, err := A.Join("")
		ok(ev, err, "join (create)")
		keep(A)
		if jr == nil {
			return
		}
		_, ev, err = B.Join(jr.SessionId)
		ok(ev, err, "join B")
		keep(B)
		_, ev, err = C.Join(jr.SessionId)
		ok(ev, err, "join C")
		keep(C)
		typ, err := A.AddType("T")
		if err != nil || typ == 0 {
			panic("type add")
		}
		keep(A)
		ev, err = B.Subscribe(typ)
		ok(ev, err, "subscribe B")
		keep(B)
		ev, err = C.Subscribe(typ)
		ok(ev, err, "subscribe C")
		keep(C)
		e, err := A.AddEntity(false, 1)
		if err != nil || e == 0 {
			panic("entity add")
		}
		keep(A)
		ev, err = A.AddComp(typ, e, "v1")
		ok(ev, err, "component add")
		keep(A)
		A.UpdateComp(typ, e, "v2")
		A.Pose(e, 42)
		A.Custom([]byte("hello"))
		// deferred relays: wait (bounded) until B has what it must get, or for 60 frames when nothing is owed
		expPose, expUpd := 1, 1
		for _, f := range flags {
			if f == "DISABLE_ENTITY_UPDATE_POSE_BROADCAST" {
				expPose = 0
			}
			if f == "DISABLE_ENTITY_COMPONENT_UPDATE_BROADCAST" {
				expUpd = 0
			}
		}
		gotPose, gotUpd := 0, 0
		deadline := time.Now().Add(5 * time.Second)
		quiet := time.Now().Add(120 * time.Millisecond)
		for time.Now().Before(deadline) {
			w, err := B.Barrier()
			if err != nil {
				panic(err)
			}
			all = append(all, w...)
			for _, x := range w {
				if x.Type == d.TPoseBcast {
					gotPose++
				}
				if x.Type == d.TCompUpdateBcast {
					gotUpd++
				}
			}
			if gotPose >= expPose && gotUpd >= expUpd && time.Now().After(quiet) {
				break
			}
			time.Sleep(2 * time.Millisecond)
		}
		ev, err = A.DelComp(typ, e)
		ok(ev, err, "component delete")
		keep(A)
		ev, err = A.DeleteEntity(e)
		ok(ev, err, "entity delete")
		keep(A)
		wc, _ := C.Barrier()
		all = append(all, wc...)
		C.Close()
		C.WaitClosed()
		// the leave relay: bounded wait at A
		for k := 0; k < 500; k++ {
			w, err := A.Barrier()
			if err != nil {
				panic(err)
			}
			all = append(all, w...)
			seen := false
			for _, x := range all {
				if x.Type == d.TLeaveBcast {
					seen = true
				}
			}
			if seen || k > 60 && contains(flags, "DISABLE_PARTICIPANT_LEAVE_BROADCAST") {
				break
			}
			time.Sleep(2 * time.Millisecond)
		}
		w, _ := B.Barrier()
		all = append(all, w...)
		got := map[int32]int{}
		for _, x := range all {
			got[x.Type]++
		}
		suppressed := 0
		bad := false
		for t, n := range want {
			exp := n
			for _, f := range flags {
				if e1.FlagClass[f] == t && f != "" {
					if _, known := e1.FlagClass[f]; known {
						exp = 0
					}
				}
			}
			if exp == 0 {
				suppressed++
			}
			if got[t] != exp {
				bad = true
				c.Report(&check.Finding{Props: []string{"C17"}, Clause: "flags/class-count", Trigger: trig, Engine: "E7 real binary flags",
					Detail: fmt.Sprintf("real binary with HAGALL_FEATURE_FLAGS=%v: %d messages of class %s were received over the fixed script, expected %d", flags, got[t], d.TypeName(t), exp)})
			}
		}
		mu.Lock()
		defer mu.Unlock()
		done++
		if !bad {
			nontrivial++
			if len(samples) < 2 {
				samples = append(samples, map[string]any{"engine": "E7 real binary flags", "flags": flags, "classes_suppressed": suppressed, "messages_by_type": fmt.Sprint(got)})
			}
		}
	})
	c.Coverage["real_binary_flag_sets"] = done
	a.add(done, nontrivial, "E7: the real binary is started with HAGALL_FEATURE_FLAGS set to a flag subset (the empty set, the full set, unknown names, singletons, seeded subsets) and a fixed script of three clients is played; per message class the number received must be the flag-free number, or zero for the classes named by the flags, and every request must succeed", samples...)
}

func contains(l []string, s string) bool {
	for _, x := range l {
		if x == s {
			return true
		}
	}
	return false
}

// partRegistryUnderFlags: the flags change what is relayed, never what
// succeeds or what the server holds - also under concurrency. The registry
// scenarios whose oracles do not look at relays (join answers, probes, gauge,
// frame workers) are run with all ten DISABLE_* flags set on every harness
// connection (probes carry none): the gates G1 / G3c and the
// free-running join-by-id x last-departure race storm.
func partRegistryUnderFlags(c *check.Ctx, a *acc) {
	scen.DefaultFlags = strings.Join(flagSubset(1023), ",")
	defer func() { scen.DefaultFlags = "" }()
	// (G2 / G3 park the leavers at their leave relay, which does not happen under the leave-broadcast flag)
	partGated(c, a, []func(*sut.Proc) *e2.Result{e2.G1JoinVsLastLeave, e2.G3cLastLeaveVsCreate}, c.Pick(1, 4))
	bin, err := c.WS.Build("lab", "plain")
	if err != nil {
		c.Inconc("build failed: " + err.Error())
		return
	}
	n := c.Pick(4, 24)
	var mu sync.Mutex
	races, accepted, done := 0, 0, 0
	parallel(n, 4, func(i int) {
		opts := sut.LabOpts{Name: "flagrace"}
		if i%2 == 1 {
			opts.RT = "jitter"
		}
		p, err := c.WS.StartLab(bin, opts)
		if err != nil {
			c.Inconc(err.Error())
			return
		}
		defer p.Kill()
		nr, na, fs, inc := e2.JoinLeaveRaceStorm(p, 8, c.Pick(40, 160), c.Seed*37+int64(i))
		mu.Lock()
		defer mu.Unlock()
		done++
		races += nr
		accepted += na
		for _, f := range fs {
			f.Props = append(f.Props, "C17")
			f.Trigger += " under all DISABLE_* flags"
			c.Report(f)
		}
		for _, s := range inc {
			c.Inconc(s)
		}
	})
	c.Coverage["registry_races_under_all_flags"] = races
	c.Coverage["registry_races_under_all_flags_join_accepted"] = accepted
	a.add(done, done, "registry under flags: the gated join / last-departure / creation overlaps and the free-running join-by-id x last-departure race storm with all ten DISABLE_* flags set on the racing connections (probes flag-free): join answers, findability, gauge and frame workers must be what they are without flags",
		map[string]any{"engine": "E2 registry under flags", "races": races, "joins_accepted": accepted})
}

// partFlagScript: the directed departure script (e1.DepartureScript) without
// flags and under flag sets - the bookkeeping of a departure (subscriptions,
// entities, attachments) does not depend on the flags the leaver carries.
func partFlagScript(c *check.Ctx, a *acc, bin string) {
	type job struct {
		flags   []string
		variant int
	}
	var jobs []job
	if c.Quick() {
		jobs = append(jobs, job{nil, int(c.Seed) % 8})
		for i := range allFlags {
			jobs = append(jobs, job{flagSubset(1 << i), (i + int(c.Seed)) % 8})
		}
		jobs = append(jobs, job{flagSubset(1023), 0}, job{flagSubset(1023), 1})
		x := uint64(c.Seed)*6364136223846793005 + 99
		for i := 0; i < 8; i++ {
			x = x*6364136223846793005 + 1442695040888963407
			jobs = append(jobs, job{flagSubset(int(x>>33) % 1024), i % 8})
		}
	} else {
		for m := 0; m < 1024; m++ {
			jobs = append(jobs, job{flagSubset(m), m % 8}, job{flagSubset(m), (m + 3) % 8})
		}
	}
	// the configured value is a list, not a set: empty and unknown names at any
	// position, repeated names, any order - a known flag keeps its effect
	for i, f := range allFlags {
		g := allFlags[(i+3)%len(allFlags)]
		lists := [][]string{{"", f}, {g, "", f}, {"DISABLE_NOTHING", f, ""}, {f, f}, {g, f}, {f, g}, {" ", f}}
		for k, l := range lists {
			if c.Quick() && (i+k+int(c.Seed))%3 != 0 {
				continue
			}
			jobs = append(jobs, job{l, (i + k) % 8})
		}
	}
	var mu sync.Mutex
	done, nontrivial, compared, suppressed := 0, 0, 0, 0
	parallel(len(jobs), 16, func(i int) {
		j := jobs[i]
		cfg := e1.Config{Seed: c.Seed, MaxConns: 4, MaxSess: 2, Mods: "vod", CheckEvery: 5, Avoid: avoidList()}
		res := e1.FlagDiffScript(c.WS, bin, sut.LabOpts{Frame: 2 * time.Millisecond, Name: "flagscript"}, cfg, j.flags, e1.DepartureScript(j.variant))
		mu.Lock()
		defer mu.Unlock()
		done++
		if res.Fail != nil {
			fd := diffFinding(res.Fail, "E5 flag differential, departure script")
			fd.Trigger = "script/" + strings.Join(j.flags, "+")
			if !fd.Concerns("C17") {
				fd.Props = append(fd.Props, "C17")
			}
			c.Report(fd)
			return
		}
		if res.Inconclusive != "" {
			c.Inconc(res.Inconclusive)
			return
		}
		compared += res.Compared
		suppressed += res.Suppressed
		if len(j.flags) == 0 || res.Suppressed > 0 {
			nontrivial++
		}
	})
	c.Coverage["flag_script_runs"] = done
	c.Coverage["flag_script_windows_compared"] = compared
	c.Coverage["flag_script_events_removed_by_flag_filter"] = suppressed
	a.add(done, nontrivial, "E5 departure script: a directed history in which every suppressible class occurs and the sole subscriber of a component type leaves (close, reset or session switch) before components of that type are added and deleted in front of a bystander, owners with attachments leave and a newcomer is handed the state; run without flags and under a flag set, compared window by window and judged by the flag-aware model; non-trivial when the flag set suppressed something",
		map[string]any{"engine": "E5 flag differential, departure script", "runs": done, "windows_compared": compared})
}

// partDepartureScripts: the directed departure scripts (all variants) judged by
// the reference model - subscriptions, entities and attachments of a leaver
// end whatever redundant requests it made before (C06).
func partDepartureScripts(c *check.Ctx, a *acc) {
	bin, err := c.WS.Build("lab", "plain")
	if err != nil {
		c.Inconc("build failed: " + err.Error())
		return
	}
	var mu sync.Mutex
	done := 0
	mods := []string{"vod", "", "vo", "d"}
	n := 8 * len(mods)
	parallel(n, 8, func(i int) {
		cfg := e1.Config{Seed: c.Seed + int64(i), MaxConns: 4, MaxSess: 2, Mods: mods[i/8], CheckEvery: 4, Avoid: avoidList()}
		r, err := e1.RunScript(c.WS, bin, sut.LabOpts{Frame: 2 * time.Millisecond, Name: "depscript"}, cfg, e1.DepartureScript(i%8))
		mu.Lock()
		defer mu.Unlock()
		if err != nil {
			c.Inconc(err.Error())
			return
		}
		if r.Inconclusive != "" {
			c.Inconc(r.Inconclusive)
			return
		}
		done++
		if r.Fail != nil {
			fd := e1Finding(r.Fail)
			fd.Trigger = fmt.Sprintf("departure-script/%d", i%8)
			fd.Engine = "E1 departure script"
			if !fd.Concerns("C06") {
				fd.Props = append(fd.Props, "C06")
			}
			c.Report(fd)
		}
	})
	c.Coverage["departure_scripts_run"] = done
	a.add(done, done, "E1 departure scripts: directed histories (8 variants x 4 module subsets) in which the sole subscriber of a component type leaves by close, reset or session switch - in half of them after redundant unsubscribes (repeated, never subscribed, unknown type) - before components of that type are added and deleted in front of a bystander, a newcomer becomes the sole subscriber and leaves again, and owners of entities with components leave; judged step by step by the reference model",
		map[string]any{"engine": "E1 departure script", "runs": done})
}

// partIDScripts: directed histories about ids across session switches (C10).
func partIDScripts(c *check.Ctx, a *acc) {
	bin, err := c.WS.Build("lab", "plain")
	if err != nil {
		c.Inconc("build failed: " + err.Error())
		return
	}
	var mu sync.Mutex
	done := 0
	mods := []string{"vod", "o", "od"}
	n := 6 * len(mods)
	parallel(n, 8, func(i int) {
		cfg := e1.Config{Seed: c.Seed + int64(i), MaxConns: 4, MaxSess: 2, Mods: mods[i/6], CheckEvery: 5, Avoid: avoidList()}
		r, err := e1.RunScript(c.WS, bin, sut.LabOpts{Frame: 2 * time.Millisecond, Name: "idscript"}, cfg, e1.IDScript(i%6+(i%2)*3))
		mu.Lock()
		defer mu.Unlock()
		if err != nil {
			c.Inconc(err.Error())
			return
		}
		if r.Inconclusive != "" {
			c.Inconc(r.Inconclusive)
			return
		}
		done++
		if r.Fail != nil {
			fd := e1Finding(r.Fail)
			fd.Trigger = fmt.Sprintf("id-script/%d", i%6)
			fd.Engine = "E1 id script"
			if !fd.Concerns("C10") {
				fd.Props = append(fd.Props, "C10")
			}
			c.Report(fd)
		}
	})
	c.Coverage["id_scripts_run"] = done
	a.add(done, done, "E1 id scripts: directed histories in which members switch from a session holding 0-2 asset instances to a fresh one (owning nothing, or an entity with an asset) and allocate entities and asset instances there interleaved with a member that joined it directly, release and allocate again, and go back; every id issued is judged by the model (unique per session and id space, never reissued)",
		map[string]any{"engine": "E1 id script", "runs": done})
}
