package props

import (
	"bufio"
	"crypto/hmac"
	"crypto/sha256"
	"crypto/sha512"
	"encoding/base64"
	"encoding/json"
	"fmt"
	"hash"
	"io"
	"net"
	"net/http"
	"net/url"
	"strconv"
	"strings"
	"sync"
	"sync/atomic"
	"time"

	"verif/internal/check"
	"verif/internal/fakes"
	"verif/internal/sut"
)

// ---- the harness's own JWT code (independent of golang-jwt)

func b64(b []byte) string { return base64.RawURLEncoding.EncodeToString(b) }

func signJWT(alg, secret string, header, claims map[string]any) string {
	hb, _ := json.Marshal(header)
	cb, _ := json.Marshal(claims)
	in := b64(hb) + "." + b64(cb)
	return in + "." + b64(macFor(alg, secret, in))
}

func macFor(alg, secret, in string) []byte {
	var h func() hash.Hash
	switch alg {
	case "HS256":
		h = sha256.New
	case "HS384":
		h = sha512.New384
	case "HS512":
		h = sha512.New
	default:
		return nil
	}
	m := hmac.New(h, []byte(secret))
	m.Write([]byte(in))
	return m.Sum(nil)
}

// verifies is the independent verifier: does the token verify against secret now?
func verifies(token, secret string, now time.Time) bool {
	if secret == "" {
		return false
	}
	parts := strings.Split(token, ".")
	if len(parts) != 3 {
		return false
	}
	hb, err := base64.RawURLEncoding.DecodeString(parts[0])
	if err != nil {
		return false
	}
	var hdr map[string]any
	if json.Unmarshal(hb, &hdr) != nil {
		return false
	}
	alg, _ := hdr["alg"].(string)
	want := macFor(alg, secret, parts[0]+"."+parts[1])
	if want == nil {
		return false
	}
	sig, err := base64.RawURLEncoding.DecodeString(parts[2])
	if err != nil || !hmac.Equal(sig, want) {
		return false
	}
	cb, err := base64.RawURLEncoding.DecodeString(parts[1])
	if err != nil {
		return false
	}
	var claims map[string]any
	if json.Unmarshal(cb, &claims) != nil {
		return false
	}
	num := func(k string) (float64, bool) {
		v, ok := claims[k].(float64)
		return v, ok
	}
	t := float64(now.Unix())
	if exp, ok := num("exp"); ok && t >= exp {
		return false
	}
	if nbf, ok := num("nbf"); ok && t < nbf {
		return false
	}
	if iat, ok := num("iat"); ok && iat-t >= 10 {
		return false
	}
	return true
}

type tokenCase struct {
	Name  string
	Token string
}

// tokenCatalogue: a valid token and every single mutation of it. Expiry cases
// are an hour away from the boundary: the boundary itself depends on the wall
// clock and is not examined.
func tokenCatalogue(secret string) []tokenCase {
	now := time.Now()
	hdr := map[string]any{"alg": "HS256", "typ": "JWT"}
	claims := func() map[string]any {
		return map[string]any{"iss": "HDS", "iat": now.Unix() - 5, "exp": now.Add(time.Hour).Unix(), "jti": "id-1", "app_key": "app"}
	}
	var out []tokenCase
	add := func(n, t string) { out = append(out, tokenCase{n, t}) }
	valid := signJWT("HS256", secret, hdr, claims())
	add("valid", valid)
	add("valid-no-app-key", signJWT("HS256", secret, hdr, map[string]any{"exp": now.Add(time.Hour).Unix()}))
	add("valid-no-exp", signJWT("HS256", secret, hdr, map[string]any{"iss": "HDS", "app_key": "x"}))
	add("valid-extra-header-field", signJWT("HS256", secret, map[string]any{"alg": "HS256", "typ": "JWT", "kid": "k1"}, claims()))
	add("valid-hs384", signJWT("HS384", secret, map[string]any{"alg": "HS384", "typ": "JWT"}, claims()))
	add("valid-hs512", signJWT("HS512", secret, map[string]any{"alg": "HS512", "typ": "JWT"}, claims()))
	// signature
	parts := strings.Split(valid, ".")
	flip := func(s string, i int) string {
		b := []byte(s)
		if b[i] == 'A' {
			b[i] = 'B'
		} else {
			b[i] = 'A'
		}
		return string(b)
	}
	add("sig-first-char", parts[0]+"."+parts[1]+"."+flip(parts[2], 0))
	add("sig-middle-char", parts[0]+"."+parts[1]+"."+flip(parts[2], len(parts[2])/2))
	add("sig-truncated", parts[0]+"."+parts[1]+"."+parts[2][:len(parts[2])-4])
	add("sig-empty", parts[0]+"."+parts[1]+".")
	add("sig-other-secret", signJWT("HS256", secret+"x", hdr, claims()))
	add("sig-empty-secret", signJWT("HS256", "", hdr, claims()))
	add("sig-of-other-token", parts[0]+"."+parts[1]+"."+strings.Split(signJWT("HS256", secret, hdr, map[string]any{"exp": now.Add(2 * time.Hour).Unix()}), ".")[2])
	// header
	none := map[string]any{"alg": "none", "typ": "JWT"}
	nb, _ := json.Marshal(none)
	add("alg-none-empty-sig", b64(nb)+"."+parts[1]+".")
	add("alg-none-original-sig", b64(nb)+"."+parts[1]+"."+parts[2])
	for _, alg := range []string{"RS256", "ES256", "hs256", "HS257", ""} {
		hb, _ := json.Marshal(map[string]any{"alg": alg, "typ": "JWT"})
		in := b64(hb) + "." + parts[1]
		add("alg-"+alg+"-hmac-sig", in+"."+b64(macFor("HS256", secret, in)))
	}
	add("header-not-json", b64([]byte("not json"))+"."+parts[1]+"."+parts[2])
	add("header-flipped", flip(parts[0], 3)+"."+parts[1]+"."+parts[2])
	// payload
	add("payload-flipped", parts[0]+"."+flip(parts[1], 5)+"."+parts[2])
	other, _ := json.Marshal(map[string]any{"app_key": "admin", "exp": now.Add(time.Hour).Unix()})
	add("payload-replaced", parts[0]+"."+b64(other)+"."+parts[2])
	add("expired-1h", signJWT("HS256", secret, hdr, map[string]any{"iat": now.Add(-2 * time.Hour).Unix(), "exp": now.Add(-time.Hour).Unix()}))
	add("not-before-1h", signJWT("HS256", secret, hdr, map[string]any{"nbf": now.Add(time.Hour).Unix(), "exp": now.Add(2 * time.Hour).Unix()}))
	add("issued-in-1h", signJWT("HS256", secret, hdr, map[string]any{"iat": now.Add(time.Hour).Unix(), "exp": now.Add(2 * time.Hour).Unix()}))
	add("payload-not-json", func() string {
		in := parts[0] + "." + b64([]byte("{not json"))
		return in + "." + b64(macFor("HS256", secret, in))
	}())
	// structure
	add("empty", "")
	add("one-part", parts[0])
	add("two-parts", parts[0]+"."+parts[1])
	add("four-parts", valid+".x")
	add("garbage", "!!!not-a-token!!!")
	add("the-secret-itself", secret)
	add("oversized", valid+strings.Repeat("A", 60000))
	return out
}

// ---- requests

type authResult struct {
	Admitted bool
	Status   string
}

// wsUpgrade performs a raw WebSocket upgrade request and reports whether the
// server switched protocols. The connection is closed at once.
func wsUpgrade(addr, method string, header http.Header, query url.Values, cookie string) (authResult, error) {
	if method == "" {
		method = "GET"
	}
	c, err := net.DialTimeout("tcp", addr, 5*time.Second)
	if err != nil {
		return authResult{}, err
	}
	defer c.Close()
	c.SetDeadline(time.Now().Add(10 * time.Second))
	path := "/"
	if len(query) > 0 {
		path += "?" + query.Encode()
	}
	var sb strings.Builder
	fmt.Fprintf(&sb, method+" %s HTTP/1.1\r\nHost: %s\r\nUpgrade: websocket\r\nConnection: Upgrade\r\nSec-WebSocket-Key: dGhlIHNhbXBsZSBub25jZQ==\r\nSec-WebSocket-Version: 13\r\nOrigin: http://localhost\r\n", path, addr)
	for k, vs := range header {
		for _, v := range vs {
			fmt.Fprintf(&sb, "%s: %s\r\n", k, v)
		}
	}
	if cookie != "" {
		fmt.Fprintf(&sb, "Cookie: access_token=%s\r\n", cookie)
	}
	sb.WriteString("\r\n")
	if _, err := c.Write([]byte(sb.String())); err != nil {
		return authResult{}, err
	}
	line, err := bufio.NewReader(c).ReadString('\n')
	if err != nil {
		return authResult{}, err
	}
	return authResult{Admitted: strings.Contains(line, " 101 "), Status: strings.TrimSpace(line)}, nil
}

func smokeTest(addr, method, path string, header http.Header, query url.Values, cookie, body string) (authResult, error) {
	if path == "" {
		path = "/smoke-test"
	}
	if method == "" {
		method = http.MethodPost
	}
	u := "http://" + addr + path
	if len(query) > 0 {
		u += "?" + query.Encode()
	}
	req, err := http.NewRequest(method, u, strings.NewReader(body))
	if err != nil {
		return authResult{}, err
	}
	for k, vs := range header {
		req.Header[k] = vs
	}
	if cookie != "" {
		req.AddCookie(&http.Cookie{Name: "access_token", Value: cookie})
	}
	resp, err := (&http.Client{Timeout: 10 * time.Second}).Do(req)
	if err != nil {
		return authResult{}, err
	}
	resp.Body.Close()
	return authResult{Admitted: resp.StatusCode == 200, Status: resp.Status}, nil
}

type carrierCase struct {
	Name                  string
	Header, Query, Cookie string      // token per carrier ("" = carrier not used)
	Method                string      // "" = the usual one (GET for the upgrade, POST for /smoke-test)
	Extra                 [][2]string // further request headers (the token gate must not depend on them)
	Path                  string      // smoke test only: a path other than /smoke-test that may reach the same handler
}

func c15f(clause, trigger, format string, a ...any) *check.Finding {
	return &check.Finding{Props: []string{"C15"}, Clause: clause, Trigger: trigger, Detail: fmt.Sprintf(format, a...), Engine: "C15 auth"}
}

type authTarget struct {
	Name   string
	Addr   string
	Secret func() string                       // the secret the server currently holds ("" = none)
	Inner  func() (entered float64, err error) // monotone counter of protected-handler entries
	Gauge  func() (float64, error)             // ws_connected_clients
}

type c15stats struct {
	requests, admitted, rejected, singleMutation, carriers int
}

// probeAuth issues one request and applies the oracle.
func probeAuth(c *check.Ctx, t authTarget, endpoint string, cc carrierCase, st *c15stats) {
	secret := t.Secret()
	now := time.Now()
	hdr := http.Header{}
	if cc.Header != "" {
		hdr.Set("Authorization", "Bearer "+cc.Header)
	}
	q := url.Values{}
	if cc.Query != "" {
		q.Set("access_token", cc.Query)
	}
	for _, kv := range cc.Extra {
		hdr.Add(kv[0], kv[1])
	}
	inner0, err := t.Inner()
	if err != nil {
		c.Inconc("C15: " + err.Error())
		return
	}
	var res authResult
	if endpoint == "ws" {
		res, err = wsUpgrade(t.Addr, cc.Method, hdr, q, cc.Cookie)
	} else {
		res, err = smokeTest(t.Addr, cc.Method, cc.Path, hdr, q, cc.Cookie, `{"endpoint":"http://127.0.0.1:9","token":"t","timeout":1000000}`)
	}
	if err != nil {
		// an oversized request may be cut by the server: that is a rejection
		if strings.Contains(cc.Name, "oversized") {
			res = authResult{Admitted: false, Status: "connection error: " + err.Error()}
		} else {
			c.Inconc(fmt.Sprintf("C15 %s %s %s: %v", t.Name, endpoint, cc.Name, err))
			return
		}
	}
	st.requests++
	carried := []string{}
	for _, tk := range []string{cc.Header, cc.Query, cc.Cookie} {
		if tk != "" {
			carried = append(carried, tk)
		}
	}
	anyValid := false
	for _, tk := range carried {
		if verifies(tk, secret, now) {
			anyValid = true
		}
	}
	trig := endpoint + ":" + cc.Name
	if res.Admitted {
		st.admitted++
		if !anyValid {
			c.Report(c15f("admitted/without-valid-token", trig, "%s %s was admitted (%s) although none of the carried tokens verifies under the independent verifier against the current secret %q; carriers: header=%q query=%q cookie=%q", t.Name, endpoint, res.Status, secret, short(cc.Header), short(cc.Query), short(cc.Cookie)))
		}
	} else {
		st.rejected++
		if len(carried) == 1 && anyValid {
			c.Report(c15f("rejected/valid-token", trig, "%s %s rejected (%s) a request carrying exactly one token, which verifies against the current secret; carriers: header=%q query=%q cookie=%q", t.Name, endpoint, res.Status, short(cc.Header), short(cc.Query), short(cc.Cookie)))
		}
	}
	// side effects: the protected handler is entered iff admitted
	var inner1 float64
	for round := 0; round < 5000; round++ {
		inner1, err = t.Inner()
		if err != nil || !res.Admitted || inner1 > inner0 {
			break
		}
		time.Sleep(time.Millisecond)
	}
	if err == nil {
		if res.Admitted && inner1 <= inner0 {
			c.Report(c15f("admitted/handler-not-entered", trig, "%s %s answered %s but the protected handler was not entered", t.Name, endpoint, res.Status))
		}
		if !res.Admitted && inner1 != inner0 {
			c.Report(c15f("rejected/handler-entered", trig, "%s %s rejected the request (%s) but the protected handler was entered (counter %v -> %v)", t.Name, endpoint, res.Status, inner0, inner1))
		}
	}
}

func short(s string) string {
	if len(s) > 40 {
		return s[:18] + "…" + s[len(s)-18:]
	}
	return s
}

func carrierCases(tokens []tokenCase) []carrierCase {
	var out []carrierCase
	valid := tokens[0].Token
	var bad string
	for _, t := range tokens {
		if t.Name == "sig-other-secret" {
			bad = t.Token
		}
	}
	for _, t := range tokens {
		out = append(out, carrierCase{Name: t.Name + "/header", Header: t.Token})
		out = append(out, carrierCase{Name: t.Name + "/query", Query: t.Token})
		if !strings.ContainsAny(t.Token, " ;,\"") && len(t.Token) < 4000 {
			out = append(out, carrierCase{Name: t.Name + "/cookie", Cookie: t.Token})
		}
	}
	out = append(out,
		carrierCase{Name: "none"},
		carrierCase{Name: "combo/valid-everywhere", Header: valid, Query: valid, Cookie: valid},
		carrierCase{Name: "combo/bad-header-valid-query", Header: bad, Query: valid},
		carrierCase{Name: "combo/bad-query-valid-cookie", Query: bad, Cookie: valid},
		carrierCase{Name: "combo/valid-header-bad-query", Header: valid, Query: bad},
		carrierCase{Name: "combo/bad-everywhere", Header: bad, Query: bad, Cookie: bad},
	)
	// the same gate whatever the request method (a preflight, a HEAD, a verb the
	// handlers do not expect): without a valid token nothing is admitted and the
	// protected handler is not entered
	for _, m := range []string{"OPTIONS", "HEAD", "GET", "POST", "PUT", "DELETE", "PATCH", "TRACE", "PROPFIND"} {
		out = append(out,
			carrierCase{Name: "method-" + m + "/none", Method: m},
			carrierCase{Name: "method-" + m + "/bad-header", Method: m, Header: bad},
			carrierCase{Name: "method-" + m + "/bad-query", Method: m, Query: bad},
			carrierCase{Name: "method-" + m + "/bad-cookie", Method: m, Cookie: bad},
		)
	}
	// the same gate whatever else the request carries: every header name the
	// deployment knows (hagall-common's constants, what a CDN or proxy in front
	// of the server adds) with well-formed values, one at a time and all together
	ambient := [][2]string{
		{"CloudFront-Viewer-Address", "203.0.113.7:51234"}, {"CloudFront-Viewer-Address", "[2001:db8::1]:443"}, {"CloudFront-Viewer-Country", "SE"},
		{"CloudFront-Viewer-Time-Zone", "Europe/Stockholm"}, {"X-Forwarded-For", "203.0.113.7, 10.0.0.1"}, {"X-Real-Ip", "203.0.113.7"},
		{"Forwarded", "for=203.0.113.7;proto=https"}, {"Via", "1.1 abc.cloudfront.net (CloudFront)"}, {"Hagall-Id", "0x1234"}, {"Hagall-Jwt-Secret", bad},
		{"Hagall-Jwt-Challenge", "abc"}, {"Hagall-Jwt-Challenge-Solution", "def"}, {"Hagall-Registration-State", "registered"},
		{"posemesh-client-id", "5e5c7a6e-0000-4000-8000-000000000001"}, {"Origin", "https://example.org"}, {"Referer", "https://example.org/app"},
		{"User-Agent", "verif/1.0"}, {"X-Api-Key", "k"}, {"X-Amz-Cf-Id", "abcdef"}, {"Sec-WebSocket-Protocol", "hagall"},
	}
	for _, kv := range ambient {
		name := "header-" + kv[0] + "=" + kv[1]
		out = append(out,
			carrierCase{Name: name + "/none", Extra: [][2]string{kv}},
			carrierCase{Name: name + "/bad-header", Header: bad, Extra: [][2]string{kv}},
			carrierCase{Name: name + "/bad-query", Query: bad, Extra: [][2]string{kv}},
			carrierCase{Name: name + "/bad-cookie", Cookie: bad, Extra: [][2]string{kv}},
		)
	}
	// neighbours of the protected path: whatever route they take, none of them
	// starts a smoke test without a valid token
	for _, pth := range []string{"/smoke-test/", "/smoke-test/x", "/smoke-test//", "/smoke-test/..", "/Smoke-Test", "/smoke-test%2f", "/smoke-test;x", "/./smoke-test", "/x/../smoke-test", "/smoke-test.json", "/smoketest"} {
		out = append(out,
			carrierCase{Name: "path-" + pth + "/none", Path: pth},
			carrierCase{Name: "path-" + pth + "/bad-header", Path: pth, Header: bad},
			carrierCase{Name: "path-" + pth + "/bad-query", Path: pth, Query: bad},
		)
	}
	var once [][2]string
	seen := map[string]bool{}
	for _, kv := range ambient {
		if !seen[kv[0]] {
			seen[kv[0]] = true
			once = append(once, kv)
		}
	}
	out = append(out,
		carrierCase{Name: "headers-all/none", Extra: once},
		carrierCase{Name: "headers-all/bad-header", Header: bad, Extra: once},
		carrierCase{Name: "headers-all/bad-query", Query: bad, Extra: once},
		carrierCase{Name: "headers-all/valid-header", Header: valid, Extra: once},
	)
	return out
}

func runAuthTarget(c *check.Ctx, t authTarget, st *c15stats, endpoints []string) {
	secret := t.Secret()
	tokens := tokenCatalogue(secret)
	if secret == "" {
		// the server holds no secret: tokens signed with the empty secret and
		// with some other secret
		tokens = tokenCatalogue("")
		tokens = append(tokens, tokenCatalogue("some-other-secret")[:6]...)
	}
	st.singleMutation += len(tokens)
	cases := carrierCases(tokens)
	st.carriers += len(cases)
	for _, ep := range endpoints {
		for _, cc := range cases {
			probeAuth(c, t, ep, cc, st)
		}
	}
}

func metricOf(p *sut.Proc, name string) func() (float64, error) {
	return func() (float64, error) {
		ms, err := p.Metrics()
		return ms[name], err
	}
}

func partAuth(c *check.Ctx, a *acc) {
	st := &c15stats{}
	// ---- E6: the real middleware with a harness-owned inner handler (lab SUT -auth)
	if bin, err := c.WS.Build("lab", "plain"); err != nil {
		c.Inconc("build failed: " + err.Error())
	} else if p, err := c.WS.StartLab(bin, sut.LabOpts{Auth: true, Name: "auth"}); err != nil {
		c.Inconc(err.Error())
	} else {
		cur := ""
		t := authTarget{Name: "lab(middleware)", Addr: p.Addr, Secret: func() string { return cur },
			Inner: func() (float64, error) {
				ci, err := p.Conns("")
				if err != nil {
					return 0, err
				}
				return float64(ci.Inner), nil
			}}
		set := func(s string) {
			cur = s
			p.HTTP.Get("http://" + p.Admin + "/verif/secret?id=srv&secret=" + url.QueryEscape(s))
		}
		set("") // unregistered
		runAuthTarget(c, t, st, []string{"ws", "smoke"})
		set("first-secret-0123456789")
		runAuthTarget(c, t, st, []string{"ws", "smoke"})
		// one token, byte for byte the same, presented before the rotation (admitted),
		// while the server holds no secret, after the rotation, and once the first
		// secret is issued again: admission follows the secret currently held, never
		// an earlier verdict on the same string
		old := tokenCatalogue("first-secret-0123456789")[0].Token
		same := func(phase string) {
			for _, ep := range []string{"ws", "smoke"} {
				probeAuth(c, t, ep, carrierCase{Name: "rotation/same-token/" + phase, Header: old}, st)
				probeAuth(c, t, ep, carrierCase{Name: "rotation/same-token/" + phase, Query: old}, st)
				probeAuth(c, t, ep, carrierCase{Name: "rotation/same-token/" + phase, Cookie: old}, st)
			}
		}
		same("before")
		set("")
		same("secret-cleared")
		set("second-secret-9876543210") // rotation
		same("after-rotation")
		runAuthTarget(c, t, st, []string{"ws", "smoke"})
		probeAuth(c, t, "ws", carrierCase{Name: "rotation/old-token", Header: old}, st)
		probeAuth(c, t, "smoke", carrierCase{Name: "rotation/old-token", Query: old}, st)
		set("first-secret-0123456789")
		same("first-secret-issued-again")
		// a short-lived token: admitted while valid, rejected once its expiry lies
		// three seconds in the past (whatever the server remembers about it)
		{
			exp := time.Now().Add(4 * time.Second)
			shortTok := signJWT("HS256", "first-secret-0123456789", map[string]any{"alg": "HS256", "typ": "JWT"}, map[string]any{"iss": "HDS", "app_key": "x", "exp": exp.Unix()})
			for _, ep := range []string{"ws", "smoke"} {
				probeAuth(c, t, ep, carrierCase{Name: "short-lived/while-valid", Header: shortTok}, st)
				probeAuth(c, t, ep, carrierCase{Name: "short-lived/while-valid", Query: shortTok}, st)
			}
			if d := time.Until(exp.Add(3 * time.Second)); d > 0 {
				time.Sleep(d)
			}
			for _, ep := range []string{"ws", "smoke"} {
				probeAuth(c, t, ep, carrierCase{Name: "short-lived/expired-3s-ago", Header: shortTok}, st)
				probeAuth(c, t, ep, carrierCase{Name: "short-lived/expired-3s-ago", Query: shortTok}, st)
				probeAuth(c, t, ep, carrierCase{Name: "short-lived/expired-3s-ago", Cookie: shortTok}, st)
			}
		}
		set("")
		same("secret-cleared-again")
		// rotation storm: the secret flips A -> none -> B -> none ... as fast as the
		// admin endpoint allows (the sequence a re-registration goes through) while
		// 12 clients present tokens signed with the empty key and with a key that
		// was never issued, on both endpoints. Whatever the timing, none of them
		// verifies against any secret the server ever holds: any admission is a
		// violation (a verification that read the secret twice, say).
		{
			var flips atomic.Int64
			var fw sync.WaitGroup
			fw.Add(1)
			stormMS := c.Pick(1500, 8000)
			go func() {
				defer fw.Done()
				resp, err := p.HTTP.Get(fmt.Sprintf("http://%s/verif/secretflip?ms=%d&a=rot-secret-A-0123456789&b=rot-secret-B-9876543210", p.Admin, stormMS))
				if err == nil {
					b, _ := io.ReadAll(resp.Body)
					resp.Body.Close()
					n, _ := strconv.Atoi(strings.TrimSpace(string(b)))
					flips.Store(int64(n))
				}
			}()
			stormEnd := time.Now().Add(time.Duration(stormMS) * time.Millisecond)
			hdrJ := map[string]any{"alg": "HS256", "typ": "JWT"}
			claims := map[string]any{"iss": "HDS", "app_key": "x", "exp": time.Now().Add(time.Hour).Unix()}
			forged := []string{signJWT("HS256", "", hdrJ, claims), signJWT("HS256", "never-issued-secret", hdrJ, claims)}
			var sent, admitted atomic.Int64
			var cw sync.WaitGroup
			for w := 0; w < 12; w++ {
				cw.Add(1)
				go func(w int) {
					defer cw.Done()
					for i := 0; time.Now().Before(stormEnd); i++ {
						tk := forged[(w+i)%2]
						hdr := http.Header{}
						hdr.Set("Authorization", "Bearer "+tk)
						var res authResult
						var err error
						if (w+i/2)%4 == 0 {
							res, err = wsUpgrade(t.Addr, "", hdr, nil, "")
						} else {
							res, err = smokeTest(t.Addr, "", "", hdr, nil, "", `{"endpoint":"http://127.0.0.1:9","token":"t","timeout":1000000}`)
						}
						if err != nil {
							continue
						}
						sent.Add(1)
						if res.Admitted {
							if admitted.Add(1) == 1 {
								c.Report(c15f("admitted/without-valid-token", "rotation-storm", "while the secret was being rotated (A, none, B, none, ...) a request carrying a token signed with %s was admitted (%s): no secret the server ever held verifies it", map[bool]string{true: "the empty key", false: "a key that was never issued"}[(w+i)%2 == 0], res.Status))
							}
						}
					}
				}(w)
			}
			cw.Wait()
			fw.Wait()
			c.Coverage["rotation_storm_requests_with_forged_tokens"] = sent.Load()
			c.Coverage["rotation_storm_secret_changes"] = flips.Load()
			st.requests += int(sent.Load())
			st.rejected += int(sent.Load() - admitted.Load())
			set("")
		}
		p.Kill()
	}
	// ---- E7: the real binary behind a fake discovery service (mounting in cmd/main.go)
	realPart := func() {
		bin, err := c.WS.Build("real", "plain")
		if err != nil {
			c.Inconc("real build failed: " + err.Error())
			return
		}
		hds, err := fakes.NewHDS()
		if err != nil {
			c.Inconc(err.Error())
			return
		}
		defer hds.Close()
		hds.Delay = 700 * time.Millisecond // an unregistered window
		p, err := c.WS.StartReal(bin, sut.RealOpts{HDS: hds.URL(), NCS: fakes.ClosedPortURL(), HealthTTL: 1500 * time.Millisecond, RegInterval: 200 * time.Millisecond, Name: "realauth"})
		if err != nil {
			c.Inconc(err.Error())
			return
		}
		defer p.Kill()
		// the protected handlers' entries: websocket handler = ws_connected_clients increments (monotone: received-connection counter below)
		entered := func() (float64, error) {
			ms, err := p.Metrics()
			if err != nil {
				return 0, err
			}
			// every admitted relay connection logs a connect (gauge up, then down on close): use the
			// total of closed+open connections = ws_receive_errors (one per ended connection) + gauge
			return ms["ws_connected_clients"] + ms["ws_receive_errors"] + float64(len(hds.SmokeResultsCopy())), nil
		}
		t := authTarget{Name: "real(cmd/main.go)", Addr: p.Addr, Secret: hds.Secret, Inner: entered}
		// 1. unregistered window (the callback is delayed)
		if hds.Secret() == "" {
			runAuthTarget(c, t, st, []string{"ws", "smoke"})
		}
		for i := 0; i < 400 && hds.Secret() == ""; i++ {
			time.Sleep(10 * time.Millisecond)
		}
		if hds.Secret() == "" {
			c.Inconc("C15: the real binary never registered with the fake discovery service: " + strings.Join(hds.CallbackErrs, "; "))
			return
		}
		hds.Delay = 0
		// 2. registered
		runAuthTarget(c, t, st, []string{"ws", "smoke"})
		// 3. rotation: withhold health checks until the server re-registers
		first := hds.Secret()
		oldTok := tokenCatalogue(first)[0].Token
		for _, ep := range []string{"ws", "smoke"} {
			probeAuth(c, t, ep, carrierCase{Name: "rotation/same-token/before", Header: oldTok}, st)
			probeAuth(c, t, ep, carrierCase{Name: "rotation/same-token/before", Query: oldTok}, st)
			probeAuth(c, t, ep, carrierCase{Name: "rotation/same-token/before", Cookie: oldTok}, st)
		}
		hds.SetHealthChecks(false)
		rotated := false
		for i := 0; i < 1500; i++ {
			if s := hds.Secret(); s != first && s != "" {
				rotated = true
				break
			}
			time.Sleep(10 * time.Millisecond)
		}
		hds.SetHealthChecks(true)
		if !rotated {
			c.Inconc("C15: secret rotation did not happen within the bound")
			return
		}
		c.Coverage["real_binary_secret_rotations"] = len(hds.Secrets()) - 1
		for _, ep := range []string{"ws", "smoke"} {
			probeAuth(c, t, ep, carrierCase{Name: "rotation/same-token/after-rotation", Header: oldTok}, st)
			probeAuth(c, t, ep, carrierCase{Name: "rotation/same-token/after-rotation", Query: oldTok}, st)
			probeAuth(c, t, ep, carrierCase{Name: "rotation/same-token/after-rotation", Cookie: oldTok}, st)
		}
		runAuthTarget(c, t, st, []string{"ws"})
	}
	realPart()
	c.Coverage["auth_requests"] = st.requests
	c.Coverage["auth_admitted"] = st.admitted
	c.Coverage["auth_rejected"] = st.rejected
	c.Coverage["token_variants"] = st.singleMutation
	c.Assumptions = append(c.Assumptions, "expiry / not-before cases are an hour away from the boundary, plus one token presented while valid and again three seconds after its expiry; the boundary itself depends on the wall clock and is not examined")
	cat := tokenCatalogue("sample-secret")
	samples := []any{}
	for _, i := range []int{0, 6, 14, 24} {
		if i < len(cat) {
			samples = append(samples, map[string]any{"engine": "C15 auth", "token_case": cat[i].Name, "token": short(cat[i].Token)})
		}
	}
	a.add(st.requests, st.carriers, "C15: a valid token and each single mutation of it (signature, header incl. alg none / RS256 / unknown, payload, times an hour off, structure) x three carriers and their combinations, against (a) the real middleware with a harness-owned inner handler and (b) the real binary behind a fake discovery service (unregistered window, registered, after secret rotation), on the relay upgrade and on /smoke-test; the invalid-token cases again with nine request methods and with twenty ambient request headers (proxy / CDN / deployment header names), one at a time and together, and with eleven neighbours of the smoke-test path; oracle: admitted only if a carried token verifies under the harness's own HMAC/claims verifier against the secret currently issued, a single valid token is admitted, and the protected handler is entered iff admitted; a case is distinct by token variant and carrier set", samples...)
}

func init() {
	registry["C15"] = func(c *check.Ctx) int {
		a := &acc{}
		partAuth(c, a)
		return a.finish(c)
	}
}
