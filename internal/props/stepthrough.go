package props

import (
	"fmt"
	"os"
	"strings"
	"sync"
	"sync/atomic"
	"time"

	"verif/internal/check"
	"verif/internal/e2"
	"verif/internal/sut"
)

// partStepThrough: E2 step-through - the victim operations are parked at every
// scheduling point they pass, one run per (victim, point, pass), while a member
// runs a script of accepted changes. Quick tier: first pass of every point and
// a seed-determined third of the later passes; thorough tier: all.
func partStepThrough(c *check.Ctx, a *acc, victims []string) {
	bin, err := c.WS.Build("lab", "plain")
	if err != nil {
		c.Inconc("build failed: " + err.Error())
		return
	}
	var cases []e2.StepCase
	learned := map[string]int{}
	{
		p, err := c.WS.StartLab(bin, sut.LabOpts{Frame: 4 * time.Millisecond, RT: "sched", Name: "steplearn"})
		if err != nil {
			c.Inconc(err.Error())
			return
		}
		for _, v := range victims {
			cs, err := e2.StepSites(p, v)
			if err != nil {
				c.Inconc(err.Error())
				continue
			}
			for _, sc := range cs {
				// (the victim's own sends are few and each carries a different message: all passes)
				if sc.Skip > 0 && c.Quick() && sc.Site != "websocket.handler.send" && sc.Site != "websocket.responseSender.Send" {
					h := uint64(c.Seed)*0x9E3779B97F4A7C15 ^ uint64(len(cases)+1)*0xBF58476D1CE4E5B9
					h ^= h >> 29
					if h%3 != 0 {
						continue
					}
				}
				cases = append(cases, sc)
				if (v == "join" || v == "switch") && (sc.Site == "websocket.handler.send" || sc.Site == "websocket.responseSender.Send") {
					// a message built from shared state and parked before it is marshalled: what
					// a concurrent writer does to it depends on map iteration order (about one
					// run in four shows it) - eight runs
					cases = append(cases, sc, sc, sc, sc, sc, sc, sc)
				}
				// fault at that point: the victim's client resets its connection while the
				// server is parked there (first pass of each point; a third of them in the quick tier)
				if sc.Skip == 0 && v != "leave" && v != "lastleave" {
					h := uint64(c.Seed)*0xD6E8FEB86659FD93 ^ uint64(len(cases)+7)*0x9E3779B97F4A7C15
					h ^= h >> 31
					if !c.Quick() || h%3 == 0 {
						ab := sc
						ab.Abort = true
						cases = append(cases, ab)
					}
				}
			}
			learned[v] = len(cs)
		}
		p.Kill()
	}
	if only := os.Getenv("VERIF_STEP_ONLY"); only != "" {
		// debugging aid: only the cases whose description contains the string, ten times each
		var keep []e2.StepCase
		for _, sc := range cases {
			if strings.Contains(sc.String(), only) {
				for k := 0; k < 10; k++ {
					keep = append(keep, sc)
				}
			}
		}
		cases = keep
	}
	var mu sync.Mutex
	var failed atomic.Int32
	runs, reached, overlapped := 0, 0, 0
	perVictim := map[string]int{}
	aborted := 0
	sites := map[string]bool{}
	var samples []any
	workers := 12
	parallel(workers, workers, func(w int) {
		var p *sut.Proc
		defer func() {
			if p != nil {
				p.Kill()
			}
		}()
		for i := w; i < len(cases); i += workers {
			if failed.Load() >= 3 {
				return // the property is violated: three witnesses are enough, the rest would only wait for wedged runs
			}
			if p == nil || !p.Alive() {
				var err error
				p, err = c.WS.StartLab(bin, sut.LabOpts{Frame: 4 * time.Millisecond, RT: "sched", Name: "step", Locks: stepLocks})
				if err != nil {
					c.Inconc(err.Error())
					return
				}
			}
			res := e2.StepRun(p, cases[i])
			if os.Getenv("VERIF_STEP_DEBUG") != "" {
				fmt.Printf("STEP %s reached=%v overlapped=%v findings=%d inconclusive=%q\n", cases[i], res.GateReached, res.Overlapped, len(res.Findings), res.Inconclusive)
				for _, f := range res.Findings {
					fmt.Printf("STEPFINDING %v %s %.600s\n", f.Props, f.Clause, f.Detail)
				}
			}
			mu.Lock()
			runs++
			if res.GateReached {
				reached++
				perVictim[cases[i].Victim]++
				if cases[i].Abort {
					aborted++
				}
				sites[cases[i].Victim+" @ "+cases[i].Site] = true
				if res.Overlapped {
					overlapped++
				}
				if len(samples) < 3 && res.Overlapped && len(res.Findings) == 0 && res.Inconclusive == "" {
					samples = append(samples, map[string]any{"engine": "E2 step-through", "case": cases[i].String(), "script_completed_while_victim_parked": res.Overlapped})
				}
			}
			if res.Inconclusive != "" {
				c.Inconc(res.Inconclusive)
			}
			for _, f := range res.Findings {
				c.Report(f)
			}
			bad := len(res.Findings) > 0 || res.Inconclusive != ""
			mu.Unlock()
			for _, f := range res.Findings {
				if f.Concerns(c.Prop) {
					failed.Add(1)
					break
				}
			}
			if bad {
				p.Kill()
				p = nil
			}
		}
	})
	c.Coverage["step_through_points_learned_per_victim"] = learned
	c.Coverage["step_through_runs"] = runs
	c.Coverage["step_through_runs_victim_parked"] = reached
	c.Coverage["step_through_runs_script_completed_while_parked"] = overlapped
	c.Coverage["step_through_parked_per_victim"] = perVictim
	c.Coverage["step_through_distinct_victim_points"] = len(sites)
	c.Coverage["step_through_runs_with_client_reset_while_parked"] = aborted
	a.add(runs, reached, fmt.Sprintf("E2 step-through: a join by id, a departure, a session-switching join and an entity deletion are parked at each scheduling point they pass (%d distinct (operation, point) pairs reached) while a member adds and deletes entities, updates a component, sets an action, adds an asset and sends a custom message; at quiescence the witness's and the victim's folded views against a probe, exactly-once of the script's and the victim's relays at the witness, the departed victim's leftovers, and gauge / registry / frame workers; non-trivial when the victim was actually parked", len(sites)), samples...)
}

// partStepPairs: two preemptions. A second operation (a join of, or another
// member's departure from, the session the first victim acts on) is parked at
// one of its own scheduling points while the first victim is still parked;
// both release orders. The pairs are sampled (seed-determined) from the
// product of the two operations' points.
func partStepPairs(c *check.Ctx, a *acc, families [][2]string) {
	bin, err := c.WS.Build("lab", "plain")
	if err != nil {
		c.Inconc("build failed: " + err.Error())
		return
	}
	sites := map[string][]string{}
	{
		p, err := c.WS.StartLab(bin, sut.LabOpts{Frame: 4 * time.Millisecond, RT: "sched", Name: "pairlearn"})
		if err != nil {
			c.Inconc(err.Error())
			return
		}
		need := map[string]bool{}
		for _, f := range families {
			need[f[0]] = true
			need[map[string]string{"join2": "join", "leave2": "leave"}[f[1]]] = true
		}
		for v := range need {
			cs, err := e2.StepSites(p, v)
			if err != nil {
				c.Inconc(err.Error())
				continue
			}
			seen := map[string]bool{}
			for _, sc := range cs {
				if !seen[sc.Site] {
					seen[sc.Site] = true
					sites[v] = append(sites[v], sc.Site)
				}
			}
		}
		p.Kill()
	}
	var all []e2.StepCase
	for _, f := range families {
		second := map[string]string{"join2": "join", "leave2": "leave"}[f[1]]
		for _, s1 := range sites[f[0]] {
			for _, s2 := range sites[second] {
				if s1 == s2 {
					continue
				}
				for _, sf := range []bool{false, true} {
					all = append(all, e2.StepCase{Victim: f[0], Site: s1, Victim2: f[1], Site2: s2, SecondFirst: sf})
				}
			}
		}
	}
	n := c.Pick(160, 4000)
	var cases []e2.StepCase
	if len(all) <= n {
		cases = all
	} else {
		// seed-determined sample without replacement (multiplicative stride)
		stride := uint64(len(all))/uint64(n) | 1
		start := (uint64(c.Seed) * 0x9E3779B97F4A7C15) % uint64(len(all))
		for i := 0; i < n; i++ {
			cases = append(cases, all[(start+uint64(i)*stride)%uint64(len(all))])
		}
	}
	var mu sync.Mutex
	var failed atomic.Int32
	runs, reached, both := 0, 0, 0
	perFamily := map[string]int{}
	workers := 12
	parallel(workers, workers, func(w int) {
		var p *sut.Proc
		defer func() {
			if p != nil {
				p.Kill()
			}
		}()
		for i := w; i < len(cases); i += workers {
			if failed.Load() >= 3 {
				return
			}
			if p == nil || !p.Alive() {
				var err error
				p, err = c.WS.StartLab(bin, sut.LabOpts{Frame: 4 * time.Millisecond, RT: "sched", Name: "pair", Locks: stepLocks})
				if err != nil {
					c.Inconc(err.Error())
					return
				}
			}
			res := e2.StepRun(p, cases[i])
			if os.Getenv("VERIF_STEP_DEBUG") != "" {
				fmt.Printf("STEP %s reached=%v second=%v findings=%d inconclusive=%q\n", cases[i], res.GateReached, res.Second, len(res.Findings), res.Inconclusive)
			}
			mu.Lock()
			runs++
			if res.GateReached {
				reached++
				if res.Second {
					both++
					perFamily[cases[i].Victim+" x "+cases[i].Victim2]++
				}
			}
			if res.Inconclusive != "" {
				c.Inconc(res.Inconclusive)
			}
			for _, f := range res.Findings {
				c.Report(f)
			}
			bad := len(res.Findings) > 0 || res.Inconclusive != ""
			mu.Unlock()
			for _, f := range res.Findings {
				if f.Concerns(c.Prop) {
					failed.Add(1)
					break
				}
			}
			if bad {
				p.Kill()
				p = nil
			}
		}
	})
	c.Coverage["step_pairs_possible"] = len(all)
	c.Coverage["step_pairs_runs"] = runs
	c.Coverage["step_pairs_first_victim_parked"] = reached
	c.Coverage["step_pairs_both_parked"] = both
	c.Coverage["step_pairs_both_parked_per_family"] = perFamily
	a.add(runs, both, fmt.Sprintf("E2 step-through with two preemptions: while the first victim is parked, a join of / a departure from the same session is parked at one of its own points; both release orders; %d of %d possible (point, point, order) triples sampled by the seed; same oracles as the step-through; non-trivial when both were parked at once", len(cases), len(all)))
}
