package props

import (
	"sync"
	"time"

	"verif/internal/check"
	"verif/internal/e1"
	"verif/internal/e2"
	"verif/internal/sut"
)

func partPoseStreams(c *check.Ctx, a *acc) {
	bin, err := c.WS.Build("lab", "plain")
	if err != nil {
		c.Inconc("build failed: " + err.Error())
		return
	}
	frames := []time.Duration{time.Millisecond, 5 * time.Millisecond, 15 * time.Millisecond, 50 * time.Millisecond}
	n := c.Pick(96, 960)
	var mu sync.Mutex
	done, nontrivial := 0, 0
	tot := e2.PoseStats{}
	tsModes := map[string]int{}
	var samples []any
	procs := map[time.Duration]*sut.Proc{}
	for _, f := range frames {
		p, err := c.WS.StartLab(bin, sut.LabOpts{Frame: f, Name: "pose"})
		if err != nil {
			c.Inconc(err.Error())
			return
		}
		defer p.Kill()
		procs[f] = p
	}
	parallel(n, 16, func(i int) {
		f := frames[i%len(frames)]
		st := e2.PoseStream(procs[f], c.Seed*9001+int64(i), f)
		mu.Lock()
		defer mu.Unlock()
		done++
		tot.Sent += st.Sent
		tot.Relayed += st.Relayed
		tot.Coalesced += st.Coalesced
		tot.Deleted += st.Deleted
		tot.Dropped += st.Dropped
		tot.FinalChecked += st.FinalChecked
		tsModes[st.TimestampMode]++
		if st.Inconclusive != "" {
			c.Inconc(st.Inconclusive)
		}
		for _, fd := range st.Findings {
			c.Report(fd)
		}
		if len(st.Findings) == 0 && st.Coalesced > 0 && st.Relayed > 0 && st.FinalChecked > 0 {
			nontrivial++
			if len(samples) < 4 {
				samples = append(samples, map[string]any{"engine": "E2 pose stream", "stream": st.Desc})
			}
		}
	})
	c.Coverage["pose_streams"] = done
	c.Coverage["pose_updates_sent"] = tot.Sent
	c.Coverage["pose_relays_observed"] = tot.Relayed
	c.Coverage["pose_relays_coalesced_away"] = tot.Coalesced
	c.Coverage["pose_entities_deleted_mid_stream"] = tot.Deleted
	c.Coverage["pose_invalid_updates_sent"] = tot.Dropped
	c.Coverage["pose_final_value_checks"] = tot.FinalChecked
	c.Coverage["pose_streams_by_message_timestamp_mode"] = tsModes
	a.add(done, nontrivial, "E2 pose streams: an owner streams 5-200 updates over 1-8 entities (per-entity sequence number in px; message timestamps increasing, going backwards, standing still, at the epoch, jumping or random per stream) with seeded gaps of 0-3 frames at frame durations 1/5/15/50 ms, interleaved with deletions and invalid updates (unknown / foreign entity, no pose), watched by 1-3 observers; order-based oracles per observer and entity (strictly increasing, none after the delete relay, invalid ones never), final value after a frame barrier at observers and at a newcomer; non-trivial when at least one update was coalesced away, one relayed and the final value checked", samples...)
}

func init() {
	registry["C11"] = func(c *check.Ctx) int {
		a := &acc{}
		partE1(c, a, e1Batch{Profiles: []string{"pose"}, Histories: c.Pick(120, 1200), Steps: c.Pick(100, 160), MaxConns: 4, MaxSess: 2},
			"pose updates of own, foreign and unknown entities were issued and the accepted ones relayed",
			func(s *e1.Stats) bool { return s.Accepted["pose"] >= 2 && s.Refused["pose"] >= 1 })
		partPoseStreams(c, a)
		partGated(c, a, []func(*sut.Proc) *e2.Result{
			func(p *sut.Proc) *e2.Result { return e2.G9HeldTick(p, false) },
			func(p *sut.Proc) *e2.Result { return e2.G9HeldTick(p, true) }}, c.Pick(2, 10))
		partStepThrough(c, a, []string{"leave", "join", "switch", "join-vs-lastleave"})
		partStepPairs(c, a, [][2]string{{"leave", "join2"}, {"join", "leave2"}, {"switch", "join2"}})
		partRealBinaryDefaults(c, a, "C11")
		partLagSenders(c, a)
		partSwitchPending(c, a)
		return a.finish(c)
	}
}
