// Package e3 drives concurrent, unsynchronised client workloads ("storms")
// against a SUT (typically a -race build with jitter) and extracts the race
// detector's verdicts.
package e3

import (
	"fmt"
	"math/rand"
	"regexp"
	"sort"
	"strings"
	"sync"
	"sync/atomic"
	"time"

	"github.com/aukilabs/hagall-common/messages/dagazpb"
	"github.com/aukilabs/hagall-common/messages/hagallpb"
	"github.com/aukilabs/hagall-common/messages/odalpb"
	"github.com/aukilabs/hagall-common/messages/vikjapb"
	"google.golang.org/protobuf/proto"
	"google.golang.org/protobuf/types/known/timestamppb"

	d "verif/internal/driver"
	"verif/internal/scen"
	"verif/internal/sut"
)

// StormCfg configures one storm.
type StormCfg struct {
	Seed     int64
	Clients  int
	Sessions int // how many session "slots" the clients hop among
	Ops      int // requests per client
	Mods     string
	// Dial overrides how a client connects (real binary: token); nil = lab SUT
	Dial func() (*scen.C, error)
}

// StormResult is what one storm observed.
type StormResult struct {
	Requests      int64
	Answers       int64
	Relays        int64
	Joins         int64
	Switches      int64
	Reconnects    int64
	Unanswered    []string // requests that never completed (a liveness violation candidate)
	Errors        []string // harness-level problems (inconclusive)
	MaxConcurrent int
	Overlaps      int64 // requests issued while another connection's request was outstanding in the same session slot
}

type slot struct {
	mu  sync.Mutex
	sid string
}

// Storm runs cfg.Clients goroutines that each issue cfg.Ops random requests.
func Storm(p *sut.Proc, cfg StormCfg) *StormResult {
	res := &StormResult{}
	slots := make([]*slot, cfg.Sessions)
	for i := range slots {
		slots[i] = &slot{}
	}
	var outstanding atomic.Int64
	var wg sync.WaitGroup
	var mu sync.Mutex
	start := make(chan struct{})
	for ci := 0; ci < cfg.Clients; ci++ {
		wg.Add(1)
		go func(ci int) {
			defer wg.Done()
			r := rand.New(rand.NewSource(cfg.Seed*1000 + int64(ci)))
			fail := func(format string, a ...any) {
				mu.Lock()
				res.Errors = append(res.Errors, fmt.Sprintf("client %d: ", ci)+fmt.Sprintf(format, a...))
				mu.Unlock()
			}
			dial := cfg.Dial
			if dial == nil {
				dial = func() (*scen.C, error) { return scen.Dial(p, cfg.Mods, "") }
			}
			c, err := dial()
			if err != nil {
				fail("dial: %v", err)
				return
			}
			defer func() { c.Close() }()
			c.Timeout = 30 * time.Second
			<-start
			var ents []uint32
			var types []uint32
			join := func() bool {
				s := slots[r.Intn(len(slots))]
				s.mu.Lock()
				sid := s.sid
				s.mu.Unlock()
				jr, _, err := c.Join(sid)
				if err != nil {
					fail("join: %v", err)
					return false
				}
				atomic.AddInt64(&res.Joins, 1)
				if jr == nil {
					// the session ended meanwhile (or already joined): create one
					jr, _, err = c.Join("")
					if err != nil || jr == nil {
						return err == nil
					}
				}
				s.mu.Lock()
				s.sid = jr.SessionId
				s.mu.Unlock()
				ents, types = nil, nil
				return true
			}
			if !join() {
				return
			}
			timedOut := false
			do := func(m proto.Message, wantAnswer bool) {
				if timedOut {
					return
				}
				n := outstanding.Add(1)
				if n > 1 {
					atomic.AddInt64(&res.Overlaps, 1)
				}
				mu.Lock()
				if int(n) > res.MaxConcurrent {
					res.MaxConcurrent = int(n)
				}
				mu.Unlock()
				atomic.AddInt64(&res.Requests, 1)
				a, rest, err := c.Do(m)
				outstanding.Add(-1)
				atomic.AddInt64(&res.Relays, int64(len(rest)))
				if err == d.ErrTimeout {
					mu.Lock()
					res.Unanswered = append(res.Unanswered, fmt.Sprintf("client %d: %T got no pong within %v", ci, m, c.Timeout))
					mu.Unlock()
					timedOut = true // one unanswered request decides; the rest of this client's script would only wait again
					return
				}
				if err != nil {
					return
				}
				if a != nil {
					atomic.AddInt64(&res.Answers, 1)
					switch x := a.M.(type) {
					case *hagallpb.EntityAddResponse:
						ents = append(ents, x.EntityId)
					case *hagallpb.EntityComponentTypeAddResponse:
						types = append(types, x.EntityComponentTypeId)
					}
				} else if wantAnswer {
					mu.Lock()
					res.Unanswered = append(res.Unanswered, fmt.Sprintf("client %d: %T id=%d was not answered before the pong", ci, m, reqID(m)))
					mu.Unlock()
				}
			}
			pick := func(l []uint32) uint32 {
				if len(l) == 0 {
					return uint32(1 + r.Intn(4))
				}
				if r.Intn(4) == 0 {
					return uint32(1 + r.Intn(6))
				}
				return l[r.Intn(len(l))]
			}
			ts := func() *timestamppb.Timestamp { return d.NewTag() }
			for op := 0; op < cfg.Ops && !timedOut; op++ {
				if c.IsClosed() {
					atomic.AddInt64(&res.Reconnects, 1)
					c2, err := dial()
					if err != nil {
						fail("redial: %v", err)
						return
					}
					c = c2
					c.Timeout = 30 * time.Second
					if !join() {
						return
					}
				}
				id := c.NextReqID()
				switch k := r.Intn(26); k {
				case 0:
					atomic.AddInt64(&res.Switches, 1)
					if !join() {
						return
					}
				case 1:
					// abrupt reconnect
					if r.Intn(3) == 0 {
						c.Abort()
					} else {
						c.Close()
					}
					c.WaitClosed()
				case 2, 3, 4:
					do(&hagallpb.EntityAddRequest{Type: d.TEntityAddReq, Timestamp: ts(), RequestId: id, Persist: r.Intn(4) == 0, Pose: &hagallpb.Pose{Px: float32(op)}}, true)
				case 5:
					e := pick(ents)
					do(&hagallpb.EntityDeleteRequest{Type: d.TEntityDelReq, Timestamp: ts(), RequestId: id, EntityId: e}, true)
				case 6, 7, 8:
					do(&hagallpb.EntityUpdatePose{Type: d.TPoseUpdate, Timestamp: ts(), EntityId: pick(ents), Pose: &hagallpb.Pose{Px: float32(op)}}, false)
				case 9:
					do(&hagallpb.CustomMessage{Type: d.TCustom, Timestamp: ts(), Body: []byte(fmt.Sprintf("c%d-%d", ci, op))}, false)
				case 10:
					do(&hagallpb.EntityComponentTypeAddRequest{Type: d.TTypeAddReq, Timestamp: ts(), RequestId: id, EntityComponentTypeName: fmt.Sprintf("T%d", r.Intn(3))}, true)
				case 11:
					do(&hagallpb.EntityComponentTypeSubscribeRequest{Type: d.TSubReq, Timestamp: ts(), RequestId: id, EntityComponentTypeId: pick(types)}, true)
				case 12:
					do(&hagallpb.EntityComponentTypeUnsubscribeRequest{Type: d.TUnsubReq, Timestamp: ts(), RequestId: id, EntityComponentTypeId: pick(types)}, true)
				case 13, 14:
					do(&hagallpb.EntityComponentAddRequest{Type: d.TCompAddReq, Timestamp: ts(), RequestId: id, EntityComponentTypeId: pick(types), EntityId: pick(ents), Data: []byte("x")}, true)
				case 15, 16:
					do(&hagallpb.EntityComponentUpdate{Type: d.TCompUpdate, Timestamp: ts(), EntityComponentTypeId: pick(types), EntityId: pick(ents), Data: []byte(fmt.Sprint(op))}, false)
				case 17:
					do(&hagallpb.EntityComponentDeleteRequest{Type: d.TCompDelReq, Timestamp: ts(), RequestId: id, EntityComponentTypeId: pick(types), EntityId: pick(ents)}, true)
				case 18:
					do(&hagallpb.EntityComponentListRequest{Type: d.TCompListReq, Timestamp: ts(), RequestId: id, EntityComponentTypeId: pick(types)}, true)
				case 19:
					do(&vikjapb.EntityActionRequest{Type: d.TActionReq, Timestamp: ts(), RequestId: id, EntityAction: &vikjapb.EntityAction{EntityId: pick(ents), Name: "a", Timestamp: timestamppb.Now(), Data: []byte("d")}}, strings.Contains(cfg.Mods, "v"))
				case 20:
					do(&odalpb.AssetInstanceAddRequest{Type: d.TAssetAddReq, Timestamp: ts(), RequestId: id, EntityId: pick(ents), AssetId: "asset"}, strings.Contains(cfg.Mods, "o"))
				case 21, 22:
					x, z := float32(r.Intn(40)-20), float32(r.Intn(40)-20)
					do(&dagazpb.DagazQuadSample{Type: d.TQuadSample, Timestamp: ts(), Samples: []*dagazpb.Quad{{Center: &dagazpb.Point{X: x, Y: float32(r.Intn(3)), Z: z}, Extents: &dagazpb.Point{X: 1 + float32(r.Intn(3)), Z: 1 + float32(r.Intn(3))}}}}, false)
				case 23:
					x, z := float32(r.Intn(40)-20), float32(r.Intn(40)-20)
					do(&dagazpb.DagazGetGroundPlaneRequest{Type: d.TGroundPlaneReq, Timestamp: ts(), RequestId: id, Ray: &dagazpb.Ray{From: &dagazpb.Point{X: x, Y: 5, Z: z}, To: &dagazpb.Point{X: x + float32(r.Intn(3)), Y: -5, Z: z}}}, strings.Contains(cfg.Mods, "d"))
				case 24:
					do(&dagazpb.DagazGetRegionRequest{Type: d.TRegionReq, Timestamp: ts(), RequestId: id, Min: &dagazpb.Point{X: -50, Z: -50}, Max: &dagazpb.Point{X: 50, Z: 50}}, strings.Contains(cfg.Mods, "d"))
				default:
					do(&dagazpb.DagazGetDebugInfoRequest{Type: d.TDebugInfoReq, Timestamp: ts(), RequestId: id}, strings.Contains(cfg.Mods, "d"))
				}
			}
		}(ci)
	}
	close(start)
	wg.Wait()
	return res
}

func reqID(m proto.Message) uint32 {
	f := m.ProtoReflect().Descriptor().Fields().ByName("request_id")
	if f == nil {
		return 0
	}
	return uint32(m.ProtoReflect().Get(f).Uint())
}

// RaceReport is one deduplicated race-detector report.
type RaceReport struct {
	Key    string // outermost hagall entry-point pair (line numbers stripped)
	Count  int
	Sample string
}

// DependencyRaces counts reports that lie entirely inside hagall-common's hdsclient.
var DependencyRaces int

var frameRe = regexp.MustCompile(`^\s+(\S+)\(`)

// ParseRaces splits race-detector output into reports, keeps those with a
// hagall frame in either stack and deduplicates them by the pair of innermost
// hagall functions of the two stacks.
func ParseRaces(text string) (all int, hagall []RaceReport) {
	blocks := strings.Split(text, "==================")
	byKey := map[string]*RaceReport{}
	for _, b := range blocks {
		if !strings.Contains(b, "WARNING: DATA RACE") {
			continue
		}
		all++
		if !strings.Contains(b, "github.com/aukilabs/hagall/") {
			continue
		}
		// stacks are separated by blank lines; take the first hagall frame of each of the first two stacks
		var firsts []string
		accessFns := []string{}
		for _, st := range strings.Split(b, "\n\n") {
			if !(strings.Contains(st, "Write at") || strings.Contains(st, "Read at") || strings.Contains(st, "Previous write at") || strings.Contains(st, "Previous read at")) {
				continue
			}
			fn := ""
			takeNext := false
			for _, l := range strings.Split(st, "\n") {
				l = strings.TrimSpace(l)
				if takeNext && l != "" {
					accessFns = append(accessFns, l) // the function that performs the racing access
					takeNext = false
				}
				if strings.HasPrefix(l, "Read at") || strings.HasPrefix(l, "Write at") || strings.HasPrefix(l, "Previous write at") || strings.HasPrefix(l, "Previous read at") {
					takeNext = true
				}
				if strings.HasPrefix(l, "github.com/aukilabs/hagall/") {
					fn = l
					if i := strings.Index(fn, "("); i > 0 && !strings.HasPrefix(fn[i:], "(*") {
						fn = fn[:i]
					}
					break
				}
			}
			if fn == "" {
				fn = "(no hagall frame)"
			}
			firsts = append(firsts, fn)
		}
		// out of scope: a race between two accesses that both lie inside the
		// discovery-service client of hagall-common (its own bookkeeping, e.g.
		// lastHealthCheck read by Pair without the client's mutex): not state of
		// aukilabs/hagall and not repairable there. Counted, not judged.
		if len(accessFns) >= 2 && strings.HasPrefix(accessFns[0], "github.com/aukilabs/hagall-common/hdsclient.") && strings.HasPrefix(accessFns[1], "github.com/aukilabs/hagall-common/hdsclient.") {
			DependencyRaces++
			continue
		}
		sort.Strings(firsts)
		key := strings.Join(firsts, " <-> ")
		r := byKey[key]
		if r == nil {
			s := b
			if len(s) > 2500 {
				s = s[:2500] + "…"
			}
			r = &RaceReport{Key: key, Sample: s}
			byKey[key] = r
		}
		r.Count++
	}
	for _, r := range byKey {
		hagall = append(hagall, *r)
	}
	sort.Slice(hagall, func(i, j int) bool { return hagall[i].Key < hagall[j].Key })
	return
}
