// Package instr rewrites the current /repo sources into a build overlay:
// scheduling points (verifrt.P) are inserted textually at AST offsets, on the
// same source line, so that line numbers in race reports, panics and
// goroutine dumps are those of /repo. Nothing is written to /repo.
package instr

import (
	"encoding/json"
	"fmt"
	"go/ast"
	"go/parser"
	"go/token"
	"os"
	"path/filepath"
	"sort"
	"strings"
)

// Dirs instrumented (relative to the repository root).
var Dirs = []string{"models", "websocket", "modules", "modules/vikja", "modules/odal", "modules/dagaz", "receipt", "http", "featureflag", "smoketest"}

type Result struct {
	OverlayJSON     string
	Sites           []string
	Files           int
	Uninstrumented  []string
	InstrumentedLOC int
}

type ins struct {
	off  int
	text string
}

// Build writes the overlay into outDir and returns the path of overlay.json.
// extra maps repo-relative target paths to source files that are added as is.
func Build(repo, outDir string, extra map[string]string, inject bool) (*Result, error) {
	return BuildShadow(repo, "", outDir, extra, inject)
}

// BuildShadow is Build with the sources read from `shadow` (a scratch copy of
// the repository carrying a change under test) while the overlay is keyed by
// the paths of `repo`, which stays untouched: files that are not instrumented
// but differ in the shadow (or exist only there) are mapped as they are.
func BuildShadow(repo, shadow, outDir string, extra map[string]string, inject bool) (*Result, error) {
	res := &Result{}
	replace := map[string]string{}
	srcRoot := repo
	if shadow != "" {
		srcRoot = shadow
	}
	if inject {
		for _, d := range Dirs {
			entries, err := os.ReadDir(filepath.Join(srcRoot, d))
			if err != nil {
				continue
			}
			for _, e := range entries {
				n := e.Name()
				if e.IsDir() || !strings.HasSuffix(n, ".go") || strings.HasSuffix(n, "_test.go") {
					continue
				}
				src := filepath.Join(srcRoot, d, n)
				out, sites, err := instrumentFileAs(src, filepath.Join(repo, d, n))
				if err != nil {
					res.Uninstrumented = append(res.Uninstrumented, filepath.Join(d, n)+": "+err.Error())
					continue
				}
				if out == nil {
					continue
				}
				dst := filepath.Join(outDir, "src", d, n)
				if err := os.MkdirAll(filepath.Dir(dst), 0o755); err != nil {
					return nil, err
				}
				if err := os.WriteFile(dst, out, 0o644); err != nil {
					return nil, err
				}
				replace[filepath.Join(repo, d, n)] = dst
				res.Sites = append(res.Sites, sites...)
				res.Files++
			}
		}
	}
	if shadow != "" {
		filepath.Walk(shadow, func(path string, info os.FileInfo, err error) error {
			if err != nil {
				return nil
			}
			rel, _ := filepath.Rel(shadow, path)
			if info.IsDir() {
				if rel == ".git" || rel == "_mutation" {
					return filepath.SkipDir
				}
				return nil
			}
			if !strings.HasSuffix(rel, ".go") || strings.HasSuffix(rel, "_test.go") {
				return nil
			}
			key := filepath.Join(repo, rel)
			if _, done := replace[key]; done {
				return nil
			}
			a, _ := os.ReadFile(path)
			b, err2 := os.ReadFile(key)
			if err2 != nil || string(a) != string(b) {
				replace[key] = path
			}
			return nil
		})
	}
	for target, src := range extra {
		replace[filepath.Join(repo, target)] = src
	}
	sort.Strings(res.Sites)
	b, _ := json.MarshalIndent(map[string]any{"Replace": replace}, "", " ")
	res.OverlayJSON = filepath.Join(outDir, "overlay.json")
	if err := os.MkdirAll(outDir, 0o755); err != nil {
		return nil, err
	}
	if err := os.WriteFile(res.OverlayJSON, b, 0o644); err != nil {
		return nil, err
	}
	return res, nil
}

func recvName(fd *ast.FuncDecl) string {
	if fd.Recv == nil || len(fd.Recv.List) == 0 {
		return ""
	}
	t := fd.Recv.List[0].Type
	for {
		switch x := t.(type) {
		case *ast.StarExpr:
			t = x.X
			continue
		case *ast.IndexExpr:
			t = x.X
			continue
		case *ast.Ident:
			return x.Name + "."
		}
		return ""
	}
}

// lockClass names a lock by the type that owns it and the field path, so that
// the same lock gets the same name in every method (receiver names vary).
func lockClass(pkg string, fd *ast.FuncDecl, expr string) string {
	expr = strings.Join(strings.Fields(expr), "")
	if fd.Recv != nil && len(fd.Recv.List) > 0 && len(fd.Recv.List[0].Names) > 0 {
		r := fd.Recv.List[0].Names[0].Name
		t := strings.TrimSuffix(recvName(fd), ".")
		if expr == r {
			return pkg + "." + t + "(embedded)"
		}
		if strings.HasPrefix(expr, r+".") {
			return pkg + "." + t + "." + strings.TrimPrefix(expr, r+".")
		}
	}
	return pkg + ":" + fd.Name.Name + ":" + expr
}

func instrumentFile(path string) ([]byte, []string, error) {
	return instrumentFileAs(path, path)
}

// instrumentFileAs instruments the file at path; positions are reported as name.
func instrumentFileAs(path, name string) ([]byte, []string, error) {
	_ = name
	src, err := os.ReadFile(path)
	if err != nil {
		return nil, nil, err
	}
	fset := token.NewFileSet()
	f, err := parser.ParseFile(fset, path, src, parser.ParseComments)
	if err != nil {
		return nil, nil, err
	}
	for _, imp := range f.Imports {
		if imp.Path.Value == `"C"` {
			return nil, nil, fmt.Errorf("cgo file")
		}
	}
	pkg := f.Name.Name
	var inserts []ins
	var sites []string
	off := func(p token.Pos) int { return fset.Position(p).Offset }
	add := func(p token.Pos, site string) {
		inserts = append(inserts, ins{off(p), fmt.Sprintf(" verifrt.P(%q);", site)})
		sites = append(sites, site)
	}
	for _, d := range f.Decls {
		fd, ok := d.(*ast.FuncDecl)
		if !ok || fd.Body == nil {
			continue
		}
		base := pkg + "." + recvName(fd) + fd.Name.Name
		add(fd.Body.Lbrace+1, base)
		nFor, nCase, nLock := 0, 0, 0
		ast.Inspect(fd.Body, func(n ast.Node) bool {
			switch x := n.(type) {
			case *ast.ExprStmt:
				// a point before every statement that takes a lock: the place
				// between two critical sections where the scheduler can preempt;
				// and the lock-order monitor's acquire / release reports
				if call, ok := x.X.(*ast.CallExpr); ok {
					if sel, ok := call.Fun.(*ast.SelectorExpr); ok && len(call.Args) == 0 {
						switch sel.Sel.Name {
						case "Lock", "RLock":
							nLock++
							site := fmt.Sprintf("%s#lock%d", base, nLock)
							inserts = append(inserts, ins{off(x.Pos()), fmt.Sprintf("verifrt.P(%q); verifrt.Acq(%q, %q); ", site, lockClass(pkg, fd, string(src[off(sel.X.Pos()):off(sel.X.End())])), site)})
							sites = append(sites, site)
						case "Unlock", "RUnlock":
							inserts = append(inserts, ins{off(x.Pos()), fmt.Sprintf("verifrt.Rel(%q); ", lockClass(pkg, fd, string(src[off(sel.X.Pos()):off(sel.X.End())])))})
						}
					}
				}
			case *ast.DeferStmt:
				if sel, ok := x.Call.Fun.(*ast.SelectorExpr); ok && len(x.Call.Args) == 0 && (sel.Sel.Name == "Unlock" || sel.Sel.Name == "RUnlock") {
					// registered first, so it runs right after the deferred unlock
					inserts = append(inserts, ins{off(x.Pos()), fmt.Sprintf("defer verifrt.Rel(%q); ", lockClass(pkg, fd, string(src[off(sel.X.Pos()):off(sel.X.End())])))})
				}
			case *ast.ForStmt:
				nFor++
				add(x.Body.Lbrace+1, fmt.Sprintf("%s#for%d", base, nFor))
			case *ast.RangeStmt:
				nFor++
				add(x.Body.Lbrace+1, fmt.Sprintf("%s#for%d", base, nFor))
			case *ast.CommClause:
				nCase++
				add(x.Colon+1, fmt.Sprintf("%s#case%d", base, nCase))
			}
			return true
		})
	}
	if len(inserts) == 0 {
		return nil, nil, nil
	}
	// import goes on the package clause line
	inserts = append(inserts, ins{off(f.Name.End()), `; import verifrt "github.com/aukilabs/hagall/verifrt"`})
	sort.SliceStable(inserts, func(i, j int) bool { return inserts[i].off < inserts[j].off })
	var out []byte
	last := 0
	for _, in := range inserts {
		out = append(out, src[last:in.off]...)
		out = append(out, in.text...)
		last = in.off
	}
	out = append(out, src[last:]...)
	// sanity: the result must parse
	if _, err := parser.ParseFile(token.NewFileSet(), path, out, 0); err != nil {
		return nil, nil, fmt.Errorf("instrumented source does not parse: %v", err)
	}
	return out, sites, nil
}
