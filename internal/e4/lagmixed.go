package e4

import (
	"fmt"
	"time"

	"github.com/aukilabs/hagall-common/messages/hagallpb"

	"verif/internal/check"
	d "verif/internal/driver"
	"verif/internal/scen"
	"verif/internal/sut"
)

// LagMixedOutcome of one lag-then-catch-up trial with several senders.
type LagMixedOutcome struct {
	Findings     []*check.Finding
	Inconclusive string
	Flooded      int  // custom messages of the flooding member relayed before the pipeline towards the lagging member was full
	Jammed       bool // the pipeline towards the lagging member was full when the other senders acted
	Desc         string
	Received     map[string]int
	Phases       map[string]float64 // seconds until the jam was seen / until everything had drained; whether the addressee was torn down during the stall
}

// LagMixedTrial: a member stops reading (for far less than any timeout)
// while a second member relays numbered custom messages until the pipeline
// towards it - socket buffers and the 512-entry send queue - is full and the
// relaying handler waits for room. While it waits, two further members act:
// one relays a few numbered custom messages and adds an entity, the other
// moves its entity three times (numbered poses). Then the lagging member
// reads again. A slow member is still a member: it is owed every relay
// exactly once and in each sender's order (C02), the latest pose (C11), and
// its view equals what a newcomer is handed (C01).
func LagMixedTrial(p *sut.Proc, flood, size int, addressed bool) (out *LagMixedOutcome) {
	out = &LagMixedOutcome{Received: map[string]int{}, Phases: map[string]float64{}, Desc: fmt.Sprintf("lag+senders: a member stops reading until %d-byte custom relays (addressed to it and one other member: %v) jam the pipeline towards it; other members then relay customs, an entity add, pose updates and addressed messages, one addressee leaves, one member switches session, one closes, an outsider creates a session; it resumes", size, addressed)}
	lf := func(props []string, clause, format string, a ...any) *check.Finding {
		return &check.Finding{Props: props, Clause: clause, Trigger: "lagging-member/several-senders", Detail: out.Desc + ": " + fmt.Sprintf(format, a...), Engine: "E4 lagging member, several senders"}
	}
	defer func() {
		if r := recover(); r != nil {
			if !p.Alive() {
				out.Findings = append(out.Findings, lf([]string{"C08", "C02", "C09", "C03"}, "process/exited", "the server process ended: %s\n%s", p.ExitInfo(), p.CrashHead(4000)))
				return
			}
			out.Inconclusive = fmt.Sprint("lag+senders trial: ", r)
		}
	}()
	must := func(err error) {
		if err != nil {
			panic(err)
		}
	}
	join := func(sid string) *scen.C {
		c := scen.MustDial(p, "")
		_, _, err := c.Join(sid)
		must(err)
		return c
	}
	a := join("") // floods
	defer a.Close()
	b := join(a.SID) // customs + entity add while the pipeline is full
	defer b.Close()
	ps := join(a.SID) // poses while the pipeline is full
	defer ps.Close()
	w := join(a.SID) // steady member
	defer w.Close()
	pe, err := ps.AddEntity(false, 1)
	must(err)
	lag := scen.MustDial(p, "")
	defer lag.Close()
	lag.SetReadBuffer(256 << 10) // (well above the loopback segment size: a smaller window makes the drain crawl)
	_, _, err = lag.Join(a.SID)
	must(err)
	// further actors of the stall: an addressee that leaves without a leave
	// relay (its own flag) while an addressed message to it is held up; a
	// member that switches session; a member that closes; an outsider
	var rs []*scen.C
	var addressees []uint32
	for i := 0; i < 3; i++ {
		r, err := scen.Dial(p, "", "DISABLE_PARTICIPANT_LEAVE_BROADCAST")
		must(err)
		defer r.Close()
		_, _, err = r.Join(a.SID)
		must(err)
		rs = append(rs, r)
	}
	d2 := join(a.SID) // second relayer of addressed messages
	defer d2.Close()
	t := join(a.SID)
	defer t.Close()
	t2 := join(a.SID) // two more members that switch during the stall
	defer t2.Close()
	t3 := join(a.SID)
	defer t3.Close()
	q := join(a.SID)
	defer q.Close()
	outsider := scen.MustDial(p, "")
	defer outsider.Close()
	all := []*scen.C{a, b, ps, w, lag}
	for _, c := range append([]*scen.C{d2, t, t2, t3, q, outsider}, rs...) {
		_, err := c.Barrier()
		must(err)
	}
	for _, c := range all {
		_, err := c.Barrier()
		must(err)
		c.Timeout = 90 * time.Second
	}
	t0 := time.Now()
	lag.StopReading()
	resumed := false
	defer func() {
		if !resumed {
			lag.ResumeReading()
		}
	}()
	// the flood: written from its own goroutine (writes block once the server stops reading)
	floodDone := make(chan error, 1)
	go func() {
		body := make([]byte, size)
		for i := 1; i <= flood; i++ {
			copy(body, fmt.Sprintf("A%07d|", i))
			var to []uint32
			if addressed {
				// relayed outside the session's participant lock: nothing else of the
				// session waits behind the held-up relayer
				to = []uint32{lag.PID, w.PID}
			}
			if err := a.Custom(body, to...); err != nil {
				floodDone <- err
				return
			}
		}
		floodDone <- nil
	}()
	// the pipeline is full when the steady member stops receiving the flood
	// although the flood has not ended
	countA := func() int {
		n := 0
		for _, e := range w.LogCopy() {
			if m, ok := e.M.(*hagallpb.CustomMessageBroadcast); ok && len(m.Body) > 8 && m.Body[0] == 'A' {
				n++
			}
		}
		return n
	}
	last, still := -1, 0
	finished := false
	for k := 0; k < 600 && still < 8 && !finished; k++ {
		time.Sleep(50 * time.Millisecond)
		select {
		case err := <-floodDone:
			floodDone <- err
			finished = true
		default:
		}
		if n := countA(); n == last && n > 0 {
			still++
		} else {
			last, still = n, 0
		}
	}
	out.Flooded = last
	out.Phases["until_jam"] = time.Since(t0).Seconds()
	out.Jammed = !finished && still >= 8
	// addressed messages to the lagging member first and to r second: the
	// relayer is held up between the two while r leaves and is torn down
	const nc = 5
	addressees = []uint32{lag.PID}
	for _, r := range rs {
		addressees = append(addressees, r.PID)
	}
	for i := 1; i <= nc; i++ {
		must(b.Custom([]byte(fmt.Sprintf("C%07d|", i)), addressees...))
	}
	// (a second relayer held up the same way: each holds its own list of addressees)
	must(d2.Custom([]byte("D0000001|"), addressees...))
	time.Sleep(100 * time.Millisecond)
	gone := 0
	for _, r := range rs {
		r.Close()
	}
	for _, r := range rs {
		if ok, _ := scen.Departed(p, r, 2*time.Second); ok {
			gone++
		}
	}
	out.Phases["addressees_torn_down_during_stall"] = float64(gone)
	// the other senders act now (nothing is awaited: their handlers wait for room too)
	const nb = 5
	for i := 1; i <= nb; i++ {
		must(b.Custom([]byte(fmt.Sprintf("B%07d|", i))))
	}
	addID := b.NextReqID()
	must(b.Send(&hagallpb.EntityAddRequest{Type: d.TEntityAddReq, Timestamp: d.NewTag(), RequestId: addID, Pose: &hagallpb.Pose{Px: 77, Rw: 1}}))
	for i := 1; i <= 3; i++ {
		_, err := ps.Pose(pe, float32(1000+i))
		must(err)
		time.Sleep(60 * time.Millisecond) // several frames apart
	}
	// a member switches to a session of its own; another one closes
	tJoin := t.NextReqID()
	must(t.Send(&hagallpb.ParticipantJoinRequest{Type: d.TJoinReq, Timestamp: d.NewTag(), RequestId: tJoin}))
	tJoins := map[*scen.C]uint32{t: tJoin}
	for _, x := range []*scen.C{t2, t3} {
		tJoins[x] = x.NextReqID()
		must(x.Send(&hagallpb.ParticipantJoinRequest{Type: d.TJoinReq, Timestamp: d.NewTag(), RequestId: tJoins[x]}))
	}
	q.Close()
	// somebody who has nothing to do with this session creates one of its own:
	// answered, whatever stalls here (C03)
	outsider.Timeout = 5 * time.Second
	oj, _, oerr := outsider.Join("")
	outsiderServed := oerr == nil && oj != nil
	time.Sleep(300 * time.Millisecond)
	resumed = true
	lag.ResumeReading()
	if !outsiderServed {
		// not answered for five seconds while the other session stalled: decided
		// by what happens once the stall is over
		outsider.Timeout = 20 * time.Second
		oj2, _, err2 := outsider.Join("")
		late := false
		for _, e := range outsider.LogCopy() {
			if _, ok := e.M.(*hagallpb.ParticipantJoinResponse); ok {
				late = true
			}
		}
		if late || (err2 == nil && oj2 != nil) {
			out.Findings = append(out.Findings, lf([]string{"C03", "C08"}, "isolation/creation-blocked-by-another-sessions-stall", "while a member of one session did not read and other members of that session were leaving it, a connection outside that session got no answer to the creation of a session of its own for 5 s (%v); it was answered once the stalled member read again", oerr))
			return
		}
		out.Inconclusive = fmt.Sprint("lag+senders trial: the outsider's join failed: ", oerr, err2)
		return
	}
	select {
	case err := <-floodDone:
		if err != nil {
			panic(fmt.Errorf("the flooding member could not write: %w", err))
		}
	case <-time.After(90 * time.Second):
		f := wedgeFinding(p, Trial{Off: Offence{Name: "lagging-member/several-senders"}, Phase: "joined"}, out.Desc+": after the lagging member had resumed reading, the relaying member's writes never completed")
		f.Trigger = "lagging-member/several-senders"
		out.Findings = append(out.Findings, f)
		return
	}
	for _, c := range all {
		if _, err := c.Barrier(); err != nil {
			out.Findings = append(out.Findings, lf([]string{"C02", "C08", "C09"}, "lag/member-lost", "a member's connection failed after the lagging member had resumed (far before any timeout): %v", err))
			return
		}
	}
	out.Phases["until_drained"] = time.Since(t0).Seconds()
	// a few frames for the last pose, then the barrier again
	for k := 0; k < 40; k++ {
		time.Sleep(10 * time.Millisecond)
	}
	var bEntity uint32
	for _, e := range b.LogCopy() {
		if r, ok := e.M.(*hagallpb.EntityAddResponse); ok && r.RequestId == addID {
			bEntity = r.EntityId
		}
	}
	if bEntity == 0 {
		out.Findings = append(out.Findings, lf([]string{"C04", "C02"}, "lag/request-unanswered", "the entity add made while the pipeline was full was never answered with success"))
		return
	}
	for _, obs := range []struct {
		name string
		c    *scen.C
	}{{"lagging member", lag}, {"steady member", w}} {
		if _, err := obs.c.Barrier(); err != nil {
			out.Findings = append(out.Findings, lf([]string{"C02", "C08"}, "lag/member-lost", "the %s's connection failed: %v", obs.name, err))
			return
		}
		type seq struct{ next, got, dup, reord int }
		seqs := map[byte]*seq{'A': {next: 1}, 'B': {next: 1}}
		seen := map[string]bool{}
		adds := 0
		lastPose, poseBack, poseRelays := float32(0), 0, 0
		for _, e := range obs.c.LogCopy() {
			switch m := e.M.(type) {
			case *hagallpb.CustomMessageBroadcast:
				if len(m.Body) < 9 {
					continue
				}
				s := seqs[m.Body[0]]
				if s == nil {
					continue
				}
				var k int
				fmt.Sscanf(string(m.Body[1:8]), "%d", &k)
				s.got++
				key := string(m.Body[:8])
				if seen[key] {
					s.dup++
				}
				seen[key] = true
				if k < s.next {
					s.reord++
				}
				s.next = k + 1
			case *hagallpb.EntityAddBroadcast:
				if m.Entity.GetId() == bEntity {
					adds++
				}
			case *hagallpb.EntityUpdatePoseBroadcast:
				if m.EntityId == pe {
					poseRelays++
					if px := m.Pose.GetPx(); px <= lastPose {
						poseBack++
					} else {
						lastPose = px
					}
				}
			}
		}
		out.Received[obs.name+" A"] = seqs['A'].got
		out.Received[obs.name+" B"] = seqs['B'].got
		for who, want := range map[byte]int{'A': flood, 'B': nb} {
			s := seqs[who]
			if s.got != want || s.dup != 0 || s.reord != 0 {
				out.Findings = append(out.Findings, lf([]string{"C02", "C14"}, "relay/not-exactly-once", "the %s received %d of the %d custom relays of sender %c (%d duplicated, %d out of order); the pipeline towards the lagging member was full when sender B acted: %v", obs.name, s.got, want, who, s.dup, s.reord, out.Jammed))
			}
		}
		if adds != 1 {
			out.Findings = append(out.Findings, lf([]string{"C02", "C01"}, "relay/not-exactly-once", "the %s received %d relays of the entity add made while the pipeline was full (want 1)", obs.name, adds))
		}
		if poseBack != 0 {
			out.Findings = append(out.Findings, lf([]string{"C11"}, "pose/reordered-or-repeated", "the %s received %d pose relays of entity %d, %d of them not newer than the one before", obs.name, poseRelays, pe, poseBack))
		}
		if lastPose != 1003 {
			out.Findings = append(out.Findings, lf([]string{"C11", "C01", "C02"}, "pose/latest-never-relayed", "the owner's last pose update of entity %d (px 1003) was sent while the pipeline towards the lagging member was full (%v); after everything drained and more than 20 frames passed, the last pose the %s was relayed is px %v", pe, out.Jammed, obs.name, lastPose))
		}
	}
	// the member that switched: answered, and once it is told it is in its new
	// session nothing of the old one reaches it any more
	for _, sw := range []*scen.C{t, t2, t3} {
		sw.Timeout = 30 * time.Second
		if _, err := sw.Barrier(); err != nil {
			out.Findings = append(out.Findings, lf([]string{"C02", "C08"}, "lag/member-lost", "a member that switched session during the stall: %v", err))
			return
		}
		joined := false
		for _, e := range sw.LogCopy() {
			if jr, ok := e.M.(*hagallpb.ParticipantJoinResponse); ok && jr.RequestId == tJoins[sw] {
				joined = true
				continue
			}
			if !joined || e.M == nil {
				continue
			}
			switch m := e.M.(type) {
			case *hagallpb.CustomMessageBroadcast, *hagallpb.EntityAddBroadcast, *hagallpb.EntityUpdatePoseBroadcast, *hagallpb.EntityDeleteBroadcast, *hagallpb.ParticipantLeaveBroadcast, *hagallpb.ParticipantJoinBroadcast:
				out.Findings = append(out.Findings, lf([]string{"C01", "C02", "C03"}, "relay/reaches-former-member", "a member switched to a session of its own while a relay of its old session was held up by the lagging member; after the answer to its join it was still sent %v (a relay of the session it had left)", m))
				return
			}
		}
		if !joined {
			out.Findings = append(out.Findings, lf([]string{"C04", "C07"}, "lag/request-unanswered", "a session switch made during the stall was never answered"))
			return
		}
	}
	// the addressed messages: the lagging member has each exactly once, in order
	next, got := 1, 0
	for _, e := range lag.LogCopy() {
		if m, ok := e.M.(*hagallpb.CustomMessageBroadcast); ok && len(m.Body) > 8 && m.Body[0] == 'C' {
			var k int
			fmt.Sscanf(string(m.Body[1:8]), "%d", &k)
			if k != next {
				out.Findings = append(out.Findings, lf([]string{"C14", "C02"}, "custom/addressed-delivery", "the lagging member received addressed message %d where %d was due", k, next))
				return
			}
			next++
			got++
		}
	}
	dGot := 0
	for _, e := range lag.LogCopy() {
		if m, ok := e.M.(*hagallpb.CustomMessageBroadcast); ok && len(m.Body) > 8 && m.Body[0] == 'D' {
			dGot++
		}
	}
	if dGot != 1 {
		out.Findings = append(out.Findings, lf([]string{"C14", "C02"}, "custom/addressed-delivery", "the lagging member received the second relayer's addressed message %d times (want 1)", dGot))
		return
	}
	if got != nc {
		out.Findings = append(out.Findings, lf([]string{"C14", "C02"}, "custom/addressed-delivery", "the lagging member received %d of the %d messages addressed to it and to members that left meanwhile", got, nc))
		return
	}
	for _, c := range []*scen.C{w, a, ps} {
		for _, e := range c.LogCopy() {
			if m, ok := e.M.(*hagallpb.CustomMessageBroadcast); ok && len(m.Body) > 8 && m.Body[0] == 'C' {
				out.Findings = append(out.Findings, lf([]string{"C14"}, "custom/addressed-delivery", "participant %d, not an addressee, received an addressed message", c.PID))
				return
			}
		}
	}
	// what a newcomer is handed has the latest pose too
	snap, err := scen.Probe(p, a.SID, "")
	must(err)
	if !snap.Found {
		panic("the session cannot be probed")
	}
	for _, e := range snap.State.GetEntities() {
		if e.Id == pe && e.Pose.GetPx() != 1003 {
			out.Findings = append(out.Findings, lf([]string{"C11", "C01"}, "pose/newcomer-not-handed-latest", "a newcomer is handed px %v for entity %d whose owner last sent px 1003", e.Pose.GetPx(), pe))
		}
	}
	return
}
