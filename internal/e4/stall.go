package e4

import (
	"fmt"
	"time"

	"github.com/aukilabs/hagall-common/messages/hagallpb"

	"verif/internal/check"
	d "verif/internal/driver"
	"verif/internal/scen"
	"verif/internal/sut"
)

// StallOutcome of one stall trial.
type StallOutcome struct {
	Findings      []*check.Finding
	Inconclusive  string
	RelaysTowards int  // messages the session relayed towards the stalled client
	SenderBlocked bool // the sending member stopped being served while the peer stalled
	StallerEnded  bool
	Desc          string
}

// StallTrial: a member stops reading while another member relays `n` custom
// messages of `size` bytes to the session (far more than the stalled member's
// socket buffers and send queue hold). The staller stays silent, so the idle
// timeout must disconnect it through the normal path; a member of another
// session must be served throughout; afterwards the session must work again.
func StallTrial(p *sut.Proc, idle time.Duration, n, size int) (out *StallOutcome) {
	out = &StallOutcome{Desc: fmt.Sprintf("stall: %d custom messages of %d bytes relayed towards a member that stopped reading; idle timeout %v", n, size, idle)}
	t := Trial{Off: Offence{Name: "stall/stop-reading-while-relayed-to"}, Phase: "joined"}
	defer func() {
		if r := recover(); r != nil {
			if !p.Alive() {
				out.Findings = append(out.Findings, finding(t, "process/exited", "the server process ended: %s\n%s", p.ExitInfo(), p.CrashHead(4000)))
				return
			}
			out.Inconclusive = fmt.Sprint("stall trial: ", r)
		}
	}()
	must := func(err error) {
		if err != nil {
			panic(err)
		}
	}
	w1 := scen.MustDial(p, "vod")
	defer w1.Close()
	_, _, err := w1.Join("")
	must(err)
	w2 := scen.MustDial(p, "vod")
	defer w2.Close()
	_, _, err = w2.Join("")
	must(err)
	o := scen.MustDial(p, "vod")
	defer o.Close()
	_, _, err = o.Join(w1.SID)
	must(err)
	oe, err := o.AddEntity(false, 1)
	must(err)
	w1.Barrier()
	o.StopReading()
	defer o.ResumeReading()

	// keep the witnesses alive (idle timeout) and observe the other session
	stop := make(chan struct{})
	otherOK := make(chan bool, 1)
	go func() {
		ok := true
		for {
			select {
			case <-stop:
				otherOK <- ok
				return
			case <-time.After(idle / 5):
				if id, err := w2.AddEntity(false, 2); err != nil || id == 0 {
					ok = false
				}
			}
		}
	}()
	body := make([]byte, size)
	start := time.Now()
	sent := 0
	// (a write that times out in the middle of a frame breaks the harness's own
	// connection: the bound must exceed the time the server may take to give up
	// on the staller - the sender's wait on the staller's full queue plus the
	// staller's own main loop's, each at most one idle timeout)
	w1.Timeout = 3*idle + 4*time.Second
	for i := 0; i < n; i++ {
		if err := w1.Custom(body); err != nil {
			break
		}
		sent++
	}
	out.RelaysTowards = sent
	// is the sender still served while its peer stalls? (everything w1 receives
	// from now on is kept: the staller's departure relays may arrive any time)
	var seen []*d.Event
	if w, err := w1.Barrier(); err == d.ErrTimeout {
		out.SenderBlocked = true
		seen = append(seen, w...)
	} else {
		seen = append(seen, w...)
	}
	// the staller is silent: the idle timeout must end it (bounded wait, in rounds)
	ended := false
	for time.Since(start) < idle+12*time.Second {
		ok, err := scen.Departed(p, o, 200*time.Millisecond)
		must(err)
		if ok {
			ended = true
			break
		}
		// keep w1 alive
		w1.Send(&hagallpb.Request{Type: d.TPingReq, Timestamp: d.NewTag(), RequestId: w1.NextReqID()})
	}
	close(stop)
	if !<-otherOK {
		out.Findings = append(out.Findings, finding(t, "witness/other-session-affected", "%s: a member of another session could not add entities while the stall lasted", out.Desc))
	}
	out.StallerEnded = ended
	if !ended {
		f := wedgeFinding(p, t, out.Desc+": the stalled, silent member was not disconnected (its handler never returned) within the idle timeout plus 12 s")
		f.Trigger = "stall/stop-reading-while-relayed-to"
		out.Findings = append(out.Findings, f)
		return
	}
	// the session works again: the sender is served, and it saw the staller's departure exactly once
	w1.Timeout = 20 * time.Second
	win, err := w1.Barrier()
	if err != nil {
		out.Findings = append(out.Findings, finding(t, "witness/same-session-stalled", "%s: after the stalled member was disconnected, the sending member still gets no pong: %v", out.Desc, err))
		return
	}
	leaves, dels := 0, 0
	for _, e := range append(seen, win...) {
		switch m := e.M.(type) {
		case *hagallpb.ParticipantLeaveBroadcast:
			if m.ParticipantId == o.PID {
				leaves++
			}
		case *hagallpb.EntityDeleteBroadcast:
			if m.EntityId == oe {
				dels++
			}
		}
	}
	if leaves != 1 || dels != 1 {
		out.Findings = append(out.Findings, finding(t, "departure/not-processed-exactly-once", "%s: the sending member saw %d leave relays and %d delete relays for the stalled member (want 1 and 1)", out.Desc, leaves, dels))
	}
	return
}

// LagOutcome of one lagging-member trial.
type LagOutcome struct {
	Findings     []*check.Finding
	Inconclusive string
	Sent         int
	Received     map[string]int
	Desc         string
}

// LagTrial: a member stops reading for a while (shorter than any timeout)
// and then resumes, while another member relays n numbered custom messages
// of `size` bytes to the session - more than the lagging member's socket
// buffers and send queue hold. A slow member is still a member: it must
// receive every relay exactly once and in the sender's order (C02).
func LagTrial(p *sut.Proc, n, size int, pause time.Duration) (out *LagOutcome) {
	out = &LagOutcome{Received: map[string]int{}, Desc: fmt.Sprintf("lag: %d numbered custom messages of %d bytes relayed while one member does not read for %v", n, size, pause)}
	lf := func(clause, format string, a ...any) *check.Finding {
		return &check.Finding{Props: []string{"C02", "C14"}, Clause: clause, Trigger: "lagging-member", Detail: out.Desc + ": " + fmt.Sprintf(format, a...), Engine: "E4 lagging member"}
	}
	defer func() {
		if r := recover(); r != nil {
			if !p.Alive() {
				out.Findings = append(out.Findings, lf("process/exited", "the server process ended: %s\n%s", p.ExitInfo(), p.CrashHead(4000)))
				return
			}
			out.Inconclusive = fmt.Sprint("lag trial: ", r)
		}
	}()
	must := func(err error) {
		if err != nil {
			panic(err)
		}
	}
	w1 := scen.MustDial(p, "")
	defer w1.Close()
	_, _, err := w1.Join("")
	must(err)
	lag := scen.MustDial(p, "")
	defer lag.Close()
	_, _, err = lag.Join(w1.SID)
	must(err)
	w3 := scen.MustDial(p, "")
	defer w3.Close()
	_, _, err = w3.Join(w1.SID)
	must(err)
	w1.Barrier()
	lag.Barrier()
	w3.Barrier()
	for _, c := range []*scen.C{w1, lag, w3} {
		c.Timeout = 60 * time.Second
	}
	lag.StopReading()
	done := make(chan error, 1)
	go func() {
		body := make([]byte, size)
		for i := 1; i <= n; i++ {
			copy(body, fmt.Sprintf("%08d|", i))
			if err := w1.Custom(body); err != nil {
				done <- err
				return
			}
		}
		done <- nil
	}()
	time.Sleep(pause)
	lag.ResumeReading()
	if err := <-done; err != nil {
		panic(fmt.Errorf("the sender could not write its messages: %w", err))
	}
	out.Sent = n
	_, err = w1.Barrier()
	must(err)
	for name, c := range map[string]*scen.C{"lagging member": lag, "steady member": w3} {
		win, err := c.Barrier()
		if err != nil {
			out.Findings = append(out.Findings, lf("lag/member-lost", "the %s's connection failed: %v", name, err))
			return
		}
		next, got, dup, reord := 1, 0, 0, 0
		seen := map[int]bool{}
		for _, e := range win {
			m, ok := e.M.(*hagallpb.CustomMessageBroadcast)
			if !ok || len(m.Body) < 9 {
				continue
			}
			var k int
			fmt.Sscanf(string(m.Body[:8]), "%d", &k)
			got++
			if seen[k] {
				dup++
			}
			seen[k] = true
			if k < next {
				reord++
			}
			next = k + 1
		}
		out.Received[name] = got
		if len(seen) != n || dup != 0 || reord != 0 {
			out.Findings = append(out.Findings, lf("relay/not-exactly-once", "the %s received %d of the %d relays (%d distinct, %d duplicated, %d out of order)", name, got, n, len(seen), dup, reord))
		}
	}
	return
}

// StallLeaveTrial (design G13 without gates): a peer stalls until its send
// queue is full; a member X that owns entities then leaves the session (by
// switching) with a pose update pending and more than 256 further requests
// pipelined behind the switch. X's main loop blocks in the delete relays of
// its departure, its request queue fills, a frame tick tries to push X's
// pending update into that full queue while holding the frame lock, and when
// the stalled peer finally reads again X needs that lock to stop its frame
// handling. Every request must still complete, and the session's pose
// relays must keep flowing.
func StallLeaveTrial(p *sut.Proc, idle time.Duration) (out *StallOutcome) {
	out = &StallOutcome{Desc: fmt.Sprintf("stall+leave: a member leaves (pending pose update, 300 pipelined requests) while a stalled peer's send queue is full; idle timeout %v", idle)}
	t := Trial{Off: Offence{Name: "stall/leave-with-full-queue-while-peer-stalls"}, Phase: "joined"}
	defer func() {
		if r := recover(); r != nil {
			if !p.Alive() {
				out.Findings = append(out.Findings, finding(t, "process/exited", "the server process ended: %s\n%s", p.ExitInfo(), p.CrashHead(4000)))
				return
			}
			out.Inconclusive = fmt.Sprint("stall+leave trial: ", r)
		}
	}()
	must := func(err error) {
		if err != nil {
			panic(err)
		}
	}
	w := scen.MustDial(p, "")
	defer w.Close()
	_, _, err := w.Join("")
	must(err)
	w3 := scen.MustDial(p, "")
	defer w3.Close()
	_, _, err = w3.Join(w.SID)
	must(err)
	x := scen.MustDial(p, "")
	defer x.Close()
	_, _, err = x.Join(w.SID)
	must(err)
	var xe uint32
	for i := 0; i < 3; i++ {
		xe, err = x.AddEntity(false, float32(i))
		must(err)
	}
	we, err := w.AddEntity(false, 50)
	must(err)
	o := scen.MustDial(p, "")
	defer o.Close()
	_, _, err = o.Join(w.SID)
	must(err)
	for _, c := range []*scen.C{w, w3, x} {
		c.Barrier()
	}
	o.StopReading()
	defer o.ResumeReading()
	// keep w and w3 alive and reading; fill the stalled peer's socket buffers and send queue
	// (written from a goroutine without a short write deadline: a write that
	// times out in the middle of a frame would break w's own connection)
	body := make([]byte, 10000)
	w.Timeout = 60 * time.Second
	const flood = 1500
	floodDone := make(chan error, 1)
	go func() {
		for i := 0; i < flood; i++ {
			if err := w.Custom(body); err != nil {
				floodDone <- err
				return
			}
		}
		floodDone <- nil
	}()
	time.Sleep(400 * time.Millisecond)
	out.RelaysTowards = flood
	// X: a pose update, then the switch, then 300 pings - written without reading
	x.Timeout = 2 * time.Second
	x.Pose(xe, 99)
	joinID := x.NextReqID()
	x.Send(&hagallpb.ParticipantJoinRequest{Type: d.TJoinReq, Timestamp: d.NewTag(), RequestId: joinID})
	for i := 0; i < 300; i++ {
		if err := x.Send(&hagallpb.Request{Type: d.TPingReq, Timestamp: d.NewTag(), RequestId: x.NextReqID()}); err != nil {
			break
		}
	}
	// several frame ticks pass while X's queue is full and its main loop is
	// blocked relaying to the stalled peer; then the peer starts reading again
	// (well before any idle timeout), which lets X's departure proceed
	time.Sleep(150 * time.Millisecond)
	o.ResumeReading()
	out.StallerEnded = true
	// now everything must drain: X's switch is answered ...
	x.Timeout = 15 * time.Second
	answered := false
	_, err = x.WaitFor(func(e *d.Event) bool {
		if m, ok := e.M.(*hagallpb.ParticipantJoinResponse); ok && m.RequestId == joinID {
			answered = true
			return true
		}
		return false
	})
	if !answered {
		f := wedgeFinding(p, t, out.Desc+fmt.Sprintf(": after the stalled peer had resumed reading, the leaving member's session switch was never answered (%v)", err))
		f.Trigger = "stall/leave-with-full-queue-while-peer-stalls"
		f.Props = append(f.Props, "C09")
		out.Findings = append(out.Findings, f)
		return
	}
	// ... and the session's frame worker still relays pose updates
	select {
	case err := <-floodDone:
		if err != nil {
			panic(fmt.Errorf("the flooding member could not write: %w", err))
		}
	case <-time.After(40 * time.Second):
		f := wedgeFinding(p, t, out.Desc+": the relaying member's writes never completed after the stalled peer had resumed reading")
		f.Trigger = "stall/leave-with-full-queue-while-peer-stalls"
		out.Findings = append(out.Findings, f)
		return
	}
	w.Timeout, w3.Timeout = 15*time.Second, 15*time.Second
	if _, err := w.Barrier(); err != nil {
		f := wedgeFinding(p, t, fmt.Sprintf("%s: a remaining member gets no pong afterwards: %v", out.Desc, err))
		f.Trigger = "stall/leave-with-full-queue-while-peer-stalls"
		f.Props = append(f.Props, "C09")
		out.Findings = append(out.Findings, f)
		return
	}
	w3.Barrier()
	tag, _ := w.Pose(we, 4242)
	got := false
	for k := 0; k < 400 && !got; k++ {
		win, err := w3.Barrier()
		if err != nil {
			break
		}
		for _, e := range win {
			if m, ok := e.M.(*hagallpb.EntityUpdatePoseBroadcast); ok && d.TagID(m.OriginTimestamp) == d.TagID(tag) {
				got = true
			}
		}
		time.Sleep(5 * time.Millisecond)
	}
	if !got {
		f := wedgeFinding(p, t, out.Desc+": afterwards a pose update of a remaining member is never relayed: the session's frame worker is stuck")
		f.Trigger = "stall/leave-with-full-queue-while-peer-stalls"
		f.Props = append(f.Props, "C09", "C11")
		out.Findings = append(out.Findings, f)
	}
	return
}
