package e4

import (
	"fmt"
	"time"

	"github.com/aukilabs/hagall-common/messages/hagallpb"

	"verif/internal/check"
	d "verif/internal/driver"
	"verif/internal/scen"
	"verif/internal/sut"
)

// StallOutcome of one stall trial.
type StallOutcome struct {
	Findings      []*check.Finding
	Inconclusive  string
	RelaysTowards int  // messages the session relayed towards the stalled client
	SenderBlocked bool // the sending member stopped being served while the peer stalled
	StallerEnded  bool
	Desc          string
}

// StallTrial: a member stops reading while another member relays `n` custom
// messages of `size` bytes to the session (far more than the stalled member's
// socket buffers and send queue hold). The staller stays silent, so the idle
// timeout must disconnect it through the normal path; a member of another
// session must be served throughout; afterwards the session must work again.
func StallTrial(p *sut.Proc, idle time.Duration, n, size int) (out *StallOutcome) {
	out = &StallOutcome{Desc: fmt.Sprintf("stall: %d custom messages of %d bytes relayed towards a member that stopped reading; idle timeout %v", n, size, idle)}
	t := Trial{Off: Offence{Name: "stall/stop-reading-while-relayed-to"}, Phase: "joined"}
	defer func() {
		if r := recover(); r != nil {
			if !p.Alive() {
				out.Findings = append(out.Findings, finding(t, "process/exited", "the server process ended: %s\n%s", p.ExitInfo(), p.CrashHead(4000)))
				return
			}
			out.Inconclusive = fmt.Sprint("stall trial: ", r)
		}
	}()
	must := func(err error) {
		if err != nil {
			panic(err)
		}
	}
	w1 := scen.MustDial(p, "vod")
	defer w1.Close()
	_, _, err := w1.Join("")
	must(err)
	w2 := scen.MustDial(p, "vod")
	defer w2.Close()
	_, _, err = w2.Join("")
	must(err)
	o := scen.MustDial(p, "vod")
	defer o.Close()
	_, _, err = o.Join(w1.SID)
	must(err)
	oe, err := o.AddEntity(false, 1)
	must(err)
	w1.Barrier()
	o.StopReading()
	defer o.ResumeReading()

	// keep the witnesses alive (idle timeout) and observe the other session
	stop := make(chan struct{})
	otherOK := make(chan bool, 1)
	go func() {
		ok := true
		for {
			select {
			case <-stop:
				otherOK <- ok
				return
			case <-time.After(idle / 5):
				if id, err := w2.AddEntity(false, 2); err != nil || id == 0 {
					ok = false
				}
			}
		}
	}()
	body := make([]byte, size)
	start := time.Now()
	sent := 0
	w1.Timeout = 3 * time.Second
	for i := 0; i < n; i++ {
		if err := w1.Custom(body); err != nil {
			break
		}
		sent++
	}
	out.RelaysTowards = sent
	// is the sender still served while its peer stalls? (everything w1 receives
	// from now on is kept: the staller's departure relays may arrive any time)
	var seen []*d.Event
	if w, err := w1.Barrier(); err == d.ErrTimeout {
		out.SenderBlocked = true
		seen = append(seen, w...)
	} else {
		seen = append(seen, w...)
	}
	// the staller is silent: the idle timeout must end it (bounded wait, in rounds)
	ended := false
	for time.Since(start) < idle+12*time.Second {
		ok, err := scen.Departed(p, o, 200*time.Millisecond)
		must(err)
		if ok {
			ended = true
			break
		}
		// keep w1 alive
		w1.Send(&hagallpb.Request{Type: d.TPingReq, Timestamp: d.NewTag(), RequestId: w1.NextReqID()})
	}
	close(stop)
	if !<-otherOK {
		out.Findings = append(out.Findings, finding(t, "witness/other-session-affected", "%s: a member of another session could not add entities while the stall lasted", out.Desc))
	}
	out.StallerEnded = ended
	if !ended {
		f := wedgeFinding(p, t, out.Desc+": the stalled, silent member was not disconnected (its handler never returned) within the idle timeout plus 12 s")
		f.Trigger = "stall/stop-reading-while-relayed-to"
		out.Findings = append(out.Findings, f)
		return
	}
	// the session works again: the sender is served, and it saw the staller's departure exactly once
	w1.Timeout = 20 * time.Second
	win, err := w1.Barrier()
	if err != nil {
		out.Findings = append(out.Findings, finding(t, "witness/same-session-stalled", "%s: after the stalled member was disconnected, the sending member still gets no pong: %v", out.Desc, err))
		return
	}
	leaves, dels := 0, 0
	for _, e := range append(seen, win...) {
		switch m := e.M.(type) {
		case *hagallpb.ParticipantLeaveBroadcast:
			if m.ParticipantId == o.PID {
				leaves++
			}
		case *hagallpb.EntityDeleteBroadcast:
			if m.EntityId == oe {
				dels++
			}
		}
	}
	if leaves != 1 || dels != 1 {
		out.Findings = append(out.Findings, finding(t, "departure/not-processed-exactly-once", "%s: the sending member saw %d leave relays and %d delete relays for the stalled member (want 1 and 1)", out.Desc, leaves, dels))
	}
	return
}
