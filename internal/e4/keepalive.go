package e4

import (
	"fmt"
	"time"

	"github.com/aukilabs/hagall-common/messages/dagazpb"
	"github.com/aukilabs/hagall-common/messages/hagallpb"
	"github.com/aukilabs/hagall-common/messages/odalpb"
	"github.com/aukilabs/hagall-common/messages/vikjapb"
	"google.golang.org/protobuf/proto"
	"google.golang.org/protobuf/types/known/timestamppb"

	"verif/internal/check"
	d "verif/internal/driver"
	"verif/internal/scen"
	"verif/internal/sut"
)

// KeepAliveKinds: the one kind of message a connection keeps sending. Every
// message type the server handles (core and modules), including ones that are
// refused with an error answer; none of them is a protocol error.
var KeepAliveKinds = []string{"ping", "custom", "entity_add", "entity_delete-unknown", "pose", "comp_update", "type_get_name", "comp_list", "subscribe",
	"receipt-empty", "vikja-action", "vikja-action-refused", "odal-asset-add", "dagaz-quad-sample", "dagaz-ground-plane", "dagaz-region", "dagaz-debug-info", "unknown-type-999"}

type KeepAliveOutcome struct {
	Kind         string
	Sent         int
	Findings     []*check.Finding
	Inconclusive string
}

// KeepAliveTrial: a member of a session (all modules) sends one message of the
// given kind every idle/6 for 2.6 idle timeouts and nothing else (no pings, no
// barriers); it must still be connected afterwards ("one that keeps sending is
// not disconnected"). The verdict does not depend on wall-clock precision: the
// trial is inconclusive if the driver itself ever left a gap above 0.7 idle.
func KeepAliveTrial(p *sut.Proc, idle time.Duration, kind string) (out *KeepAliveOutcome) {
	out = &KeepAliveOutcome{Kind: kind}
	defer func() {
		if x := recover(); x != nil {
			out.Inconclusive = fmt.Sprint("keep-alive ", kind, ": ", x)
		}
	}()
	c, err := scen.Dial(p, "vod", "")
	if err != nil {
		panic(err)
	}
	defer c.Close()
	if _, _, err := c.Join(""); err != nil {
		panic(err)
	}
	own, err := c.AddEntity(true, 1)
	if err != nil {
		panic(err)
	}
	t, err := c.AddType("ka-type")
	if err != nil {
		panic(err)
	}
	if _, err := c.AddComp(t, own, "c0"); err != nil {
		panic(err)
	}
	now := func() *timestamppb.Timestamp { return d.NewTag() }
	n := 0
	mk := func() proto.Message {
		n++
		id := c.NextReqID()
		switch kind {
		case "ping":
			return &hagallpb.Request{Type: hagallpb.MsgType(d.TPingReq), Timestamp: now(), RequestId: id}
		case "custom":
			return &hagallpb.CustomMessage{Type: d.TCustom, Timestamp: now(), Body: []byte("ka")}
		case "entity_add":
			return &hagallpb.EntityAddRequest{Type: d.TEntityAddReq, Timestamp: now(), RequestId: id, Pose: &hagallpb.Pose{Px: float32(n)}}
		case "entity_delete-unknown":
			return &hagallpb.EntityDeleteRequest{Type: d.TEntityDelReq, Timestamp: now(), RequestId: id, EntityId: 4_000_000}
		case "pose":
			return &hagallpb.EntityUpdatePose{Type: d.TPoseUpdate, Timestamp: now(), EntityId: own, Pose: &hagallpb.Pose{Px: float32(n)}}
		case "comp_update":
			return &hagallpb.EntityComponentUpdate{Type: d.TCompUpdate, Timestamp: now(), EntityComponentTypeId: t, EntityId: own, Data: []byte(fmt.Sprint("u", n))}
		case "type_get_name":
			return &hagallpb.EntityComponentTypeGetNameRequest{Type: d.TGetNameReq, Timestamp: now(), RequestId: id, EntityComponentTypeId: t}
		case "comp_list":
			return &hagallpb.EntityComponentListRequest{Type: d.TCompListReq, Timestamp: now(), RequestId: id, EntityComponentTypeId: t}
		case "subscribe":
			return &hagallpb.EntityComponentTypeSubscribeRequest{Type: d.TSubReq, Timestamp: now(), RequestId: id, EntityComponentTypeId: t}
		case "receipt-empty":
			return &hagallpb.ReceiptRequest{Type: d.TReceiptReq, Timestamp: now(), RequestId: id}
		case "vikja-action":
			return &vikjapb.EntityActionRequest{Type: d.TActionReq, Timestamp: now(), RequestId: id, EntityAction: &vikjapb.EntityAction{EntityId: own, Name: "ka", Timestamp: &timestamppb.Timestamp{Seconds: 1_700_000_000 + int64(n)}, Data: []byte("x")}}
		case "vikja-action-refused":
			return &vikjapb.EntityActionRequest{Type: d.TActionReq, Timestamp: now(), RequestId: id, EntityAction: &vikjapb.EntityAction{EntityId: 4_000_000, Name: "ka", Timestamp: &timestamppb.Timestamp{Seconds: 1_700_000_000}}}
		case "odal-asset-add":
			return &odalpb.AssetInstanceAddRequest{Type: d.TAssetAddReq, Timestamp: now(), RequestId: id, EntityId: own, AssetId: fmt.Sprint("ka-", n)}
		case "dagaz-quad-sample":
			return &dagazpb.DagazQuadSample{Type: d.TQuadSample, Timestamp: now(), Samples: []*dagazpb.Quad{{Center: pt(float32(n%5), 0, 1), Extents: pt(1, 0, 1)}}}
		case "dagaz-ground-plane":
			return &dagazpb.DagazGetGroundPlaneRequest{Type: d.TGroundPlaneReq, Timestamp: now(), RequestId: id, Ray: &dagazpb.Ray{From: pt(0.5, 1, 0.5), To: pt(0.5, -1, 0.5)}}
		case "dagaz-region":
			return &dagazpb.DagazGetRegionRequest{Type: d.TRegionReq, Timestamp: now(), RequestId: id, Min: pt(-1, 0, -1), Max: pt(1, 0, 1)}
		case "dagaz-debug-info":
			return &dagazpb.DagazGetDebugInfoRequest{Type: d.TDebugInfoReq, Timestamp: now(), RequestId: id}
		case "unknown-type-999":
			return &hagallpb.Request{Type: hagallpb.MsgType(999), Timestamp: now(), RequestId: id}
		}
		panic("unknown keep-alive kind " + kind)
	}
	start := time.Now()
	last := start
	for time.Since(start) < idle*26/10 {
		if err := c.Send(mk()); err != nil {
			break // the connection ended: judged below
		}
		out.Sent++
		time.Sleep(idle / 6)
		if gap := time.Since(last); gap > idle*7/10 {
			out.Inconclusive = fmt.Sprintf("keep-alive %s: the driver itself left a gap of %v (idle timeout %v)", kind, gap, idle)
			return
		}
		last = time.Now()
	}
	ci, err := p.Conns(c.CID)
	if err != nil {
		panic(err)
	}
	b := ci.By[c.CID]
	if c.IsClosed() || b.Returned > 0 {
		f := &check.Finding{Props: []string{"C08"}, Clause: "idle/sender-disconnected", Trigger: "keep-alive/" + kind, Engine: "E4 keep-alive",
			Detail: fmt.Sprintf("a session member that sent a %s message every %v (idle timeout %v, %d sent, nothing else) was disconnected after %v; last events: %v", kind, idle/6, idle, out.Sent, time.Since(start).Round(time.Millisecond), tailEvents(c.LogCopy(), 4))}
		out.Findings = append(out.Findings, f)
	}
	return
}

func tailEvents(ev []*d.Event, n int) []*d.Event {
	if len(ev) > n {
		return ev[len(ev)-n:]
	}
	return ev
}
