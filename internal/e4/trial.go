package e4

import (
	"fmt"
	"strings"
	"time"

	"github.com/aukilabs/hagall-common/messages/hagallpb"

	"verif/internal/check"
	d "verif/internal/driver"
	"verif/internal/e1"
	"verif/internal/scen"
	"verif/internal/sut"
)

// Trial is one offence placed at one phase of the offender's life.
type Trial struct {
	Off   Offence
	Phase string // "unjoined" | "joined"
}

func (t Trial) Name() string { return t.Off.Name + "@" + t.Phase }

// Outcome of a trial (evidence).
type Outcome struct {
	Name         string
	Fate         string // "alive" | "closed"
	Findings     []*check.Finding
	Inconclusive string
	Oracles      int // liveness oracles evaluated
	LocalAddr    string
}

func finding(t Trial, clause, format string, a ...any) *check.Finding {
	props := []string{"C08"}
	if strings.HasPrefix(clause, "departure/") {
		props = append(props, "C06")
	}
	if strings.HasPrefix(t.Off.Name, "pose/") {
		props = append(props, "C11")
	}
	return &check.Finding{Props: props, Clause: clause, Trigger: t.Name(), Detail: fmt.Sprintf(format, a...), Engine: "E4 fault"}
}

// RunTrial executes one trial against a running lab SUT.
func RunTrial(p *sut.Proc, t Trial) (out *Outcome) {
	out = &Outcome{Name: t.Name()}
	defer func() {
		if r := recover(); r != nil {
			if !p.Alive() {
				out.Findings = append(out.Findings, finding(t, "process/exited", "the server process ended during the trial (%v): %s\n%s", r, p.ExitInfo(), p.CrashHead(5000)))
				return
			}
			out.Inconclusive = fmt.Sprint("harness: ", r)
		}
	}()
	must := func(err error) {
		if err != nil {
			panic(err)
		}
	}
	w1 := scen.MustDial(p, "vod")
	defer w1.Close()
	w2 := scen.MustDial(p, "vod")
	defer w2.Close()
	_, _, err := w1.Join("")
	must(err)
	_, _, err = w2.Join("")
	must(err)
	typ, err := w1.AddType("T")
	must(err)
	_, err = w1.Subscribe(typ)
	must(err)
	w1e, err := w1.AddEntity(false, 1)
	must(err)

	o := scen.MustDial(p, "vod")
	defer o.Close()
	o.Timeout = 6 * time.Second
	out.LocalAddr = o.LocalAddr()
	// a pong proves websocket.Handle runs for the offender (gauge settled)
	_, err = o.Barrier()
	must(err)
	var e1id, e2id uint32
	ctx := Ctx{TypeID: typ, Foreign: w1e}
	var host *scen.C // "switched": a member of the session the offender comes from
	if t.Phase == "switched" {
		// the offender was a member of another session before (which stays
		// alive through `host`) and switched to the witness's session
		host = scen.MustDial(p, "vod")
		defer host.Close()
		_, _, err = host.Join("")
		must(err)
		_, _, err = o.Join(host.SID)
		must(err)
		_, err = o.AddEntity(false, 7)
		must(err)
		_, err = host.Barrier()
		must(err)
	}
	if t.Phase == "joined" || t.Phase == "switched" {
		_, _, err = o.Join(w1.SID)
		must(err)
		e1id, err = o.AddEntity(false, 2)
		must(err)
		e2id, err = o.AddEntity(true, 3)
		must(err)
		_, err = o.AddComp(typ, e1id, "c1")
		must(err)
		_, err = o.AddComp(typ, e2id, "c2")
		must(err)
		_, err = o.Action(e1id, "a", 1_700_000_000, "x")
		must(err)
		_, err = o.AddAsset(e1id, "asset")
		must(err)
		ctx.Own, ctx.PID = e1id, o.PID
		_, err = w1.Barrier()
		must(err)
	}
	_ = ctx
	ms, err := p.Metrics()
	must(err)
	gauge0 := ms["ws_connected_clients"]

	// --- the offence
	sendErr := error(nil)
	switch {
	case t.Off.Text != "":
		sendErr = o.SendText(t.Off.Text)
	case t.Off.RawTCP != nil:
		sendErr = o.WriteBytes(t.Off.RawTCP)
	default:
		for _, f := range t.Off.Frames {
			if sendErr = o.SendRaw(f); sendErr != nil {
				break
			}
		}
	}
	switch t.Off.CloseAfter {
	case "fin":
		o.Close()
	case "rst":
		o.Abort()
	}
	joined := t.Phase == "joined" || t.Phase == "switched"
	// deferred updates wait for a frame tick
	if joined && p.Alive() {
		p.WaitTicks(w1.SID, 3, 3*time.Second)
	}
	// --- fate of the offender
	fate := "alive"
	var oWin []*d.Event
	if t.Off.RawTCP != nil {
		// the framing is broken: the harness cannot ping any more; the server
		// must end the connection (or wait for more bytes: then we close)
		w, err := o.WaitFor(func(*d.Event) bool { return false })
		oWin = w
		_ = err
		if !o.IsClosed() {
			o.Close()
		}
		fate = "closed"
	} else {
		for i := 0; i < 41; i++ {
			w, err := o.Barrier()
			oWin = append(oWin, w...)
			if err == d.ErrClosed {
				fate = "closed"
				break
			}
			if err == d.ErrTimeout {
				out.Findings = append(out.Findings, wedgeFinding(p, t, "the offender's connection neither answers nor ends"))
				return
			}
		}
	}
	out.Fate = fate
	_ = sendErr

	if !p.Alive() {
		out.Findings = append(out.Findings, finding(t, "process/exited", "the server process ended: %s\n%s", p.ExitInfo(), p.CrashHead(5000)))
		return
	}
	out.Oracles++ // process alive

	if fate == "closed" {
		ok, err := scen.Departed(p, o, 8*time.Second)
		if err != nil {
			panic(err)
		}
		if !ok {
			out.Findings = append(out.Findings, wedgeFinding(p, t, "websocket.Handle never returned for the offender's connection although the socket was closed"))
			return
		}
	}
	out.Oracles++ // handler returned / still serving

	// --- witness in the same session
	win, err := w1.Barrier()
	if err != nil {
		out.Findings = append(out.Findings, finding(t, "witness/same-session-stalled", "the witness in the offender's session got no pong: %v", err))
		return
	}
	if joined {
		leaves, delE1, delE2 := 0, 0, 0
		for _, e := range win {
			switch m := e.M.(type) {
			case *hagallpb.ParticipantLeaveBroadcast:
				if m.ParticipantId == o.PID {
					leaves++
				}
			case *hagallpb.EntityDeleteBroadcast:
				if m.EntityId == e1id {
					delE1++
				}
				if m.EntityId == e2id {
					delE2++
				}
			}
		}
		if fate == "closed" {
			if leaves != 1 || delE1 != 1 || delE2 != 0 {
				out.Findings = append(out.Findings, finding(t, "departure/not-processed-exactly-once",
					"the offender's connection ended but the witness saw %d leave relays, %d delete relays for its non-persistent entity and %d for its persistent one (want 1, 1, 0); window %v", leaves, delE1, delE2, win))
			}
			snap, err := scen.Probe(p, w1.SID, "vod")
			if err != nil {
				panic(err)
			}
			w1.Barrier() // probe's join and leave relays
			if snap.State != nil {
				for _, pp := range snap.State.Participants {
					if pp.Id == o.PID {
						out.Findings = append(out.Findings, finding(t, "departure/ghost-participant", "participant %d is still in the session after its connection ended", o.PID))
					}
				}
				has2 := false
				for _, en := range snap.State.Entities {
					if en.Id == e1id {
						out.Findings = append(out.Findings, finding(t, "departure/non-persistent-entity-survives", "entity %d of the departed offender is still handed to joiners", e1id))
					}
					if en.Id == e2id {
						has2 = true
					}
				}
				// the offence itself may legitimately have deleted e2 only if it named it; the catalogue never does
				if !has2 {
					out.Findings = append(out.Findings, finding(t, "departure/persistent-entity-lost", "persistent entity %d of the departed offender is gone", e2id))
				}
			}
		} else {
			if leaves != 0 || delE2 != 0 {
				out.Findings = append(out.Findings, finding(t, "departure/spurious", "the offender is still connected but the witness saw %d leave relays / %d deletes of its persistent entity", leaves, delE2))
			}
			// still a working member
			id, err := o.AddEntity(false, 9)
			if err != nil || id == 0 {
				out.Findings = append(out.Findings, finding(t, "offender/half-alive", "the offender's connection answers pings but its entity add failed (id=%d err=%v): neither ended nor a working member", id, err))
			} else {
				win, _ := w1.Barrier()
				seen := 0
				for _, e := range win {
					if m, ok := e.M.(*hagallpb.EntityAddBroadcast); ok && m.Entity != nil && m.Entity.Id == id {
						seen++
					}
				}
				if seen != 1 {
					out.Findings = append(out.Findings, finding(t, "offender/half-alive", "the offender added entity %d but the witness saw %d relays of it", id, seen))
				}
			}
		}
		out.Oracles++
	}

	// --- witness in another session makes progress
	if id, err := w2.AddEntity(false, 4); err != nil || id == 0 {
		out.Findings = append(out.Findings, finding(t, "witness/other-session-affected", "a member of another session could not add an entity after the offence (id=%d err=%v)", id, err))
	}
	out.Oracles++

	// --- gauge
	ms, err = p.Metrics()
	must(err)
	want := gauge0
	if fate == "closed" {
		want--
	}
	if got := ms["ws_connected_clients"]; got != want {
		out.Findings = append(out.Findings, finding(t, "gauge/connected-clients", "ws_connected_clients is %v, expected %v (offender %s)", got, want, fate))
	}
	out.Oracles++

	// the offender leaves for good; the session it came from must not notice
	if host != nil {
		o.Close()
		if ok, _ := scen.Departed(p, o, 8*time.Second); !ok {
			out.Findings = append(out.Findings, wedgeFinding(p, t, "the offender's handler never returned after it closed"))
			return
		}
		p.WaitTicks(host.SID, 3, 3*time.Second)
		if !p.Alive() {
			out.Findings = append(out.Findings, finding(t, "process/exited", "the server process ended after the offender (which had switched sessions) disconnected: %s\n%s", p.ExitInfo(), p.CrashHead(5000)))
			return
		}
		if id, err := host.AddEntity(false, 8); err != nil || id == 0 {
			out.Findings = append(out.Findings, finding(t, "witness/other-session-affected", "a member of the session the offender had left earlier could not add an entity afterwards (id=%d err=%v)", id, err))
		}
		out.Oracles++
	}
	// cleanup; departures must complete so that the next trial starts clean
	all := []*scen.C{o, w1, w2}
	if host != nil {
		all = append(all, host)
	}
	for _, c := range all {
		c.Close()
	}
	for _, c := range all {
		if ok, _ := scen.Departed(p, c, 8*time.Second); !ok {
			out.Findings = append(out.Findings, wedgeFinding(p, t, "a connection closed during cleanup never left websocket.Handle"))
			return
		}
	}
	return
}

func wedgeFinding(p *sut.Proc, t Trial, what string) *check.Finding {
	if !p.Alive() {
		return finding(t, "process/exited", "the server process ended: %s (%s)\n%s", p.ExitInfo(), what, p.CrashHead(5000))
	}
	d1, e1_ := p.Goroutines()
	time.Sleep(500 * time.Millisecond)
	d2, e2_ := p.Goroutines()
	if e1_ == nil && e2_ == nil {
		if stuck := e1.StuckGoroutines(d1, d2); len(stuck) > 0 {
			return finding(t, "liveness/wedged", "%s; goroutines parked in hagall code across two dumps:\n%s", what, strings.Join(stuck, "\n---\n"))
		}
	}
	// three-valued: without a goroutine parked (or spinning) in hagall code across
	// the two dumps there is no witness of a wedge - inconclusive, not a violation
	f := finding(t, "inconclusive", "%s (no hagall goroutine parked or spinning at the same place across two dumps)", what)
	f.Props = nil
	return f
}

// PanicLines extracts "http: panic serving <addr>" records from a SUT log.
func PanicLines(log string) map[string]string {
	out := map[string]string{}
	lines := strings.Split(log, "\n")
	for i, l := range lines {
		if j := strings.Index(l, "http: panic serving "); j >= 0 {
			rest := l[j+len("http: panic serving "):]
			addr, msg, _ := strings.Cut(rest, ": ")
			ctx := msg
			for k := i + 1; k < len(lines) && k < i+14; k++ {
				if strings.Contains(lines[k], "hagall") {
					ctx += "\n" + lines[k]
				}
			}
			out[addr] = ctx
		}
	}
	return out
}

// BurstTrial: a connection that is in no session writes n failing requests
// without reading. Every one of them is a handler error; the connection must
// be ended through the normal path and its handler must return.
func BurstTrial(p *sut.Proc, n int) (f *check.Finding, inconclusive string) {
	t := Trial{Off: Offence{Name: fmt.Sprintf("burst/unjoined-entity-add-x%d", n)}, Phase: "unjoined"}
	defer func() {
		if r := recover(); r != nil {
			if !p.Alive() {
				f = finding(t, "process/exited", "the server process ended: %s\n%s", p.ExitInfo(), p.CrashHead(4000))
				return
			}
			inconclusive = fmt.Sprint(r)
		}
	}()
	o := scen.MustDial(p, "vod")
	defer o.Close()
	o.Timeout = 5 * time.Second
	if _, err := o.Barrier(); err != nil {
		panic(err)
	}
	var buf []byte
	_ = buf
	for i := 0; i < n; i++ {
		if err := o.SendRaw(mustMarshal(&hagallpb.EntityAddRequest{Type: d.TEntityAddReq, Timestamp: now(), RequestId: uint32(1 + i)})); err != nil {
			break
		}
	}
	if _, err := o.WaitClosed(); err != nil {
		// not closed by the server within the bound
		ff := wedgeFinding(p, t, "a burst of failing requests was sent; the server neither closed the connection nor kept serving it")
		ff.Trigger = "burst/unjoined-failing-requests"
		return ff, ""
	}
	ok, err := scen.Departed(p, o, 4*time.Second)
	if err != nil {
		panic(err)
	}
	if !ok {
		ff := wedgeFinding(p, t, "after a burst of failing requests websocket.Handle never returned")
		ff.Trigger = "burst/unjoined-failing-requests"
		return ff, ""
	}
	return nil, ""
}

// FloodTrial: a connection (member of a session when joined) pipelines
// `before` valid requests, one request that ends the connection (an entity add
// while in no session / a frame without timestamp when joined) and `after`
// more valid requests, reading all the while. The receiver goroutine runs
// ahead of the main loop, so the per-connection request queue (256) is full
// when the main loop meets the fatal request and stops consuming. The server
// must close the connection and websocket.Handle must return.
func FloodTrial(p *sut.Proc, before, after int, joined bool) (f *check.Finding, inconclusive string) {
	t := Trial{Off: Offence{Name: fmt.Sprintf("flood/%d-valid-then-fatal-then-%d-valid", before, after)}, Phase: map[bool]string{true: "joined", false: "unjoined"}[joined]}
	defer func() {
		if r := recover(); r != nil {
			if !p.Alive() {
				f = finding(t, "process/exited", "the server process ended: %s\n%s", p.ExitInfo(), p.CrashHead(4000))
				return
			}
			inconclusive = fmt.Sprint(r)
		}
	}()
	o := scen.MustDial(p, "vod")
	defer o.Close()
	o.Timeout = 8 * time.Second
	var mates []*scen.C
	defer func() {
		for _, m := range mates {
			m.Close()
		}
	}()
	if joined {
		if _, _, err := o.Join(""); err != nil {
			panic(err)
		}
		// four more members: every valid request of the flood is a 10 KiB custom
		// message relayed to them, so that the main loop is slower than the receiver
		for i := 0; i < 4; i++ {
			m := scen.MustDial(p, "vod")
			mates = append(mates, m)
			if _, _, err := m.Join(o.SID); err != nil {
				panic(err)
			}
		}
	}
	if _, err := o.Barrier(); err != nil {
		panic(err)
	}
	big := make([]byte, 10000)
	ping := func(i int) []byte {
		if joined {
			return mustMarshal(&hagallpb.CustomMessage{Type: d.TCustom, Timestamp: now(), Body: big})
		}
		return mustMarshal(&hagallpb.Request{Type: hagallpb.MsgType_MSG_TYPE_PING_REQUEST, Timestamp: now(), RequestId: uint32(500000 + i)})
	}
	done := make(chan struct{})
	go func() {
		defer close(done)
		for i := 0; i < before; i++ {
			if o.SendRaw(ping(i)) != nil {
				return
			}
		}
		if joined {
			o.SendRaw(mustMarshal(&hagallpb.Request{Type: hagallpb.MsgType_MSG_TYPE_PING_REQUEST, RequestId: 7})) // no timestamp: protocol error
		} else {
			o.SendRaw(mustMarshal(&hagallpb.EntityAddRequest{Type: d.TEntityAddReq, Timestamp: now(), RequestId: 7}))
		}
		for i := 0; i < after; i++ {
			if o.SendRaw(ping(before+i)) != nil {
				return
			}
		}
	}()
	select {
	case <-done:
	case <-time.After(20 * time.Second):
		// the writer is blocked: the server stopped reading; judged below
	}
	if _, err := o.WaitClosed(); err != nil {
		ff := wedgeFinding(p, t, "a flood of valid requests with one fatal request in the middle was sent; the server did not close the connection")
		ff.Trigger = "flood/fatal-request-behind-a-full-queue"
		return ff, ""
	}
	ok, err := scen.Departed(p, o, 6*time.Second)
	if err != nil {
		panic(err)
	}
	if !ok {
		ff := wedgeFinding(p, t, "after a flood of valid requests with one fatal request in the middle the connection was closed but websocket.Handle never returned")
		ff.Trigger = "flood/fatal-request-behind-a-full-queue"
		return ff, ""
	}
	return nil, ""
}
