package e4

import (
	"fmt"
	"os"
	"sync"
	"time"

	"verif/internal/check"
	"verif/internal/sut"
)

// BatchResult aggregates a batch of trials.
type BatchResult struct {
	Trials        int
	Fates         map[string]int
	Oracles       int
	Findings      []*check.Finding
	Inconclusive  []string
	ReachedHandle int
	Panics        int
	Names         []string
}

// RunBatch runs the trials on `workers` lab SUT processes.
func RunBatch(ws *sut.Workspace, bin string, opts sut.LabOpts, trials []Trial, workers int) *BatchResult {
	res := &BatchResult{Fates: map[string]int{}}
	var mu sync.Mutex
	var wg sync.WaitGroup
	ch := make(chan Trial)
	for w := 0; w < workers; w++ {
		wg.Add(1)
		go func() {
			defer wg.Done()
			var p *sut.Proc
			addrToTrial := map[string]Trial{}
			finish := func() {
				if p == nil {
					return
				}
				if p.Alive() {
					// census: nothing may be left behind
					if dump, err := p.Goroutines(); err == nil {
						if n := sut.CountGoroutines(dump, "websocket.(*handler).Handle"); n != 0 {
							mu.Lock()
							res.Findings = append(res.Findings, &check.Finding{Props: []string{"C08"}, Clause: "liveness/handler-leak", Engine: "E4 fault",
								Detail: fmt.Sprintf("%d connection handlers remain after every connection of the batch ended", n)})
							mu.Unlock()
						}
						if n := sut.CountGoroutines(dump, "StartDispatchFrames"); n != 0 {
							mu.Lock()
							res.Findings = append(res.Findings, &check.Finding{Props: []string{"C08", "C07"}, Clause: "liveness/frame-worker-leak", Engine: "E4 fault",
								Detail: fmt.Sprintf("%d frame workers remain after every session of the batch ended", n)})
							mu.Unlock()
						}
					}
				}
				b, _ := os.ReadFile(p.LogPath)
				for addr, msg := range PanicLines(string(b)) {
					t, ok := addrToTrial[addr]
					name := "?"
					if ok {
						name = t.Name()
					}
					f := finding(t, "handler/panic", "the connection handler panicked (recovered by net/http: the normal disconnect path is skipped): %s", msg)
					f.Trigger = name
					mu.Lock()
					res.Panics++
					res.Findings = append(res.Findings, f)
					mu.Unlock()
				}
				p.Kill()
				p = nil
				addrToTrial = map[string]Trial{}
			}
			defer finish()
			for t := range ch {
				if p == nil || !p.Alive() {
					finish()
					var err error
					p, err = ws.StartLab(bin, opts)
					if err != nil {
						mu.Lock()
						res.Inconclusive = append(res.Inconclusive, "SUT start: "+err.Error())
						mu.Unlock()
						continue
					}
				}
				t0 := time.Now()
				out := RunTrial(p, t)
				if os.Getenv("VERIF_DEBUG") != "" {
					fmt.Fprintf(os.Stderr, "trial %-45s %-7s %6.0fms findings=%d %s\n", t.Name(), out.Fate, time.Since(t0).Seconds()*1000, len(out.Findings), out.Inconclusive)
				}
				addrToTrial[out.LocalAddr] = t
				mu.Lock()
				res.Trials++
				res.Fates[out.Fate]++
				res.Oracles += out.Oracles
				res.Findings = append(res.Findings, out.Findings...)
				if out.Inconclusive != "" {
					res.Inconclusive = append(res.Inconclusive, t.Name()+": "+out.Inconclusive)
				}
				if t.Off.ReachesHandler {
					res.ReachedHandle++
				}
				if len(res.Names) < 4000 {
					res.Names = append(res.Names, out.Name+" -> "+out.Fate)
				}
				mu.Unlock()
				if len(out.Findings) > 0 || out.Inconclusive != "" {
					finish() // do not reuse a process in an unknown state
				}
			}
		}()
	}
	for _, t := range trials {
		ch <- t
	}
	close(ch)
	wg.Wait()
	return res
}
