package e4

import (
	"fmt"
	"sync"
	"time"

	"github.com/aukilabs/hagall-common/messages/hagallpb"

	"verif/internal/check"
	d "verif/internal/driver"
	"verif/internal/scen"
	"verif/internal/sut"
)

// BigSessionOutcome of one trial.
type BigSessionOutcome struct {
	Findings     []*check.Finding
	Inconclusive string
	Members      int
	Desc         string
	Checked      map[string]int // message class -> recipients checked
}

// BigSessionTrial: one session with n members (more than any queue length or
// batch size in the server: 128, 256, 512), all of them subscribed to one
// component type. One member then causes one message of every class; every
// other member must have it exactly once, an addressed message reaches
// exactly its addressees, and a newcomer is handed all n participants.
func BigSessionTrial(p *sut.Proc, n int) (out *BigSessionOutcome) {
	out = &BigSessionOutcome{Members: n, Checked: map[string]int{}, Desc: fmt.Sprintf("big session: %d members, all subscribed to one component type", n)}
	bf := func(props []string, clause, format string, a ...any) *check.Finding {
		return &check.Finding{Props: props, Clause: clause, Trigger: fmt.Sprintf("big-session/%d", n), Detail: out.Desc + ": " + fmt.Sprintf(format, a...), Engine: "E4 big session"}
	}
	defer func() {
		if r := recover(); r != nil {
			if !p.Alive() {
				out.Findings = append(out.Findings, bf([]string{"C08", "C09"}, "process/exited", "the server process ended: %s\n%s", p.ExitInfo(), p.CrashHead(4000)))
				return
			}
			out.Inconclusive = fmt.Sprint("big session trial: ", r)
		}
	}()
	must := func(err error) {
		if err != nil {
			panic(err)
		}
	}
	m := scen.MustDial(p, "")
	defer m.Close()
	m.Timeout = 60 * time.Second
	_, _, err := m.Join("")
	must(err)
	t, err := m.AddType("big-type")
	must(err)
	e, err := m.AddEntity(true, 1)
	must(err)
	members := make([]*scen.C, n-1)
	var mu sync.Mutex
	var firstErr error
	var wg sync.WaitGroup
	sem := make(chan struct{}, 16)
	for i := range members {
		wg.Add(1)
		sem <- struct{}{}
		go func(i int) {
			defer wg.Done()
			defer func() { <-sem }()
			defer func() {
				if r := recover(); r != nil {
					mu.Lock()
					if firstErr == nil {
						firstErr = fmt.Errorf("member %d: %v", i, r)
					}
					mu.Unlock()
				}
			}()
			c := scen.MustDial(p, "")
			c.Timeout = 60 * time.Second
			members[i] = c
			jr, _, err := c.Join(m.SID)
			if err != nil || jr == nil {
				panic(fmt.Sprint("join: ", err))
			}
			a, err := c.Subscribe(t)
			if err != nil || a == nil || a.Type != d.TSubResp {
				panic(fmt.Sprint("subscribe: ", a, err))
			}
		}(i)
	}
	wg.Wait()
	defer func() {
		for _, c := range members {
			if c != nil {
				c.Close()
			}
		}
	}()
	must(firstErr)
	barrier := func() {
		_, err := m.Barrier()
		must(err)
		for _, c := range members {
			if _, err := c.Barrier(); err != nil {
				panic(fmt.Errorf("barrier of participant %d: %w", c.PID, err))
			}
		}
	}
	barrier()
	mark := make([]int, len(members))
	for i, c := range members {
		mark[i] = len(c.LogCopy())
	}
	// one message of every class
	a, err := m.AddComp(t, e, "big-c0")
	must(err)
	if a == nil || a.Type != d.TCompAddResp {
		panic(fmt.Sprint("component add refused: ", a))
	}
	must(m.UpdateComp(t, e, "big-c1"))
	poseTag, err := m.Pose(e, 4711)
	must(err)
	must(m.Custom([]byte("big-broadcast")))
	var everybody, half []uint32
	for i, c := range members {
		everybody = append(everybody, c.PID)
		if i%2 == 0 {
			half = append(half, c.PID)
		}
	}
	must(m.Custom([]byte("big-to-everybody"), everybody...))
	must(m.Custom([]byte("big-to-every-second"), half...))
	e2, err := m.AddEntity(false, 2)
	must(err)
	barrier()
	if ok, reason, err := p.WaitTicks(m.SID, 4, 20*time.Second); err != nil || !ok {
		out.Inconclusive = fmt.Sprintf("big session: frame barrier failed: %s %v", reason, err)
		return
	}
	barrier()
	// a newcomer, and a departure
	nc := scen.MustDial(p, "")
	defer nc.Close()
	nc.Timeout = 60 * time.Second
	jr, _, err := nc.Join(m.SID)
	must(err)
	if jr == nil {
		panic("the newcomer's join was refused")
	}
	var state *hagallpb.SessionState
	for _, ev := range nc.Extra {
		if s, ok := ev.M.(*hagallpb.SessionState); ok {
			state = s
		}
	}
	leaver := members[len(members)-1]
	leaverPID := leaver.PID
	leaver.Close()
	if ok, _ := scen.Departed(p, leaver, 20*time.Second); !ok {
		panic("the leaver's handler did not return")
	}
	members = members[:len(members)-1]
	barrier()
	if state == nil || len(state.Participants) != n+1 {
		got := -1
		if state != nil {
			got = len(state.Participants)
		}
		out.Findings = append(out.Findings, bf([]string{"C01", "C07"}, "join/handed-state", "a newcomer of a session with %d members is handed %d participants (want %d, itself included)", n, got, n+1))
	}
	type want struct {
		class string
		props []string
		n     func(i int) int
	}
	count := func(c *scen.C, from int) map[string]int {
		k := map[string]int{}
		for _, ev := range c.LogCopy()[from:] {
			switch x := ev.M.(type) {
			case *hagallpb.EntityComponentAddBroadcast:
				if string(x.EntityComponent.GetData()) == "big-c0" {
					k["component add"]++
				}
			case *hagallpb.EntityComponentUpdateBroadcast:
				if string(x.EntityComponent.GetData()) == "big-c1" {
					k["component update"]++
				}
			case *hagallpb.EntityUpdatePoseBroadcast:
				if d.TagID(x.OriginTimestamp) == d.TagID(poseTag) {
					k["pose"]++
				}
			case *hagallpb.CustomMessageBroadcast:
				k["custom "+string(x.Body)]++
			case *hagallpb.EntityAddBroadcast:
				if x.Entity.GetId() == e2 {
					k["entity add"]++
				}
			case *hagallpb.ParticipantJoinBroadcast:
				if x.ParticipantId == nc.PID {
					k["join"]++
				}
			case *hagallpb.ParticipantLeaveBroadcast:
				if x.ParticipantId == leaverPID {
					k["leave"]++
				}
			}
		}
		return k
	}
	one := func(int) int { return 1 }
	wants := []want{
		{"component add", []string{"C13", "C02", "C01"}, one}, {"component update", []string{"C13", "C01"}, one}, {"pose", []string{"C11", "C02"}, one},
		{"custom big-broadcast", []string{"C14", "C02"}, one}, {"custom big-to-everybody", []string{"C14"}, one},
		{"custom big-to-every-second", []string{"C14"}, func(i int) int { return 1 - i%2 }},
		{"entity add", []string{"C02", "C01"}, one}, {"join", []string{"C02", "C01"}, one}, {"leave", []string{"C02", "C06"}, one},
	}
	bad := map[string][]string{}
	for i, c := range members {
		k := count(c, mark[i])
		for _, w := range wants {
			out.Checked[w.class]++
			if k[w.class] != w.n(i) {
				bad[w.class] = append(bad[w.class], fmt.Sprintf("participant %d got %d (want %d)", c.PID, k[w.class], w.n(i)))
			}
		}
	}
	for _, w := range wants {
		if l := bad[w.class]; len(l) > 0 {
			show := l
			if len(show) > 6 {
				show = show[:6]
			}
			out.Findings = append(out.Findings, bf(w.props, "relay/not-exactly-once", "%d of the %d other members did not receive the %s message exactly as often as they must: %v ...", len(l), len(members), w.class, show))
		}
	}
	return
}
