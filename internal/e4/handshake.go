package e4

import (
	"encoding/base64"
	"fmt"
	"strings"
	"time"

	"github.com/aukilabs/hagall-common/messages/hagallpb"

	"verif/internal/check"
	"verif/internal/scen"
	"verif/internal/sut"
)

// HandshakeVariant is one set of handshake headers.
type HandshakeVariant struct {
	Name   string
	Header map[string]string
}

// HandshakeVariants: whatever a client may put into the upgrade request next
// to what the server expects - credentials of other schemes, byte strings that
// are not text, very long values, the header names a proxy or CDN adds.
func HandshakeVariants() []HandshakeVariant {
	b64 := func(s string) string { return base64.StdEncoding.EncodeToString([]byte(s)) }
	long := strings.Repeat("k", 6000)
	return []HandshakeVariant{
		{"basic/plain", map[string]string{"Authorization": "Basic " + b64("app-key:secret")}},
		{"basic/not-utf8-user", map[string]string{"Authorization": "Basic " + b64("\xff\xfe\xfd:secret")}},
		{"basic/not-utf8-password", map[string]string{"Authorization": "Basic " + b64("app:\xff\xfe")}},
		{"basic/empty-user", map[string]string{"Authorization": "Basic " + b64(":secret")}},
		{"basic/long-user", map[string]string{"Authorization": "Basic " + b64(long+":x")}},
		{"basic/not-base64", map[string]string{"Authorization": "Basic !!!not-base64!!!"}},
		{"basic/newline-user", map[string]string{"Authorization": "Basic " + b64("a\nb{}\"=,:x")}},
		{"bearer/garbage", map[string]string{"Authorization": "Bearer \xff\xfe.garbage.token"}},
		{"digest", map[string]string{"Authorization": "Digest username=\"x\", realm=\"y\""}},
		{"client-id/not-utf8", map[string]string{"posemesh-client-id": "\xff\xfe\xfd"}},
		{"client-id/long", map[string]string{"posemesh-client-id": long}},
		{"client-id/empty", map[string]string{"posemesh-client-id": ""}},
		{"client-id/quotes-braces", map[string]string{"posemesh-client-id": "a\"b{c}=d,e\\"}},
		{"cdn/not-utf8", map[string]string{"CloudFront-Viewer-Country": "\xff\xfe", "CloudFront-Viewer-Address": "\xff:1", "X-Forwarded-For": "\xfe"}},
		{"cdn/long", map[string]string{"X-Forwarded-For": long, "CloudFront-Viewer-Country": long}},
		{"cookie/odd", map[string]string{"Cookie": "access_token=\xff\xfe; other=" + long[:3000]}},
		{"app-key-headers", map[string]string{"X-App-Key": "\xff\xfe", "App-Key": "\xff", "X-Api-Key": "\xfe\xff"}},
	}
}

// HandshakeOutcome of one trial.
type HandshakeOutcome struct {
	Findings     []*check.Finding
	Inconclusive string
	Refused      bool // the server refused the upgrade (nothing else to judge)
	Desc         string
}

// HandshakeTrial: a client whose upgrade request carries the variant's headers
// joins a witness's session, adds an entity, moves it, switches to a session
// of its own, adds an entity and a component type there, and closes. Whatever
// the headers are, either the upgrade is refused or everything is answered,
// the departure goes the normal way, the gauges return and the witness is
// served (C08).
func HandshakeTrial(p *sut.Proc, v HandshakeVariant) (out *HandshakeOutcome) {
	out = &HandshakeOutcome{Desc: "handshake headers " + v.Name}
	hf := func(clause, format string, a ...any) *check.Finding {
		return &check.Finding{Props: []string{"C08"}, Clause: clause, Trigger: "handshake/" + v.Name, Detail: out.Desc + ": " + fmt.Sprintf(format, a...), Engine: "E4 handshake headers"}
	}
	defer func() {
		if r := recover(); r != nil {
			if !p.Alive() {
				out.Findings = append(out.Findings, hf("process/exited", "the server process ended: %s\n%s", p.ExitInfo(), p.CrashHead(4000)))
				return
			}
			out.Inconclusive = fmt.Sprint("handshake trial ", v.Name, ": ", r)
		}
	}()
	must := func(err error) {
		if err != nil {
			panic(err)
		}
	}
	ms0, err := p.Metrics()
	must(err)
	w := scen.MustDial(p, "vod")
	defer func() {
		// the next trial on this server starts from settled gauges
		w.Close()
		scen.Departed(p, w, 10*time.Second)
		for k := 0; k < 300; k++ {
			ms, err := p.Metrics()
			if err != nil || (ms["ws_connected_clients"] == ms0["ws_connected_clients"] && ms["session_count"] == ms0["session_count"]) {
				break
			}
			time.Sleep(10 * time.Millisecond)
		}
	}()
	_, _, err = w.Join("")
	must(err)
	x, err := scen.DialHeaders(p, "vod", v.Header)
	if err != nil {
		out.Refused = true
		return
	}
	defer x.Close()
	x.Timeout = 6 * time.Second
	step := func(what string, err error, ok bool) bool {
		if err != nil || !ok {
			t := Trial{Off: Offence{Name: "handshake/" + v.Name}, Phase: what}
			f := wedgeFinding(p, t, fmt.Sprintf("%s: %s was not answered with success (%v)", out.Desc, what, err))
			f.Trigger = "handshake/" + v.Name
			f.Clause = "request/unanswered-after-odd-handshake"
			f.Props = []string{"C08", "C04"}
			out.Findings = append(out.Findings, f)
			return false
		}
		return true
	}
	jr, _, err := x.Join(w.SID)
	if !step("the join of an existing session", err, jr != nil) {
		return
	}
	e, err := x.AddEntity(false, 3)
	if !step("an entity add", err, e != 0) {
		return
	}
	_, err = x.Pose(e, 9)
	must(err)
	jr, _, err = x.Join("")
	if !step("the creation of a session", err, jr != nil) {
		return
	}
	e, err = x.AddEntity(true, 4)
	if !step("an entity add in the new session", err, e != 0) {
		return
	}
	t, err := x.AddType("hs-type")
	if !step("a type registration", err, t != 0) {
		return
	}
	_, err = x.Pose(e, 10)
	must(err)
	if _, err := x.Barrier(); !step("a ping", err, true) {
		return
	}
	x.Close()
	if _, odd := v.Header["posemesh-client-id"]; odd {
		// (the lab's departure barrier finds a connection by its client id; here
		// the gauges and the witness's leave relay decide, with a bounded wait)
		for k := 0; k < 500; k++ {
			ms, err := p.Metrics()
			must(err)
			if ms["ws_connected_clients"] == ms0["ws_connected_clients"]+1 {
				break
			}
			time.Sleep(10 * time.Millisecond)
		}
	} else if ok, _ := scen.Departed(p, x, 10*time.Second); !ok {
		f := wedgeFinding(p, Trial{Off: Offence{Name: "handshake/" + v.Name}, Phase: "close"}, out.Desc+": the connection's handler never returned after the close")
		f.Trigger = "handshake/" + v.Name
		out.Findings = append(out.Findings, f)
		return
	}
	time.Sleep(30 * time.Millisecond) // a few frames of both sessions
	if id, err := w.AddEntity(false, 5); err != nil || id == 0 {
		out.Findings = append(out.Findings, hf("witness/not-served", "the witness cannot add an entity afterwards (%v)", err))
		return
	}
	joins, leaves := 0, 0
	for _, ev := range w.LogCopy() {
		switch ev.M.(type) {
		case *hagallpb.ParticipantJoinBroadcast:
			joins++
		case *hagallpb.ParticipantLeaveBroadcast:
			leaves++
		}
	}
	if joins != 1 || leaves != 1 {
		out.Findings = append(out.Findings, hf("departure/not-processed-exactly-once", "the witness saw %d join and %d leave relays of the client (want 1 and 1)", joins, leaves))
	}
	ms1, err := p.Metrics()
	must(err)
	want := func(m map[string]float64) bool {
		return m["session_count"] == ms0["session_count"]+1 && m["ws_connected_clients"] == ms0["ws_connected_clients"]+1
	}
	for k := 0; k < 300 && !want(ms1); k++ {
		time.Sleep(10 * time.Millisecond)
		ms1, err = p.Metrics()
		must(err)
	}
	if !want(ms1) {
		out.Findings = append(out.Findings, hf("gauges/not-restored", "session gauge %v -> %v (want +1, the witness's), connected clients %v -> %v (want +1)", ms0["session_count"], ms1["session_count"], ms0["ws_connected_clients"], ms1["ws_connected_clients"]))
	}
	return
}
