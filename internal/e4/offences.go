// Package e4 is the fault engine: hostile inputs, bursts, stalls and closes
// against a child SUT, judged by liveness oracles (process alive, offender
// ended through the normal path exactly once or still a working member,
// witnesses unaffected, gauges and goroutines back to their previous values).
package e4

import (
	"fmt"
	"math"
	"math/rand"

	"github.com/aukilabs/hagall-common/messages/dagazpb"
	"github.com/aukilabs/hagall-common/messages/hagallpb"
	"github.com/aukilabs/hagall-common/messages/odalpb"
	"github.com/aukilabs/hagall-common/messages/vikjapb"
	"google.golang.org/protobuf/proto"
	"google.golang.org/protobuf/types/known/timestamppb"

	d "verif/internal/driver"
)

// Offence is one hostile behaviour of the offending connection.
type Offence struct {
	Name string
	// Frames are sent as binary frames, in order, without reading in between.
	Frames [][]byte
	Text   string // if set, one text frame is sent instead
	RawTCP []byte // if set, written to the TCP connection as is (malformed WebSocket framing)
	// Reaches handler code (is not rejected at the frame level).
	ReachesHandler bool
	// CloseAfter: the client closes its connection right after writing the
	// frames ("fin" or "rst"), without waiting for anything.
	CloseAfter string
}

func now() *timestamppb.Timestamp { return d.NewTag() }

func mustMarshal(m proto.Message) []byte {
	b, err := proto.Marshal(m)
	if err != nil {
		panic(err)
	}
	return b
}

var specialFloats = []float32{float32(math.NaN()), float32(math.Inf(1)), float32(math.Inf(-1)), math.MaxFloat32, -math.MaxFloat32,
	math.SmallestNonzeroFloat32, float32(math.Copysign(0, -1)), 1e30, -1e30, 1e9, 65536.5, -65536.5}

func pt(x, y, z float32) *dagazpb.Point { return &dagazpb.Point{X: x, Y: y, Z: z} }

// Ctx gives the offence generator the ids that exist for the offender.
type Ctx struct {
	Own, Foreign uint32 // entity ids (0 when none)
	TypeID       uint32
	PID          uint32
}

// Structural returns every structurally valid message the catalogue knows with
// an optional field absent or a scalar at a boundary value.
func Structural(c Ctx, big bool) []Offence {
	var out []Offence
	add := func(name string, m proto.Message) {
		out = append(out, Offence{Name: name, Frames: [][]byte{mustMarshal(m)}, ReachesHandler: true})
	}
	rid := uint32(777000)
	id := func() uint32 { rid++; return rid }
	bigN := 1 << 20
	if !big {
		bigN = 70000
	}
	bigS := string(make([]byte, bigN))
	bigB := make([]byte, bigN)

	// --- core
	add("pose/no-pose", &hagallpb.EntityUpdatePose{Type: d.TPoseUpdate, Timestamp: now(), EntityId: c.Own})
	add("pose/no-pose-foreign", &hagallpb.EntityUpdatePose{Type: d.TPoseUpdate, Timestamp: now(), EntityId: c.Foreign})
	add("pose/no-pose-unknown", &hagallpb.EntityUpdatePose{Type: d.TPoseUpdate, Timestamp: now(), EntityId: 987654})
	for i, f := range specialFloats {
		add(fmt.Sprintf("pose/special-float-%d", i), &hagallpb.EntityUpdatePose{Type: d.TPoseUpdate, Timestamp: now(), EntityId: c.Own, Pose: &hagallpb.Pose{Px: f, Py: f, Pz: f, Rx: f, Ry: f, Rz: f, Rw: f}})
	}
	add("entity_add/no-pose", &hagallpb.EntityAddRequest{Type: d.TEntityAddReq, Timestamp: now(), RequestId: id()})
	add("entity_add/nan-pose", &hagallpb.EntityAddRequest{Type: d.TEntityAddReq, Timestamp: now(), RequestId: id(), Pose: &hagallpb.Pose{Px: specialFloats[0], Rw: specialFloats[1]}})
	add("entity_add/flag-out-of-range", &hagallpb.EntityAddRequest{Type: d.TEntityAddReq, Timestamp: now(), RequestId: id(), Flag: hagallpb.EntityFlag(math.MaxInt32)})
	for _, e := range []uint32{0, 1, math.MaxUint32} {
		add(fmt.Sprintf("entity_del/%d", e), &hagallpb.EntityDeleteRequest{Type: d.TEntityDelReq, Timestamp: now(), RequestId: id(), EntityId: e})
	}
	add("join/huge-session-id", &hagallpb.ParticipantJoinRequest{Type: d.TJoinReq, Timestamp: now(), RequestId: id(), SessionId: bigS})
	add("join/request-id-zero", &hagallpb.ParticipantJoinRequest{Type: d.TJoinReq, Timestamp: now(), SessionId: "nope"})
	add("custom/huge-body", &hagallpb.CustomMessage{Type: d.TCustom, Timestamp: now(), Body: bigB})
	ids := make([]uint32, 1000)
	for i := range ids {
		ids[i] = uint32(i % 7)
	}
	add("custom/1000-recipients", &hagallpb.CustomMessage{Type: d.TCustom, Timestamp: now(), ParticipantIds: ids, Body: []byte("x")})
	add("type_add/huge-name", &hagallpb.EntityComponentTypeAddRequest{Type: d.TTypeAddReq, Timestamp: now(), RequestId: id(), EntityComponentTypeName: bigS})
	add("type_add/empty", &hagallpb.EntityComponentTypeAddRequest{Type: d.TTypeAddReq, Timestamp: now(), RequestId: id()})
	add("get_name/max", &hagallpb.EntityComponentTypeGetNameRequest{Type: d.TGetNameReq, Timestamp: now(), RequestId: id(), EntityComponentTypeId: math.MaxUint32})
	add("get_id/huge", &hagallpb.EntityComponentTypeGetIdRequest{Type: d.TGetIDReq, Timestamp: now(), RequestId: id(), EntityComponentTypeName: bigS})
	for _, t := range []uint32{0, c.TypeID, math.MaxUint32} {
		for _, e := range []uint32{0, c.Own, math.MaxUint32} {
			add(fmt.Sprintf("comp_add/%d-%d", t, e), &hagallpb.EntityComponentAddRequest{Type: d.TCompAddReq, Timestamp: now(), RequestId: id(), EntityComponentTypeId: t, EntityId: e, Data: []byte("z")})
			add(fmt.Sprintf("comp_upd/%d-%d", t, e), &hagallpb.EntityComponentUpdate{Type: d.TCompUpdate, Timestamp: now(), EntityComponentTypeId: t, EntityId: e, Data: []byte("z")})
			add(fmt.Sprintf("comp_del/%d-%d", t, e), &hagallpb.EntityComponentDeleteRequest{Type: d.TCompDelReq, Timestamp: now(), RequestId: id(), EntityComponentTypeId: t, EntityId: e})
		}
		add(fmt.Sprintf("comp_list/%d", t), &hagallpb.EntityComponentListRequest{Type: d.TCompListReq, Timestamp: now(), RequestId: id(), EntityComponentTypeId: t})
		add(fmt.Sprintf("sub/%d", t), &hagallpb.EntityComponentTypeSubscribeRequest{Type: d.TSubReq, Timestamp: now(), RequestId: id(), EntityComponentTypeId: t})
		add(fmt.Sprintf("unsub/%d", t), &hagallpb.EntityComponentTypeUnsubscribeRequest{Type: d.TUnsubReq, Timestamp: now(), RequestId: id(), EntityComponentTypeId: t})
	}
	add("comp_add/huge-data", &hagallpb.EntityComponentAddRequest{Type: d.TCompAddReq, Timestamp: now(), RequestId: id(), EntityComponentTypeId: c.TypeID, EntityId: c.Own, Data: bigB})
	add("pong/unknown-id", &hagallpb.Response{Type: d.TPingResp, Timestamp: now(), RequestId: 12345})
	for _, n := range []uint32{0, 2, 3, 50, 51, math.MaxUint32} {
		add(fmt.Sprintf("signed_latency/%d", n), &hagallpb.SignedLatencyRequest{Type: d.TSignedLatReq, Timestamp: now(), RequestId: id(), IterationCount: n, WalletAddress: "0xabc"})
	}
	add("signed_latency/huge-wallet", &hagallpb.SignedLatencyRequest{Type: d.TSignedLatReq, Timestamp: now(), RequestId: id(), IterationCount: 3, WalletAddress: bigS})
	add("receipt/empty", &hagallpb.ReceiptRequest{Type: d.TReceiptReq, Timestamp: now(), RequestId: id()})
	add("receipt/huge", &hagallpb.ReceiptRequest{Type: d.TReceiptReq, Timestamp: now(), RequestId: id(), Receipt: bigS, Hash: bigB[:32], Signature: bigB[:65]})
	add("receipt/short-sig", &hagallpb.ReceiptRequest{Type: d.TReceiptReq, Timestamp: now(), RequestId: id(), Receipt: "r", Hash: []byte{1}, Signature: []byte{2}})

	// --- vikja
	add("action/nil", &vikjapb.EntityActionRequest{Type: d.TActionReq, Timestamp: now(), RequestId: id()})
	add("action/no-ts", &vikjapb.EntityActionRequest{Type: d.TActionReq, Timestamp: now(), RequestId: id(), EntityAction: &vikjapb.EntityAction{EntityId: c.Own, Name: "n"}})
	add("action/no-name", &vikjapb.EntityActionRequest{Type: d.TActionReq, Timestamp: now(), RequestId: id(), EntityAction: &vikjapb.EntityAction{EntityId: c.Own, Timestamp: now()}})
	add("action/invalid-ts", &vikjapb.EntityActionRequest{Type: d.TActionReq, Timestamp: now(), RequestId: id(), EntityAction: &vikjapb.EntityAction{EntityId: c.Own, Name: "n", Timestamp: &timestamppb.Timestamp{Seconds: math.MaxInt64, Nanos: math.MaxInt32}}})
	add("action/negative-ts", &vikjapb.EntityActionRequest{Type: d.TActionReq, Timestamp: now(), RequestId: id(), EntityAction: &vikjapb.EntityAction{EntityId: c.Own, Name: "n", Timestamp: &timestamppb.Timestamp{Seconds: math.MinInt64, Nanos: -5}}})
	add("action/huge-data", &vikjapb.EntityActionRequest{Type: d.TActionReq, Timestamp: now(), RequestId: id(), EntityAction: &vikjapb.EntityAction{EntityId: c.Own, Name: bigS[:1000], Timestamp: now(), Data: bigB}})
	// --- odal
	add("asset/empty", &odalpb.AssetInstanceAddRequest{Type: d.TAssetAddReq, Timestamp: now(), RequestId: id(), EntityId: c.Own})
	add("asset/huge", &odalpb.AssetInstanceAddRequest{Type: d.TAssetAddReq, Timestamp: now(), RequestId: id(), EntityId: c.Own, AssetId: bigS})
	add("asset/unknown-entity", &odalpb.AssetInstanceAddRequest{Type: d.TAssetAddReq, Timestamp: now(), RequestId: id(), EntityId: math.MaxUint32, AssetId: "a"})
	// --- dagaz
	add("quad/empty-sample-list", &dagazpb.DagazQuadSample{Type: d.TQuadSample, Timestamp: now()})
	add("quad/no-points", &dagazpb.DagazQuadSample{Type: d.TQuadSample, Timestamp: now(), Samples: []*dagazpb.Quad{{}}})
	add("quad/no-center", &dagazpb.DagazQuadSample{Type: d.TQuadSample, Timestamp: now(), Samples: []*dagazpb.Quad{{Extents: pt(1, 0, 1)}}})
	add("quad/no-extents", &dagazpb.DagazQuadSample{Type: d.TQuadSample, Timestamp: now(), Samples: []*dagazpb.Quad{{Center: pt(1, 0, 1)}}})
	add("quad/zero-extents", &dagazpb.DagazQuadSample{Type: d.TQuadSample, Timestamp: now(), Samples: []*dagazpb.Quad{{Center: pt(1, 0, 1), Extents: pt(0, 0, 0)}}})
	add("quad/negative-extents", &dagazpb.DagazQuadSample{Type: d.TQuadSample, Timestamp: now(), Samples: []*dagazpb.Quad{{Center: pt(1, 0, 1), Extents: pt(-1, 0, -1)}}})
	for i, f := range specialFloats {
		add(fmt.Sprintf("quad/special-center-%d", i), &dagazpb.DagazQuadSample{Type: d.TQuadSample, Timestamp: now(), Samples: []*dagazpb.Quad{{Center: pt(f, 0, 1), Extents: pt(1, 0, 1)}}})
		add(fmt.Sprintf("quad/special-centerz-%d", i), &dagazpb.DagazQuadSample{Type: d.TQuadSample, Timestamp: now(), Samples: []*dagazpb.Quad{{Center: pt(1, f, f), Extents: pt(1, 0, 1)}}})
		add(fmt.Sprintf("quad/special-extents-%d", i), &dagazpb.DagazQuadSample{Type: d.TQuadSample, Timestamp: now(), Samples: []*dagazpb.Quad{{Center: pt(1, 0, 1), Extents: pt(f, 0, f)}}})
		add(fmt.Sprintf("ray/special-%d", i), &dagazpb.DagazGetGroundPlaneRequest{Type: d.TGroundPlaneReq, Timestamp: now(), RequestId: id(), Ray: &dagazpb.Ray{From: pt(f, 1, 0), To: pt(0, -1, f)}})
		add(fmt.Sprintf("region/special-%d", i), &dagazpb.DagazGetRegionRequest{Type: d.TRegionReq, Timestamp: now(), RequestId: id(), Min: pt(f, 0, -1), Max: pt(1, 0, f)})
	}
	add("ray/none", &dagazpb.DagazGetGroundPlaneRequest{Type: d.TGroundPlaneReq, Timestamp: now(), RequestId: id()})
	add("ray/no-from", &dagazpb.DagazGetGroundPlaneRequest{Type: d.TGroundPlaneReq, Timestamp: now(), RequestId: id(), Ray: &dagazpb.Ray{To: pt(0, -1, 0)}})
	add("ray/no-to", &dagazpb.DagazGetGroundPlaneRequest{Type: d.TGroundPlaneReq, Timestamp: now(), RequestId: id(), Ray: &dagazpb.Ray{From: pt(0, 1, 0)}})
	add("ray/vertical", &dagazpb.DagazGetGroundPlaneRequest{Type: d.TGroundPlaneReq, Timestamp: now(), RequestId: id(), Ray: &dagazpb.Ray{From: pt(0.5, 1, 0.5), To: pt(0.5, -1, 0.5)}})
	add("ray/diagonal", &dagazpb.DagazGetGroundPlaneRequest{Type: d.TGroundPlaneReq, Timestamp: now(), RequestId: id(), Ray: &dagazpb.Ray{From: pt(0.5, 1, 0.5), To: pt(5.5, -1, 7.5)}})
	add("ray/diagonal-outside", &dagazpb.DagazGetGroundPlaneRequest{Type: d.TGroundPlaneReq, Timestamp: now(), RequestId: id(), Ray: &dagazpb.Ray{From: pt(-50, 1, -60), To: pt(55, -1, 75)}})
	add("ray/horizontal-x", &dagazpb.DagazGetGroundPlaneRequest{Type: d.TGroundPlaneReq, Timestamp: now(), RequestId: id(), Ray: &dagazpb.Ray{From: pt(-3, 0, 0.5), To: pt(9, 0, 0.5)}})
	add("ray/horizontal-z", &dagazpb.DagazGetGroundPlaneRequest{Type: d.TGroundPlaneReq, Timestamp: now(), RequestId: id(), Ray: &dagazpb.Ray{From: pt(0.5, 0, -3), To: pt(0.5, 0, 9)}})
	add("region/none", &dagazpb.DagazGetRegionRequest{Type: d.TRegionReq, Timestamp: now(), RequestId: id()})
	add("region/no-min", &dagazpb.DagazGetRegionRequest{Type: d.TRegionReq, Timestamp: now(), RequestId: id(), Max: pt(1, 0, 1)})
	add("region/no-max", &dagazpb.DagazGetRegionRequest{Type: d.TRegionReq, Timestamp: now(), RequestId: id(), Min: pt(1, 0, 1)})
	add("region/inverted", &dagazpb.DagazGetRegionRequest{Type: d.TRegionReq, Timestamp: now(), RequestId: id(), Min: pt(5, 0, 5), Max: pt(-5, 0, -5)})
	add("region/outside", &dagazpb.DagazGetRegionRequest{Type: d.TRegionReq, Timestamp: now(), RequestId: id(), Min: pt(500, 0, 500), Max: pt(600, 0, 600)})
	add("region/whole", &dagazpb.DagazGetRegionRequest{Type: d.TRegionReq, Timestamp: now(), RequestId: id(), Min: pt(-100, 0, -100), Max: pt(100, 0, 100)})
	add("debug_info", &dagazpb.DagazGetDebugInfoRequest{Type: d.TDebugInfoReq, Timestamp: now(), RequestId: id()})
	add("debug_info/request-id-zero", &dagazpb.DagazGetDebugInfoRequest{Type: d.TDebugInfoReq, Timestamp: now()})
	// --- type / body mismatches: a header type with the body of another message
	add("mismatch/pose-type-custom-body", &hagallpb.CustomMessage{Type: d.TPoseUpdate, Timestamp: now(), ParticipantIds: []uint32{1, 2}, Body: []byte("abc")})
	add("mismatch/join-type-state-body", &hagallpb.SessionState{Type: d.TJoinReq, Timestamp: now(), Participants: []*hagallpb.Participant{{Id: 1}}})
	add("mismatch/quad-type-request-body", &hagallpb.Request{Type: hagallpb.MsgType(d.TQuadSample), Timestamp: now(), RequestId: 5})
	add("mismatch/ray-type-request-body", &hagallpb.Request{Type: hagallpb.MsgType(d.TGroundPlaneReq), Timestamp: now(), RequestId: 5})
	add("mismatch/region-type-request-body", &hagallpb.Request{Type: hagallpb.MsgType(d.TRegionReq), Timestamp: now(), RequestId: 5})
	add("mismatch/action-type-request-body", &hagallpb.Request{Type: hagallpb.MsgType(d.TActionReq), Timestamp: now(), RequestId: 5})
	add("mismatch/asset-type-request-body", &hagallpb.Request{Type: hagallpb.MsgType(d.TAssetAddReq), Timestamp: now(), RequestId: 5})
	// server-to-client and unknown types sent by a client
	for _, t := range []int32{0, 1, 2, 4, 5, 6, 7, 9, 10, 13, 15, 17, 33, 43, 44, 99, 100, 102, 103, 150, 200, 202, 203, 250, 302, 304, 306, 350, 400, 9999, math.MaxInt32, -1} {
		add(fmt.Sprintf("type/%d", t), &hagallpb.Request{Type: hagallpb.MsgType(t), Timestamp: now(), RequestId: id()})
	}
	return out
}

// ByteLevel returns frames that are not (necessarily) valid messages.
func ByteLevel(r *rand.Rand, n int) []Offence {
	var out []Offence
	out = append(out, Offence{Name: "bytes/empty-frame", Frames: [][]byte{{}}})
	out = append(out, Offence{Name: "bytes/text-frame", Text: "hello"})
	out = append(out, Offence{Name: "bytes/text-frame-protobuf", Text: string(mustMarshal(&hagallpb.Request{Type: d.TPingReq, Timestamp: now(), RequestId: 1}))})
	out = append(out, Offence{Name: "bytes/no-timestamp", Frames: [][]byte{mustMarshal(&hagallpb.Request{Type: d.TPingReq, RequestId: 1})}})
	out = append(out, Offence{Name: "bytes/no-timestamp-entity-add", Frames: [][]byte{mustMarshal(&hagallpb.EntityAddRequest{Type: d.TEntityAddReq, RequestId: 1})}})
	valid := mustMarshal(&hagallpb.EntityAddRequest{Type: d.TEntityAddReq, Timestamp: now(), RequestId: 9, Pose: &hagallpb.Pose{Px: 1}})
	for i := 1; i < len(valid); i += 3 {
		out = append(out, Offence{Name: fmt.Sprintf("bytes/truncated-%d", i), Frames: [][]byte{valid[:i]}})
	}
	out = append(out, Offence{Name: "bytes/overlong", Frames: [][]byte{append(append([]byte{}, valid...), make([]byte, 3000)...)}})
	out = append(out, Offence{Name: "bytes/zeros-1MiB", Frames: [][]byte{make([]byte, 1<<20)}})
	// group / wire-type confusion
	out = append(out, Offence{Name: "bytes/bad-wire-type", Frames: [][]byte{{0x0f, 0xff, 0xff}}})
	out = append(out, Offence{Name: "bytes/huge-length-prefix", Frames: [][]byte{{0x12, 0xff, 0xff, 0xff, 0xff, 0x0f}}})
	for i := 0; i < n; i++ {
		b := make([]byte, 1+r.Intn(200))
		r.Read(b)
		out = append(out, Offence{Name: fmt.Sprintf("bytes/random-%d", i), Frames: [][]byte{b}})
		// a valid message with a few bytes flipped
		m := append([]byte{}, valid...)
		for k := 0; k < 1+r.Intn(3); k++ {
			m[r.Intn(len(m))] ^= byte(1 << uint(r.Intn(8)))
		}
		out = append(out, Offence{Name: fmt.Sprintf("bytes/flipped-%d", i), Frames: [][]byte{m}})
	}
	// malformed WebSocket framing
	out = append(out, Offence{Name: "ws/partial-frame-header", RawTCP: []byte{0x82}})
	out = append(out, Offence{Name: "ws/unmasked-frame", RawTCP: []byte{0x82, 0x03, 1, 2, 3}})
	out = append(out, Offence{Name: "ws/reserved-opcode", RawTCP: []byte{0x83, 0x80, 0, 0, 0, 0}})
	out = append(out, Offence{Name: "ws/huge-declared-length", RawTCP: []byte{0x82, 0xff, 0x7f, 0xff, 0xff, 0xff, 0xff, 0xff, 0xff, 0xff, 1, 2, 3, 4}})
	out = append(out, Offence{Name: "ws/garbage", RawTCP: []byte("GET / HTTP/1.1\r\n\r\n")})
	return out
}

// Closes returns closes placed right behind a request, while its effects
// (deferred updates, relays) are still in flight.
func Closes(c Ctx) []Offence {
	var out []Offence
	for _, how := range []string{"fin", "rst"} {
		out = append(out,
			Offence{Name: "close/" + how + "-right-after-pose", CloseAfter: how, ReachesHandler: true,
				Frames: [][]byte{mustMarshal(&hagallpb.EntityUpdatePose{Type: d.TPoseUpdate, Timestamp: now(), EntityId: c.Own, Pose: &hagallpb.Pose{Px: 5}})}},
			Offence{Name: "close/" + how + "-right-after-comp-update", CloseAfter: how, ReachesHandler: true,
				Frames: [][]byte{mustMarshal(&hagallpb.EntityComponentUpdate{Type: d.TCompUpdate, Timestamp: now(), EntityComponentTypeId: c.TypeID, EntityId: c.Own, Data: []byte("last")})}},
			Offence{Name: "close/" + how + "-right-after-entity-add", CloseAfter: how, ReachesHandler: true,
				Frames: [][]byte{mustMarshal(&hagallpb.EntityAddRequest{Type: d.TEntityAddReq, Timestamp: now(), RequestId: 424242})}},
			Offence{Name: "close/" + how + "-right-after-custom-x20", CloseAfter: how, ReachesHandler: true,
				Frames: func() [][]byte {
					var f [][]byte
					for i := 0; i < 20; i++ {
						f = append(f, mustMarshal(&hagallpb.CustomMessage{Type: d.TCustom, Timestamp: now(), Body: make([]byte, 5000)}))
					}
					return f
				}()},
			Offence{Name: "close/" + how + "-right-after-join-switch", CloseAfter: how, ReachesHandler: true,
				Frames: [][]byte{mustMarshal(&hagallpb.ParticipantJoinRequest{Type: d.TJoinReq, Timestamp: now(), RequestId: 434343})}},
		)
	}
	return out
}

// Bursts returns bursts of failing requests written without reading.
func Bursts() []Offence {
	var out []Offence
	for _, n := range []int{2, 8, 9, 10, 16, 40, 64} {
		var frames [][]byte
		for i := 0; i < n; i++ {
			// entity add while not joined fails in the handler; while joined it succeeds
			frames = append(frames, mustMarshal(&hagallpb.EntityAddRequest{Type: d.TEntityAddReq, Timestamp: now(), RequestId: uint32(880000 + i)}))
		}
		out = append(out, Offence{Name: fmt.Sprintf("burst/entity-add-x%d", n), Frames: frames, ReachesHandler: true})
		frames = nil
		for i := 0; i < n; i++ {
			frames = append(frames, mustMarshal(&hagallpb.ReceiptRequest{Type: d.TReceiptReq, Timestamp: now(), RequestId: uint32(890000 + i)}))
		}
		out = append(out, Offence{Name: fmt.Sprintf("burst/empty-receipt-x%d", n), Frames: frames, ReachesHandler: true})
		frames = nil
		for i := 0; i < n; i++ {
			frames = append(frames, mustMarshal(&hagallpb.CustomMessage{Type: d.TCustom, Timestamp: now(), Body: []byte("b")}))
		}
		out = append(out, Offence{Name: fmt.Sprintf("burst/custom-x%d", n), Frames: frames, ReachesHandler: true})
	}
	return out
}
