package e4

import (
	"fmt"
	"time"

	"github.com/aukilabs/hagall-common/messages/hagallpb"

	"verif/internal/check"
	d "verif/internal/driver"
	"verif/internal/scen"
	"verif/internal/sut"
)

// SwitchPendingOutcome of one trial.
type SwitchPendingOutcome struct {
	Findings     []*check.Finding
	Inconclusive string
	Desc         string
	FramesWaited int
}

// SwitchPendingTrial: a connection X that was a member of session A (kept
// alive by a witness) has switched to a session B of its own; it sends pose /
// component updates there and departs at once - reset, close, or one more
// switch - while they are still pending (the SUT runs with a long frame
// duration, so they are). Afterwards several frames of every session pass.
// Nothing of X may survive its departure anywhere: the process keeps
// running, A's and another session's members are served and relayed to, B has
// ended, the registry and the gauges are back, and a second round works.
// `how`: "rst" | "fin" | "switch"; `what`: "pose" | "comp" | "both".
func SwitchPendingTrial(p *sut.Proc, frame time.Duration, how, what string) (out *SwitchPendingOutcome) {
	out = &SwitchPendingOutcome{Desc: fmt.Sprintf("switch+pending: a member of session A switches to a session of its own, sends %s updates and departs (%s) before the next frame (frame duration %v)", what, how, frame)}
	sf := func(props []string, clause, format string, a ...any) *check.Finding {
		return &check.Finding{Props: props, Clause: clause, Trigger: "switch-pending-departure/" + how + "/" + what, Detail: out.Desc + ": " + fmt.Sprintf(format, a...), Engine: "E4 switch, pending update, departure"}
	}
	defer func() {
		if r := recover(); r != nil {
			if !p.Alive() {
				out.Findings = append(out.Findings, sf([]string{"C08", "C03", "C11", "C09"}, "process/exited", "the server process ended: %s\n%s", p.ExitInfo(), p.CrashHead(4000)))
				return
			}
			out.Inconclusive = fmt.Sprint("switch+pending trial: ", r)
		}
	}()
	must := func(err error) {
		if err != nil {
			panic(err)
		}
	}
	ms0, err := p.Metrics()
	must(err)
	w := scen.MustDial(p, "vod") // witness of A
	defer w.Close()
	_, _, err = w.Join("")
	must(err)
	we, err := w.AddEntity(false, 1)
	must(err)
	o := scen.MustDial(p, "vod") // another session altogether
	defer o.Close()
	_, _, err = o.Join("")
	must(err)
	w2 := scen.MustDial(p, "vod") // second member of A, observes w's relays
	defer w2.Close()
	_, _, err = w2.Join(w.SID)
	must(err)
	for round := 0; round < 2; round++ {
		x := scen.MustDial(p, "vod")
		_, _, err = x.Join(w.SID)
		must(err)
		_, err = x.AddEntity(false, 5)
		must(err)
		jr, _, err := x.Join("") // the switch: a session of its own
		must(err)
		if jr == nil {
			panic("the switch was refused")
		}
		bSID, bUUID := jr.SessionId, jr.SessionUuid
		xe, err := x.AddEntity(true, 6)
		must(err)
		t, err := x.AddType("sp-type")
		must(err)
		_, err = x.AddComp(t, xe, "c")
		must(err)
		_, err = x.Barrier()
		must(err)
		// let the current frame pass, then send the updates right after a tick
		time.Sleep(frame / 4)
		if what == "pose" || what == "both" {
			_, err = x.Pose(xe, 99)
			must(err)
		}
		if what == "comp" || what == "both" {
			must(x.UpdateComp(t, xe, "c2"))
		}
		// a ping proves the updates were consumed (they are scheduled now)
		_, err = x.Barrier()
		must(err)
		switch how {
		case "rst":
			x.Abort()
		case "fin":
			x.Close()
		case "switch":
			must(x.Send(&hagallpb.ParticipantJoinRequest{Type: d.TJoinReq, Timestamp: d.NewTag(), RequestId: x.NextReqID()}))
			_, err = x.Barrier()
			must(err)
			x.Close()
		}
		if ok, _ := scen.Departed(p, x, 10*time.Second); !ok {
			f := wedgeFinding(p, Trial{Off: Offence{Name: "switch-pending-departure"}, Phase: "joined"}, out.Desc+": the departing connection's handler never returned")
			f.Trigger = "switch-pending-departure/" + how + "/" + what
			f.Props = append(f.Props, "C03", "C11")
			out.Findings = append(out.Findings, f)
			return
		}
		// several frames of every session
		time.Sleep(4 * frame)
		out.FramesWaited += 4
		if !p.Alive() {
			panic("process ended")
		}
		// A and the other session are served and relayed to
		tag, err := w.Pose(we, float32(500+round))
		must(err)
		for name, c := range map[string]*scen.C{"the witness of the session the leaver had been in before": w, "a member of another session": o} {
			if id, err := c.AddEntity(false, 9); err != nil || id == 0 {
				out.Findings = append(out.Findings, sf([]string{"C03", "C08"}, "witness/not-served", "%s cannot add an entity afterwards (%v)", name, err))
				return
			}
		}
		got := false
		for k := 0; k < 40 && !got; k++ {
			win, err := w2.Barrier()
			if err != nil {
				break
			}
			for _, e := range win {
				if m, ok := e.M.(*hagallpb.EntityUpdatePoseBroadcast); ok && d.TagID(m.OriginTimestamp) == d.TagID(tag) {
					got = true
				}
			}
			time.Sleep(frame / 2)
		}
		if !got {
			out.Findings = append(out.Findings, sf([]string{"C03", "C11"}, "witness/pose-never-relayed", "afterwards a pose update of the witness is not relayed within 20 frames in the session the leaver had been in before"))
			return
		}
		// B has ended
		snap, err := scen.Probe(p, bSID, "vod")
		must(err)
		if snap.Found && snap.Join.SessionUuid == bUUID {
			out.Findings = append(out.Findings, sf([]string{"C07", "C06"}, "registry/ended-session-still-findable", "the session %s the leaver was alone in can still be joined", bSID))
			return
		}
	}
	// (the gauges are decremented by the decorators after the handler has
	// returned: a bounded wait, decided on the values)
	ms1, err := p.Metrics()
	must(err)
	for k := 0; k < 300 && (ms1["session_count"] != ms0["session_count"]+2 || ms1["ws_connected_clients"] != ms0["ws_connected_clients"]+3); k++ {
		time.Sleep(10 * time.Millisecond)
		ms1, err = p.Metrics()
		must(err)
	}
	if ms1["session_count"] != ms0["session_count"]+2 || ms1["ws_connected_clients"] != ms0["ws_connected_clients"]+3 {
		out.Findings = append(out.Findings, sf([]string{"C07", "C08"}, "gauges/not-restored", "session gauge %v -> %v (want +2), connected clients %v -> %v (want +3)", ms0["session_count"], ms1["session_count"], ms0["ws_connected_clients"], ms1["ws_connected_clients"]))
	}
	return
}
