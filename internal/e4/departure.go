package e4

import (
	"fmt"
	"time"

	"github.com/aukilabs/hagall-common/messages/hagallpb"

	"verif/internal/check"
	d "verif/internal/driver"
	"verif/internal/scen"
	"verif/internal/sut"
)

// Causes of a departure (every way a connection can end, C06).
var Causes = []string{"fin", "rst", "halfclose", "undecodable-frame", "missing-timestamp", "text-frame", "switch-session", "switch-new-session", "handler-error", "idle-timeout"}

// DepartureCase: one cause x one mix.
type DepartureCase struct {
	Cause          string
	Persistent     int  // persistent entities of the leaver
	Volatile       int  // non-persistent entities of the leaver
	SoleSubscriber bool // the leaver is the only subscriber of the type
}

func (c DepartureCase) String() string {
	return fmt.Sprintf("cause=%s persistent=%d volatile=%d sole-subscriber=%v", c.Cause, c.Persistent, c.Volatile, c.SoleSubscriber)
}

type DepartureOutcome struct {
	Findings     []*check.Finding
	Inconclusive string
	Checked      int
}

func depF(dc DepartureCase, clause, format string, a ...any) *check.Finding {
	return &check.Finding{Props: []string{"C06", "C08"}, Clause: clause, Trigger: dc.Cause, Detail: dc.String() + ": " + fmt.Sprintf(format, a...), Engine: "E4 departure causes"}
}

// RunDeparture executes one departure case. idle is the SUT's idle timeout.
func RunDeparture(p *sut.Proc, dc DepartureCase, idle time.Duration) (out *DepartureOutcome) {
	out = &DepartureOutcome{}
	defer func() {
		if r := recover(); r != nil {
			if !p.Alive() {
				out.Findings = append(out.Findings, depF(dc, "process/exited", "the server process ended: %s\n%s", p.ExitInfo(), p.CrashHead(4000)))
				return
			}
			out.Inconclusive = fmt.Sprint("departure ", dc, ": ", r)
		}
	}()
	must := func(err error) {
		if err != nil {
			panic(err)
		}
	}
	w := scen.MustDial(p, "vod")
	defer w.Close()
	_, _, err := w.Join("")
	must(err)
	typ, err := w.AddType("T")
	must(err)
	w2 := scen.MustDial(p, "vod") // a member that never subscribes
	defer w2.Close()
	_, _, err = w2.Join(w.SID)
	must(err)
	if !dc.SoleSubscriber {
		_, err = w.Subscribe(typ)
		must(err)
	}
	we, err := w.AddEntity(false, 1)
	must(err)
	l := scen.MustDial(p, "vod")
	defer l.Close()
	_, _, err = l.Join(w.SID)
	must(err)
	_, err = l.Subscribe(typ)
	must(err)
	var pers, vol []uint32
	for i := 0; i < dc.Persistent; i++ {
		e, err := l.AddEntity(true, float32(10+i))
		must(err)
		pers = append(pers, e)
	}
	for i := 0; i < dc.Volatile; i++ {
		e, err := l.AddEntity(false, float32(20+i))
		must(err)
		vol = append(vol, e)
	}
	for _, e := range append(append([]uint32{}, pers...), vol...) {
		_, err = l.AddComp(typ, e, fmt.Sprintf("comp-%d", e))
		must(err)
		_, err = l.Action(e, "act", 1_700_000_000, fmt.Sprintf("a-%d", e))
		must(err)
		_, err = l.AddAsset(e, fmt.Sprintf("asset-%d", e))
		must(err)
	}
	_, err = w.Barrier()
	must(err)
	_, err = w2.Barrier()
	must(err)

	// --- the cause
	stillConnected := false
	switch dc.Cause {
	case "fin":
		l.Close()
	case "rst":
		l.Abort()
	case "halfclose":
		l.HalfClose()
	case "undecodable-frame":
		must(l.SendRaw([]byte{0xff, 0xff, 0xff, 0x01, 0x02}))
	case "missing-timestamp":
		must(l.Send(&hagallpb.Request{Type: d.TPingReq, RequestId: 1}))
	case "text-frame":
		must(l.SendText("hello"))
	case "switch-session":
		// a third session to switch to
		o := scen.MustDial(p, "vod")
		defer o.Close()
		_, _, err = o.Join("")
		must(err)
		jr, _, err := l.Join(o.SID)
		must(err)
		if jr == nil {
			panic("switch refused")
		}
		stillConnected = true
	case "switch-new-session":
		jr, _, err := l.Join("")
		must(err)
		if jr == nil {
			panic("switch refused")
		}
		stillConnected = true
	case "handler-error":
		// a message whose body does not decode as its type: the handler returns an error
		must(l.Send(&hagallpb.CustomMessage{Type: d.TEntityAddReq, Timestamp: d.NewTag(), ParticipantIds: []uint32{1}, Body: []byte{0xff}}))
		// EntityAddRequest field 3 is a message (pose), field 4 a bool: the custom body bytes make it undecodable
	case "idle-timeout":
		// the leaver stays silent; the witnesses keep sending
		deadline := time.Now().Add(idle + 4*time.Second)
		last := time.Now()
		for !l.IsClosed() && time.Now().Before(deadline) {
			time.Sleep(idle / 5)
			if gap := time.Since(last); gap > idle*4/5 {
				out.Inconclusive = fmt.Sprintf("idle-timeout trial: the driver itself stalled for %v", gap)
				return
			}
			last = time.Now()
			// keep-alives; the relays they would cause are none (pings)
			must(w.Send(&hagallpb.Request{Type: d.TPingReq, Timestamp: d.NewTag(), RequestId: w.NextReqID()}))
			must(w2.Send(&hagallpb.Request{Type: d.TPingReq, Timestamp: d.NewTag(), RequestId: w2.NextReqID()}))
		}
		if !l.IsClosed() {
			out.Findings = append(out.Findings, depF(dc, "idle/not-disconnected", "a connection that stayed silent for %v (idle timeout %v) was not disconnected", idle+4*time.Second, idle))
			return
		}
	}
	if !stillConnected {
		if _, err := l.WaitClosed(); err != nil {
			out.Findings = append(out.Findings, depF(dc, "departure/connection-not-ended", "the server did not end the connection: %v", err))
			return
		}
		ok, err := scen.Departed(p, l, 8*time.Second)
		must(err)
		if !ok {
			out.Findings = append(out.Findings, depF(dc, "departure/handler-never-returned", "websocket.Handle never returned for the leaver"))
			return
		}
	}
	// --- what the remaining members were told
	for wi, wit := range []*scen.C{w, w2} {
		win, err := wit.Barrier()
		if err != nil {
			out.Findings = append(out.Findings, depF(dc, "departure/witness-disconnected", "witness %d lost its connection: %v", wi+1, err))
			return
		}
		leaves := 0
		dels := map[uint32]int{}
		for _, e := range win {
			switch m := e.M.(type) {
			case *hagallpb.ParticipantLeaveBroadcast:
				if m.ParticipantId == l.PID || dc.Cause == "switch-session" || dc.Cause == "switch-new-session" {
					leaves++
				}
			case *hagallpb.EntityDeleteBroadcast:
				dels[m.EntityId]++
			case *hagallpb.Response:
				// pongs of keep-alives
			default:
				out.Findings = append(out.Findings, depF(dc, "departure/unexpected-message", "witness %d received %s", wi+1, e))
			}
		}
		if leaves != 1 {
			out.Findings = append(out.Findings, depF(dc, "departure/leave-relay-count", "witness %d saw %d leave relays for the leaver (want 1); window %v", wi+1, leaves, win))
		}
		for _, e := range vol {
			if dels[e] != 1 {
				out.Findings = append(out.Findings, depF(dc, "departure/delete-relay-count", "witness %d saw %d delete relays for the leaver's non-persistent entity %d (want 1)", wi+1, dels[e], e))
			}
			delete(dels, e)
		}
		for e, n := range dels {
			out.Findings = append(out.Findings, depF(dc, "departure/foreign-or-persistent-entity-deleted", "witness %d saw %d delete relays for entity %d, which is persistent or not the leaver's", wi+1, n, e))
		}
		out.Checked++
	}
	// --- what a later joiner is handed
	snap, err := scen.Probe(p, w.SID, "vod")
	must(err)
	w.Barrier()
	w2.Barrier()
	if !snap.Found || snap.State == nil {
		out.Findings = append(out.Findings, depF(dc, "departure/session-lost", "the session cannot be joined after the departure (code %d)", snap.Code))
		return
	}
	leaverPID := l.PID
	if stillConnected {
		leaverPID = 3 // w=1, w2=2, l=3 in the original session
	}
	for _, pp := range snap.State.Participants {
		if pp.Id == leaverPID {
			out.Findings = append(out.Findings, depF(dc, "departure/ghost-participant", "the leaver (participant %d) is still handed to joiners", leaverPID))
		}
	}
	ents := map[uint32]bool{}
	for _, e := range snap.State.Entities {
		ents[e.Id] = true
	}
	comps := map[uint32]bool{}
	for _, cc := range snap.State.EntityComponents {
		comps[cc.EntityId] = true
	}
	acts := map[uint32]bool{}
	for _, a := range snap.Vikja.GetEntityActions() {
		acts[a.EntityId] = true
	}
	assets := map[uint32]bool{}
	for _, a := range snap.Odal.GetAssetInstances() {
		assets[a.EntityId] = true
	}
	for _, e := range vol {
		if ents[e] || comps[e] || acts[e] || assets[e] {
			out.Findings = append(out.Findings, depF(dc, "departure/non-persistent-survives", "non-persistent entity %d of the leaver: entity=%v component=%v action=%v asset=%v still handed to joiners", e, ents[e], comps[e], acts[e], assets[e]))
		}
	}
	for _, e := range pers {
		if !ents[e] || !comps[e] || !acts[e] || !assets[e] {
			out.Findings = append(out.Findings, depF(dc, "departure/persistent-lost", "persistent entity %d of the leaver: entity=%v component=%v action=%v asset=%v handed to joiners (all must survive)", e, ents[e], comps[e], acts[e], assets[e]))
		}
	}
	if !ents[we] {
		out.Findings = append(out.Findings, depF(dc, "departure/foreign-entity-lost", "the witness's entity %d disappeared", we))
	}
	out.Checked++
	// --- the leaver's subscription ended: with no subscriber left, nobody is notified
	if dc.SoleSubscriber {
		if _, err := w.AddComp(typ, we, "after"); err != nil {
			panic(err)
		}
		win, err := w2.Barrier()
		must(err)
		for _, e := range win {
			if e.Type == d.TCompAddBcast {
				out.Findings = append(out.Findings, depF(dc, "departure/subscription-not-ended", "the leaver was the only subscriber of the type, yet after its departure a non-subscriber was notified of a component add: %s", e))
			}
		}
		out.Checked++
	}
	return
}
