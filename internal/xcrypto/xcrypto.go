// Package xcrypto is the harness's independent check of the server's
// cryptography: Keccak-256 from x/crypto and signature recovery with the
// pure-Go decred secp256k1 (the server uses go-ethereum's cgo path).
package xcrypto

import (
	"encoding/hex"
	"errors"
	"strings"

	"github.com/decred/dcrd/dcrec/secp256k1/v4"
	"github.com/decred/dcrd/dcrec/secp256k1/v4/ecdsa"
	"golang.org/x/crypto/sha3"
)

// Keccak256 hashes data.
func Keccak256(data []byte) []byte {
	h := sha3.NewLegacyKeccak256()
	h.Write(data)
	return h.Sum(nil)
}

// PubKeyFromHex derives the uncompressed public key of a hex private key.
func PubKeyFromHex(privHex string) ([]byte, error) {
	b, err := hex.DecodeString(strings.TrimPrefix(privHex, "0x"))
	if err != nil {
		return nil, err
	}
	priv := secp256k1.PrivKeyFromBytes(b)
	return priv.PubKey().SerializeUncompressed(), nil
}

// Recover recovers the uncompressed public key from an Ethereum-style
// signature [R || S || V] (V = 0..3) over hash.
func Recover(hash, sig []byte) ([]byte, error) {
	if len(sig) != 65 {
		return nil, errors.New("signature must be 65 bytes")
	}
	if len(hash) != 32 {
		return nil, errors.New("hash must be 32 bytes")
	}
	if sig[64] > 3 {
		return nil, errors.New("invalid recovery id")
	}
	compact := make([]byte, 65)
	compact[0] = 27 + sig[64]
	copy(compact[1:], sig[:64])
	pub, _, err := ecdsa.RecoverCompact(compact, hash)
	if err != nil {
		return nil, err
	}
	return pub.SerializeUncompressed(), nil
}

// Sign signs hash with the hex private key and returns [R || S || V].
func Sign(privHex string, hash []byte) ([]byte, error) {
	b, err := hex.DecodeString(strings.TrimPrefix(privHex, "0x"))
	if err != nil {
		return nil, err
	}
	priv := secp256k1.PrivKeyFromBytes(b)
	c := ecdsa.SignCompact(priv, hash, false)
	out := make([]byte, 65)
	copy(out, c[1:])
	out[64] = c[0] - 27
	return out, nil
}
