// vcheck is the single entry point of the verification framework:
//
//	vcheck -p C07 -tier quick|thorough
//	vcheck -replay replays/C07-1-1.json
package main

import (
	"flag"
	"fmt"
	"os"
	"strconv"

	"verif/internal/props"
)

func main() {
	prop := flag.String("p", "", "property id")
	tier := flag.String("tier", os.Getenv("VERIF_TIER"), "quick|thorough")
	replay := flag.String("replay", "", "replay file")
	flag.Parse()
	if *tier == "" {
		*tier = "quick"
	}
	seed := int64(1)
	if s := os.Getenv("VERIF_SEED"); s != "" {
		if v, err := strconv.ParseInt(s, 10, 64); err == nil {
			seed = v
		}
	}
	if *replay != "" {
		os.Exit(props.Replay(*replay))
	}
	if *prop == "" {
		fmt.Fprintln(os.Stderr, "usage: vcheck -p <property> [-tier quick|thorough] | -replay <file>")
		os.Exit(2)
	}
	os.Exit(props.Run(*prop, *tier, seed))
}
