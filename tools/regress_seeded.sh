#!/bin/bash
# usage: tools/regress_seeded.sh [<seeded-id>...]
# Every stored seeded change against the quick check of its property, through a
# shadow copy (tools/try_shadow.sh): /repo is not touched. A change that alters
# go.mod cannot be shadowed and is tried in /repo itself (tools/try_mutation.sh).
cd /verif
ids="$@"; [ -z "$ids" ] && ids=$(ls seeded)
for id in $ids; do
  prop=${id%%-*}
  if grep -q "^diff --git a/go.mod" seeded/$id/patch.diff; then
    out=$(LINES_MAX=2 tools/try_mutation.sh /verif/seeded/$id/patch.diff $prop 2>&1)
  else
    out=$(LINES_MAX=2 tools/try_shadow.sh /verif/seeded/$id/patch.diff $prop 2>&1)
  fi
  if echo "$out" | grep -q "== $prop exit=1"; then echo "CAUGHT $id $(echo "$out" | grep signature | head -1 | cut -c1-150)"; else echo "MISSED $id"; echo "$out" | tail -3 | cut -c1-200; fi
done
