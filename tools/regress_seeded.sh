#!/bin/bash
# usage: tools/regress_seeded.sh [<seeded-id>...]   every stored seeded change against the quick check of its property
cd /verif
ids="$@"; [ -z "$ids" ] && ids=$(ls seeded)
for id in $ids; do
  prop=${id%%-*}
  out=$(LINES_MAX=2 tools/try_mutation.sh /verif/seeded/$id/patch.diff $prop 2>&1)
  if echo "$out" | grep -q "== $prop exit=1"; then echo "CAUGHT $id $(echo "$out" | grep signature | head -1 | cut -c1-150)"; else echo "MISSED $id"; echo "$out" | tail -3 | cut -c1-200; fi
done
