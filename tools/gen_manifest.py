#!/usr/bin/env python3
"""Generates /verif/MANIFEST.json from the table below (kept in one place so
that claimed checks, engines and not_applicable stay consistent)."""
import json, os
HERE = os.path.dirname(os.path.dirname(os.path.abspath(__file__)))
props = [json.loads(l) for l in open(os.path.join(HERE, 'properties.jsonl'))]

NOTE = ("Trusted base: the harness driver and reference model in /verif (Go), the Go toolchain and race detector, "
        "the build overlay generated from the current /repo sources (instrumentation inserted on the same lines, package verifrt added). "
        "Verdicts read 'held on the executions observed'; nothing is proved.")

CHECKS = {
 # id: (category, technique, text, design_ref)
 'C01': ('exploration', 'runtime monitoring: reference-model monitor + replicated-view fold over wire-level event logs of generated sequential histories, concurrent blocks (free, jittered, stepped), step-through runs (join / leave / switch / delete / plain requests parked at every scheduling point they pass) and lag-then-catch-up trials with several senders',
         'Every member\'s folded view is compared with the server state (model, checked against what each joiner is handed) at checkpoints of seeded sequential histories over all module subsets; inapplicable broadcasts are flagged when received.', '4 C01'),
 'C02': ('exploration', 'runtime monitoring: exactly-once / no-echo / order oracle over attributed relays (unique origin tags) in recorded event logs of sequential histories, concurrent blocks, lagging-member trials and step-through runs',
         'Each relay is attributed to the request that caused it through a unique origin tag; per step the exact recipient multiset is demanded behind a session barrier.', '4 C02'),
 'C03': ('exploration', 'runtime monitoring: per-session reference model + differential re-run (noninterference) of recorded histories on a fresh process; dagaz samples / plane counts / whole-grid listings per session in the model; timing-side isolation trials (a stalled member, pending updates at a departure after a switch) with witnesses outside the session',
         'Histories over several sessions with coinciding ids are judged by a model with no cross-session terms, and re-run with the other sessions\' traffic removed; streams must be equal after normalisation.', '4 C03'),
 'C04': ('exploration', 'runtime monitoring: request/answer matching behind connection barriers against the reference model\'s acceptable-answer sets; receipt bursts and a gated full queue; wedge detection in stepped joins',
         'Every request kind with refusal-heavy argument pools; exactly one answer, right type or an acceptable error code, and no effect of refused requests (relays, later handed state).', '4 C04'),
 'C05': ('exploration', 'runtime monitoring: reference-model monitor over attack-profile histories (foreign delete / pose / asset attempts) with probe comparison; id-uniqueness oracle over entity-add storms',
         'Foreign attempts on every (requester, entity) kind including after the owner left; answers, silence behind barriers and the state handed to later joiners are checked.', '4 C05'),
 'C07': ('exploration', 'runtime monitoring: registry reference model over sequential histories + gated interleavings and step-through runs (last departure, creation, switch, join parked at every scheduling point they pass) with probe / gauge / goroutine-census oracles',
         'Create-join-switch-leave histories with id reuse judged by the model, probes, the session gauge and a frame-worker census; the dangerous overlaps (join x last departure, two last departures, late unregistration x creation) are forced with gates at scheduling points injected by the build overlay.', '4 C07'),
 'C08': ('fault_enumeration', 'runtime monitoring: liveness oracles (process alive, normal-path departure exactly once, witnesses, gauges, goroutine census, panic log scan) over an enumerated catalogue of hostile inputs x life phases and thousands of failing bursts; stalls, floods and keep-alive trials; wedge detection (two goroutine dumps) in step-through runs that park a departure or a relay at every scheduling point, plain and with the connection reset meanwhile',
         'Every offence of an enumerated catalogue (structural messages of core and modules with absent fields / boundary scalars, byte-level frames, broken WebSocket framing, bursts) is placed at each life phase against a child process with witnesses in the same and another session.', '4 C08'),
 'C09': ('exploration', 'sanitizer: Go race detector over repeated storms of 2-16 unsynchronised clients (free-running and jittered at injected scheduling points) + wedge / runtime-fatal / never-completed oracles; runtime monitoring: lock-order graph (held-set per goroutine, cycle = reachable deadlock) over sequential histories and step-through runs',
         'A -race build of the lab SUT with the production decorators and all modules is driven by repeated concurrent storms; any race report with a hagall frame, runtime fatal, request that never completes or goroutine left parked in hagall code is a violation.', '4 C09'),
 'C06': ('fault_enumeration', 'runtime monitoring: departure oracles (relays at remaining members, state handed to a later joiner, subscription ended) over the enumerated ways a connection can end x entity/attachment mixes, plus reference-model histories and step-through runs (the departure parked at every scheduling point it passes, one and two preemptions, referential-integrity oracle)',
         'Every cause of a departure (FIN, RST, half-close, undecodable frame, missing timestamp, text frame, handler error, idle timeout, switch to another / a new session) x mixes of persistent / non-persistent entities with component, action and asset attached x sole-subscriber or not.', '4 C06'),
 'C10': ('exploration', 'runtime monitoring: id ledger in the reference model; exhaustive New/Reuse sequences and porcupine linearizability check of concurrent histories on the real id generator (-race child); uniqueness oracles over concurrent allocation storms and step-through runs (creation / last departure parked at every point they pass)',
         'Ids are opaque to the model, which demands freshness per session uuid over long histories with releases; the id source is enumerated exhaustively for all short sequences and checked for linearizability under concurrency; 16-connection allocation storms collect every issued id.', '4 C10'),
 'C11': ('exploration', 'runtime monitoring: order-based oracles over per-observer pose relay sequences (sequence number in px), frame barriers, gated frame ticks; pose-liveness oracle after step-through runs (join / leave / switch parked at every point, one and two preemptions)',
         'Owners stream sequence-numbered updates at several frame durations with deletions and invalid updates interleaved; per observer and entity the relayed numbers must strictly increase, stop at the delete relay and end with the last one sent (also at a newcomer); a held frame tick makes coalescing exact.', '4 C11'),
 'C15': ('exploration', 'runtime monitoring: admission oracle with an independent HMAC/claims verifier over a token mutation catalogue x carriers, against the real middleware and the real binary behind a fake discovery service (unregistered, registered, rotated); invalid-token cases x request methods x ambient headers',
         'A valid token and each single mutation of it in every carrier and combination, with the server unregistered, registered and after secret rotation; admitted only if a carried token verifies independently, a single valid token is admitted, protected handlers entered iff admitted.', '4 C15'),
 'C18': ('exploration', 'runtime monitoring: scripted honest and misbehaving clients (incl. a session switch with a ping pending, chained requests) against the signed-latency exchange; independent signature recovery (pure-Go secp256k1 + Keccak-256) and data-consistency oracles',
         'Iteration counts 0..60 and extremes, wallet strings, duplicate / unknown / replayed answers, restarts and delayed rounds; every completed response is checked for signature, binding, ping-id set, count and statistics (last >= the injected delay of the final round).', '4 C18'),
 'C19': ('fault_enumeration', 'runtime monitoring: forwarded-iff-valid oracle at a fake credit service with an independent validity check, per-submission answer oracle, service failure modes, pipelined bursts from 8-16 connections, a gated queue-full scenario and stepped one-free-slot rounds with simultaneous submitters',
         'Harness-signed valid triples and every single-field corruption from 1-16 connections with the credit service ok / slow / 500 / down; forwards are compared byte for byte after all forwarding goroutines ended; queue-full is made deterministic by holding the verifier at an injected gate.', '4 C19'),
 'C20': ('exploration', 'runtime monitoring: invariant walkers over the real grid after every insertion (child process), primitives against math/big references, wire-level sharing/retention scenarios and reference-model histories with dagaz traffic',
         'Seeded insertion sequences with merges, cascades and growth in all directions; index completeness, whole-grid region query, vertical rays, bounds, plane count and row shape are evaluated after every insertion; samples must be visible to later joiners and survive departures.', '4 C20'),
 'C12': ('exploration', 'runtime monitoring: map reference model over component histories at the wire; porcupine linearizability of the real store per key; step-through runs (component add against entity deletion / owner departure) with a referential-integrity oracle',
         'Component requests with ids that exist / never existed / no longer exist; answers, LIST contents, handed state and cascades are compared with a map model.', '4 C12'),
 'C13': ('exploration', 'runtime monitoring: subscription-entitlement oracle over recorded per-connection notification streams; step-through of a notification in flight against an answered unsubscribe; exactly-once oracle in sessions of 140-700 subscribers',
         'Per component change the exact set of notified connections is derived from the model\'s subscription table and demanded behind a session barrier.', '4 C13'),
 'C14': ('exploration', 'runtime monitoring: recipient-set and byte-equality oracle over custom-message deliveries (bodies up to 31 MiB, sessions up to 700 members, addressed messages stepped against each other)',
         'Bodies around the 10240 limit and arbitrary recipient lists; deliveries are matched byte for byte per addressed member behind a session barrier.', '4 C14'),
 'C16': ('exploration', 'runtime monitoring: reference-model monitor of entity actions / asset instances incl. state handed to joiners; step-through runs (concurrent setters on one key, action against entity deletion / departure, joins parked at their own sends) with latest-timestamp, referential-integrity and view oracles',
         'Timestamps equal / older / newer / zero / absent and asset replacement, interleaved with deletions and departures; VIKJA/ODAL state handed to every joiner is compared with the model.', '4 C16'),
 'C17': ('exploration', 'runtime monitoring: differential stream comparison of recorded histories and of a directed departure script under flag sets and flag lists (empty / unknown / repeated names at any position; flag-aware reference model in both runs)',
         'Quick: the empty set, all singletons, the full set, 40 seeded subsets and unknown names; thorough: all 1024 subsets x 3 histories. Per-step windows must equal the flag-free ones minus the disabled classes.', '4 C17'),
}

ENGINES = [
 {'name': 'E1 seq', 'path': 'internal/e1', 'serves_properties': ['C01','C02','C03','C04','C05','C06','C07','C10','C11','C12','C13','C14','C16','C17'], 'kind_free_text': 'sequential histories on the lab SUT judged by the reference model (internal/model), the view fold and probes'},
 {'name': 'E5 diff', 'path': 'internal/e1/diff.go', 'serves_properties': ['C03','C17'], 'kind_free_text': 'one recorded history, two runs (other sessions removed / flag set), normalised stream equality'},
 {'name': 'E2 conc', 'path': 'internal/e2', 'serves_properties': ['C01','C02','C03','C04','C06','C07','C08','C09','C10','C11','C12','C13','C14','C16'], 'kind_free_text': 'gated interleavings at injected scheduling points (verifrt sched mode), order-free oracles at quiescence'},
 {'name': 'E3 race', 'path': 'internal/e3', 'serves_properties': ['C09'], 'kind_free_text': 'client storms on -race builds, race-report extraction and deduplication'},
 {'name': 'E4 fault', 'path': 'internal/e4', 'serves_properties': ['C01','C02','C06','C08','C11'], 'kind_free_text': 'offence catalogue x life phase, bursts; liveness oracles'},
 {'name': 'E6 in vivo', 'path': 'sut/e6grid, sut/e6ids, sut/e6store', 'serves_properties': ['C10','C12','C20'], 'kind_free_text': 'real objects (grid, id generator) driven in child processes that log the input in flight; invariant walkers, exact references, porcupine'},
 {'name': 'E7 system', 'path': 'internal/fakes, internal/sut (StartReal)', 'serves_properties': ['C09','C15','C17'], 'kind_free_text': 'real binary behind fake discovery / credit services'},
 {'name': 'overlay+verifrt', 'path': 'internal/instr, overlaysrc/verifrt', 'serves_properties': [], 'kind_free_text': 'go/ast source instrumenter writing a build overlay of the current /repo tree; scheduling-point runtime (jitter, gates)'},
 {'name': 'lab SUT', 'path': 'sut/labsut', 'serves_properties': [], 'kind_free_text': 'harness-owned main wiring the same packages as cmd/main.go; always a child process'},
]

checks = []
na = []
for p in props:
    pid = p['id']
    if pid in CHECKS:
        cat, tech, text, ref = CHECKS[pid]
        checks.append({
          'property_id': pid,
          'quick_cmd': 'bin/vcheck -p %s -tier quick' % pid,
          'thorough_cmd': 'bin/vcheck -p %s -tier thorough' % pid,
          'evidence_file': 'evidence/%s.json' % pid,
          'replay_cmd_template': 'bin/vcheck -replay {path}',
          'engine': 'vcheck',
          'level_claimed': {'category': cat, 'text': text, 'design_ref': 'DESIGN.md section ' + ref},
          'level_note': NOTE,
          'technique': tech,
        })
    else:
        na.append({'property_id': pid, 'reason': 'check under construction in this session; not claimed yet'})

m = {
 'version': 1,
 'setup_cmd': './setup.sh',
 'hooks': {'guard': 'verif',
           'enable': 'go build -tags verif -overlay <overlay.json generated at check time from the current /repo sources by bin/vcheck> (no hook is committed to /repo)',
           'baseline_off_cmd': "cd /repo && go test -mod=mod -json -vet=off -count=1 -timeout 25m ./...",
           'source_commits': [], 'add_only': True},
 'engines': ENGINES,
 'checks': checks,
 'not_applicable': na,
 'notes': 'Technique family: runtime monitoring and sanitizers. All checks honour VERIF_SEED (default 1) and rebuild the SUT from /repo\'s working tree into a scratch directory that is removed on exit.',
}
json.dump(m, open(os.path.join(HERE, 'MANIFEST.json'), 'w'), indent=1)
print('checks:', [c['property_id'] for c in checks]); print('not_applicable:', [n['property_id'] for n in na])
