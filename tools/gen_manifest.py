#!/usr/bin/env python3
"""Generates /verif/MANIFEST.json from the table below (kept in one place so
that claimed checks, engines and not_applicable stay consistent)."""
import json, os
HERE = os.path.dirname(os.path.dirname(os.path.abspath(__file__)))
props = [json.loads(l) for l in open(os.path.join(HERE, 'properties.jsonl'))]

NOTE = ("Trusted base: the harness driver and reference model in /verif (Go), the Go toolchain and race detector, "
        "the build overlay generated from the current /repo sources (instrumentation inserted on the same lines, package verifrt added). "
        "Verdicts read 'held on the executions observed'; nothing is proved.")

CHECKS = {
 # id: (category, technique, text, design_ref)
 'C01': ('exploration', 'runtime monitoring: reference-model monitor + replicated-view fold over wire-level event logs of generated sequential histories and concurrent blocks',
         'Every member\'s folded view is compared with the server state (model, checked against what each joiner is handed) at checkpoints of seeded sequential histories over all module subsets; inapplicable broadcasts are flagged when received.', '4 C01'),
 'C02': ('exploration', 'runtime monitoring: exactly-once / no-echo / order oracle over attributed relays (unique origin tags) in recorded event logs',
         'Each relay is attributed to the request that caused it through a unique origin tag; per step the exact recipient multiset is demanded behind a session barrier.', '4 C02'),
 'C03': ('exploration', 'runtime monitoring: per-session reference model + differential re-run (noninterference) of recorded histories on a fresh process',
         'Histories over several sessions with coinciding ids are judged by a model with no cross-session terms, and re-run with the other sessions\' traffic removed; streams must be equal after normalisation.', '4 C03'),
 'C04': ('exploration', 'runtime monitoring: request/answer matching behind connection barriers against the reference model\'s acceptable-answer sets',
         'Every request kind with refusal-heavy argument pools; exactly one answer, right type or an acceptable error code, and no effect of refused requests (relays, later handed state).', '4 C04'),
 'C05': ('exploration', 'runtime monitoring: reference-model monitor over attack-profile histories (foreign delete / pose / asset attempts) with probe comparison',
         'Foreign attempts on every (requester, entity) kind including after the owner left; answers, silence behind barriers and the state handed to later joiners are checked.', '4 C05'),
 'C07': ('exploration', 'runtime monitoring: registry reference model over sequential histories + gated interleavings (injected scheduling points) with probe / gauge / goroutine-census oracles',
         'Create-join-switch-leave histories with id reuse judged by the model, probes, the session gauge and a frame-worker census; the dangerous overlaps (join x last departure, two last departures, late unregistration x creation) are forced with gates at scheduling points injected by the build overlay.', '4 C07'),
 'C08': ('fault_enumeration', 'runtime monitoring: liveness oracles (process alive, normal-path departure exactly once, witnesses, gauges, goroutine census, panic log scan) over an enumerated catalogue of hostile inputs x life phases and thousands of failing bursts',
         'Every offence of an enumerated catalogue (structural messages of core and modules with absent fields / boundary scalars, byte-level frames, broken WebSocket framing, bursts) is placed at each life phase against a child process with witnesses in the same and another session.', '4 C08'),
 'C09': ('exploration', 'sanitizer: Go race detector over repeated storms of 2-16 unsynchronised clients (free-running and jittered at injected scheduling points) + wedge / runtime-fatal / never-completed oracles',
         'A -race build of the lab SUT with the production decorators and all modules is driven by repeated concurrent storms; any race report with a hagall frame, runtime fatal, request that never completes or goroutine left parked in hagall code is a violation.', '4 C09'),
 'C12': ('exploration', 'runtime monitoring: map reference model over component histories at the wire',
         'Component requests with ids that exist / never existed / no longer exist; answers, LIST contents, handed state and cascades are compared with a map model.', '4 C12'),
 'C13': ('exploration', 'runtime monitoring: subscription-entitlement oracle over recorded per-connection notification streams',
         'Per component change the exact set of notified connections is derived from the model\'s subscription table and demanded behind a session barrier.', '4 C13'),
 'C14': ('exploration', 'runtime monitoring: recipient-set and byte-equality oracle over custom-message deliveries',
         'Bodies around the 10240 limit and arbitrary recipient lists; deliveries are matched byte for byte per addressed member behind a session barrier.', '4 C14'),
 'C16': ('exploration', 'runtime monitoring: reference-model monitor of entity actions / asset instances incl. state handed to joiners',
         'Timestamps equal / older / newer / zero / absent and asset replacement, interleaved with deletions and departures; VIKJA/ODAL state handed to every joiner is compared with the model.', '4 C16'),
 'C17': ('exploration', 'runtime monitoring: differential stream comparison of one recorded history under flag sets (flag-aware reference model in both runs)',
         'Quick: the empty set, all singletons, the full set, 40 seeded subsets and unknown names; thorough: all 1024 subsets x 3 histories. Per-step windows must equal the flag-free ones minus the disabled classes.', '4 C17'),
}

ENGINES = [
 {'name': 'E1 seq', 'path': 'internal/e1', 'serves_properties': ['C01','C02','C03','C04','C05','C07','C12','C13','C14','C16','C17'], 'kind_free_text': 'sequential histories on the lab SUT judged by the reference model (internal/model), the view fold and probes'},
 {'name': 'E5 diff', 'path': 'internal/e1/diff.go', 'serves_properties': ['C03','C17'], 'kind_free_text': 'one recorded history, two runs (other sessions removed / flag set), normalised stream equality'},
 {'name': 'E2 gated', 'path': 'internal/e2', 'serves_properties': ['C07'], 'kind_free_text': 'gated interleavings at injected scheduling points (verifrt sched mode), order-free oracles at quiescence'},
 {'name': 'E3 race', 'path': 'internal/e3', 'serves_properties': ['C09'], 'kind_free_text': 'client storms on -race builds, race-report extraction and deduplication'},
 {'name': 'E4 fault', 'path': 'internal/e4', 'serves_properties': ['C08'], 'kind_free_text': 'offence catalogue x life phase, bursts; liveness oracles'},
 {'name': 'overlay+verifrt', 'path': 'internal/instr, overlaysrc/verifrt', 'serves_properties': [], 'kind_free_text': 'go/ast source instrumenter writing a build overlay of the current /repo tree; scheduling-point runtime (jitter, gates)'},
 {'name': 'lab SUT', 'path': 'sut/labsut', 'serves_properties': [], 'kind_free_text': 'harness-owned main wiring the same packages as cmd/main.go; always a child process'},
]

checks = []
na = []
for p in props:
    pid = p['id']
    if pid in CHECKS:
        cat, tech, text, ref = CHECKS[pid]
        checks.append({
          'property_id': pid,
          'quick_cmd': 'bin/vcheck -p %s -tier quick' % pid,
          'thorough_cmd': 'bin/vcheck -p %s -tier thorough' % pid,
          'evidence_file': 'evidence/%s.json' % pid,
          'replay_cmd_template': 'bin/vcheck -replay {path}',
          'engine': 'vcheck',
          'level_claimed': {'category': cat, 'text': text, 'design_ref': 'DESIGN.md section ' + ref},
          'level_note': NOTE,
          'technique': tech,
        })
    else:
        na.append({'property_id': pid, 'reason': 'check under construction in this session; not claimed yet'})

m = {
 'version': 1,
 'setup_cmd': './setup.sh',
 'hooks': {'guard': 'verif',
           'enable': 'go build -tags verif -overlay <overlay.json generated at check time from the current /repo sources by bin/vcheck> (no hook is committed to /repo)',
           'baseline_off_cmd': "cd /repo && go test -mod=mod -json -vet=off -count=1 -timeout 25m ./...",
           'source_commits': [], 'add_only': True},
 'engines': ENGINES,
 'checks': checks,
 'not_applicable': na,
 'notes': 'Technique family: runtime monitoring and sanitizers. All checks honour VERIF_SEED (default 1) and rebuild the SUT from /repo\'s working tree into a scratch directory that is removed on exit.',
}
json.dump(m, open(os.path.join(HERE, 'MANIFEST.json'), 'w'), indent=1)
print('checks:', [c['property_id'] for c in checks]); print('not_applicable:', [n['property_id'] for n in na])
