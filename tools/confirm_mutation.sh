#!/bin/bash
# usage: tools/confirm_mutation.sh <worktree>   (an agent's worktree with _mutation/)
# Confirms: the change compiles, the existing suite passes with it, the
# demonstration fails with it and passes without it.
set -u
export GOFLAGS=-mod=mod GOPROXY=off GOSUMDB=off GOTOOLCHAIN=local
wt=$1
cd $wt || exit 2
demo=$(git status --porcelain | grep -E "zz_mutation_demo.*_test.go" | awk '{print $2}' | head -1)
echo "demo file: $demo"
pkg=./$(dirname "$demo")
race=""
grep -qi "\-race" _mutation/NOTES.md 2>/dev/null && race="-race"
echo "--- build with change"; go build ./... && echo build ok
echo "--- suite with change (demo excluded)"; mv $demo /tmp/_demo_hold.go; go test -vet=off -count=1 ./... 2>&1 | grep -v "no test files" | tail -8; mv /tmp/_demo_hold.go $demo
echo "--- demo with change (expect FAIL)"; go test $race -vet=off -count=1 -run 'Mutation|Demo|Zz|ZZ' $pkg 2>&1 | tail -4
echo "--- demo without change (expect ok)"; git stash -q -- $(git diff --name-only | grep -v _test.go); go test $race -vet=off -count=1 -run 'Mutation|Demo|Zz|ZZ' $pkg 2>&1 | tail -3; git stash pop -q
git status --short | head
