#!/bin/bash
# usage: tools/confirm_mutation.sh <id>      (agent worktree /tmp/wt/<id> with _mutation/patch.diff)
# In a fresh scratch worktree of /repo HEAD: the change applies and compiles,
# the existing suite passes with it, the demonstration fails with it and
# passes without it. The scratch worktree is removed afterwards.
set -u
export GOFLAGS=-mod=mod GOPROXY=off GOSUMDB=off GOTOOLCHAIN=local
id=$1
src=/tmp/wt/$id
scratch=/tmp/confirm-$id
git -C /repo worktree remove --force $scratch 2>/dev/null
git -C /repo worktree add -q --detach $scratch HEAD || exit 2
cd $scratch
res="?"
if ! git apply $src/_mutation/patch.diff; then echo "RESULT $id patch-does-not-apply"; cd /; git -C /repo worktree remove --force $scratch; exit 1; fi
if ! go build ./... ; then echo "RESULT $id does-not-compile"; cd /; git -C /repo worktree remove --force $scratch; exit 1; fi
suite=$(go test -vet=off -count=1 ./... 2>&1 | grep -v "no test files")
fails=$(echo "$suite" | grep -c "^FAIL\|^--- FAIL")
nonflaky=$(echo "$suite" | grep "^--- FAIL" | grep -vc "TestHandlerHandleSignedLatency")
echo "suite: fail-lines=$fails non-flaky-failures=$nonflaky"
# demo files: untracked zz_* test files of the agent worktree (outside _mutation)
demos=$(cd $src && git status --porcelain --untracked-files=all | awk '{print $2}' | grep -v "^_mutation/" | grep "_test.go$")
race=""
grep -q "go test -race\|go test .* -race " $src/_mutation/NOTES.md 2>/dev/null && race="-race"
pkgs=""
for d in $demos; do mkdir -p $(dirname $d); cp $src/$d $d; pkgs="$pkgs ./$(dirname $d)"; done
pkgs=$(echo $pkgs | tr ' ' '\n' | sort -u | tr '\n' ' ')
names=$(grep -h "^func Test" $demos | sed 's/func \(Test[A-Za-z0-9_]*\).*/\1/' | tr '\n' '|' | sed 's/|$//')
echo "demo: $demos  tests: $names race='$race'"
with=$(go test $race -vet=off -count=1 -run "^($names)\$" $pkgs 2>&1 | tail -3 | tr '\n' ' ')
git apply -R $src/_mutation/patch.diff
without=$(go test $race -vet=off -count=1 -run "^($names)\$" $pkgs 2>&1 | tail -3 | tr '\n' ' ')
echo "with change:    $with" | cut -c1-300
echo "without change: $without" | cut -c1-300
ok=yes
echo "$with" | grep -q "FAIL" || ok=no-demo-does-not-fail
echo "$without" | grep -q "FAIL" && ok=no-demo-fails-without
[ "$nonflaky" != "0" ] && ok=no-suite-fails
echo "RESULT $id confirmed=$ok"
cd /; git -C /repo worktree remove --force $scratch
