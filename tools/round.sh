#!/bin/bash
# usage: tools/round.sh <id>...   confirm each agent worktree's mutation and try it against its target property
for id in "$@"; do
  [ -f /tmp/wt/$id/_mutation/patch.diff ] || { echo "## $id: no patch yet"; continue; }
  r=$(tools/confirm_mutation.sh $id 2>&1 | grep "RESULT" | tail -1)
  echo "## $r"
  if echo "$r" | grep -q "confirmed=yes"; then
    LINES_MAX=3 tools/try_mutation.sh /tmp/wt/$id/_mutation/patch.diff $id 2>&1 | grep -v "VIOLATION property" | cut -c1-220
  fi
done
