#!/bin/bash
# usage: tools/try_shadow.sh <patch.diff> <prop> [<prop>...]
# Like try_mutation.sh, but /repo is never touched: the seeded change is
# applied to a scratch worktree and the check builds from it through
# VERIF_REPO_SHADOW (evidence and replays of the trial go into the scratch
# copy). Several trials can run at the same time, also next to a `vp run`.
set -u
patch=$1; shift
cd /verif
sh=$(mktemp -d /tmp/shadow-XXXXXX); rmdir $sh
git -C /repo worktree add -q --detach $sh HEAD || exit 2
trap 'git -C /repo worktree remove --force '$sh' 2>/dev/null; git -C /repo worktree prune' EXIT
git -C $sh apply "$patch" || { echo "patch does not apply"; exit 2; }
if ! git -C $sh diff --quiet -- go.mod go.sum; then echo "the change touches go.mod: use try_mutation.sh"; exit 2; fi
for p in "$@"; do
  out=$(VERIF_REPO_SHADOW=$sh VERIF_SEED=${VERIF_SEED:-1} ./bin/vcheck -p $p -tier ${TIER:-quick} 2>&1)
  rc=$?
  echo "== $p exit=$rc"
  echo "$out" | grep -E "^VIOLATION|signature:|^KNOWN|^C[0-9]+ tier|HARNESS|inconclusive" | cut -c1-260 | sort | uniq -c | sort -rn | head -${LINES_MAX:-12}
done
