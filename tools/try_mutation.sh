#!/bin/bash
# usage: tools/try_mutation.sh <patch.diff> <prop> [<prop>...]
# Applies a seeded change to /repo, runs the quick checks of the given
# properties, and undoes the change straight afterwards.
set -u
patch=$1; shift
cd /verif
git -C /repo diff --quiet || { echo "/repo is dirty"; exit 2; }
git -C /repo apply "$patch" || { echo "patch does not apply"; exit 2; }
trap 'git -C /repo checkout -- . ; git -C /repo clean -fdq' EXIT
for p in "$@"; do
  out=$(VERIF_SEED=${VERIF_SEED:-1} ./bin/vcheck -p $p -tier ${TIER:-quick} 2>&1)
  rc=$?
  echo "== $p exit=$rc"
  echo "$out" | grep -E "^VIOLATION|signature:|^KNOWN|^C[0-9]+ tier|HARNESS|inconclusive" | cut -c1-260 | sort | uniq -c | sort -rn | head -${LINES_MAX:-12}
done
