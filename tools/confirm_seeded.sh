#!/bin/bash
# usage: tools/confirm_seeded.sh <seeded-id>...   (e.g. C06-b)
# In a fresh scratch worktree of /repo HEAD: seeded/<id>/patch.diff applies and
# compiles, the existing suite passes with it, the stored demonstration fails
# with it and passes without it. The scratch worktree is removed afterwards.
export GOFLAGS=-mod=mod GOPROXY=off GOSUMDB=off GOTOOLCHAIN=local
for id in "$@"; do
  src=/verif/seeded/$id
  scratch=/tmp/confirm-$id
  git -C /repo worktree remove --force $scratch 2>/dev/null
  git -C /repo worktree add -q --detach $scratch HEAD || exit 2
  (
  cd $scratch
  if ! git apply $src/patch.diff; then echo "RESULT $id patch-does-not-apply"; exit; fi
  if ! go build ./... ; then echo "RESULT $id does-not-compile"; exit; fi
  suite=$(go test -vet=off -count=1 ./... 2>&1 | grep -v "no test files")
  nonflaky=$(echo "$suite" | grep "^--- FAIL" | grep -vc "TestHandlerHandleSignedLatency")
  demos=$(cd $src/demo && find . -name "*_test.go" | sed 's|^\./||')
  race=""
  grep -q "go test -race\|go test .* -race " $src/NOTES.md 2>/dev/null && race="-race"
  pkgs=""
  for d in $demos; do mkdir -p $(dirname $d); cp $src/demo/$d $d; pkgs="$pkgs ./$(dirname $d)"; done
  pkgs=$(echo $pkgs | tr ' ' '\n' | sort -u | tr '\n' ' ')
  names=$(grep -h "^func Test" $demos | sed 's/func \(Test[A-Za-z0-9_]*\).*/\1/' | tr '\n' '|' | sed 's/|$//')
  with=$(go test $race -vet=off -count=1 -run "^($names)\$" $pkgs 2>&1 | tail -3 | tr '\n' ' ')
  git apply -R $src/patch.diff
  without=$(go test $race -vet=off -count=1 -run "^($names)\$" $pkgs 2>&1 | tail -3 | tr '\n' ' ')
  ok=yes
  echo "$with" | grep -q "FAIL" || ok=no-demo-does-not-fail
  echo "$without" | grep -q "FAIL" && ok=no-demo-fails-without
  [ "$nonflaky" != "0" ] && ok=no-suite-fails
  echo "RESULT $id confirmed=$ok (suite non-flaky failures: $nonflaky)"
  [ "$ok" != yes ] && { echo "  with:    $with" | cut -c1-300; echo "  without: $without" | cut -c1-300; }
  )
  git -C /repo worktree remove --force $scratch
done
