#!/bin/bash
# usage: tools/stress_sweep.sh <seed> [<busy processes>]
# Quick sweep of all properties while N busy loops compete for the CPUs: a
# check that is right must stay silent (or inconclusive) on a loaded machine.
seed=${1:-1}; n=${2:-16}
cd /verif
pids=""
for i in $(seq $n); do ( while :; do :; done ) & pids="$pids $!"; done
trap 'kill $pids 2>/dev/null' EXIT
for p in C01 C02 C03 C04 C05 C06 C07 C08 C09 C10 C11 C12 C13 C14 C15 C16 C17 C18 C19 C20; do
  VERIF_SEED=$seed ./bin/vcheck -p $p -tier quick 2>&1 | grep -E "^VIOLATION|^C[0-9]+ tier|HARNESS|signature|inconclusive:" | cut -c1-260
done
